"""C08 - render_dependencies only strips markers/placeholders and inserts tags where documented (ENUM).

Part A  render_dependencies(): every document of <= L tokens over a hostile token alphabet
        (text incl. non-ASCII / '<' / '%', look-alike tags, </head> and </body> in whitespace and
        case variants, both placeholder kinds in the forms the library really emits - raw, with one
        and with two `data-djc-id-..=""` attributes -, marker comments of real components) x
        {str, bytes(utf-8), SafeString, bytes(latin-1) when the document has an 'e-acute'} x
        {document, fragment}, compared byte-exactly with a token-level reference of the statement.
        Bounds: quick = all documents of 0..4 tokens over the 24-token alphabet (346 201 documents,
        2.18 M calls); thorough adds all documents of 5 tokens over the 16-token alphabet in which
        the nine preserved-text tokens are merged into one (1 394 777 documents, 9.06 M calls).
Part B  ComponentDependencyMiddleware: all documents <= 2 tokens x content types x
        {HttpResponse, StreamingHttpResponse} x {sync, async}; the content types include bodies whose
        bytes are not valid in the declared charset (latin-1 under utf-8, utf-8 under us-ascii).

Reference (works on the token list, never on the string): drop marker tokens; fragment: drop
placeholders, append the JS tags; document: a kind whose placeholder occurs is inserted at every
such position, otherwise CSS goes immediately before the first </head\\s*> token and JS before the
last </body\\s*> token, otherwise nowhere.  The tag strings are the implementation's own
`_process_dep_declarations` output for the document's marker tokens alone (tag *content* is C04).

Agnostic / excluded corners (no verdict depends on them)
* `</HEAD>` / `</BODY>`: accepted under either reading (case-sensitive or case-insensitive
  recognition, independently for head and body); preservation is enforced under both.
* Marker look-alikes that the library never emits (other whitespace, unknown class hash,
  malformed data) are not generated; only `<!-- _RENDEREDX .. -->` (plain text) is.
* Generated tag strings never contain `</head>`, `</body>` or placeholder look-alikes ("first" /
  "last" would be ambiguous between the input and the document being assembled).
* str inputs that cannot be encoded as UTF-8 (lone surrogates) are not generated.
* Token concatenation never creates a recognised item across a token boundary (verified at
  start over all token triples - a failure of that is a harness error).
"""
from __future__ import annotations

import asyncio
import re
from itertools import product

from mc import boot, par

PID = "C08"
LEVEL = "model_checking"
DJANGO = {}

# token classes
TEXT, HEAD, HEAD_CI, BODY, BODY_CI, CSSPH, JSPH, MARK = "text", "head", "head_ci", "body", "body_ci", "cssph", "jsph", "mark"

KINDS = ("str", "bytes", "safe", "latin1")
RTYPES = ("document", "fragment")

_STATE: dict = {}


# ------------------------------------------------------------------ alphabet
def _build(seed: int) -> dict:
    """Create the real components, render them once and derive tokens from what the library emits."""
    if _STATE:
        return _STATE
    from django_components import Component
    from django_components.component_registry import registry

    boot.ID_SEAM.reset(start=(seed % 997) * 16)
    # (render ids come from the seam's real alphabet [0-9a-zA-Z]: the placeholders' id attributes carry them)
    letter = "abcdfgkmnq"[seed % 10]  # symmetric representative of the plain text token

    def mk(name, **attrs):
        return type(name, (Component,), {"__module__": "verif_c08", **attrs})

    # the inlined scripts carry backslash sequences (regex-template look-alikes: \\n \\1 \\g<0> \\d, CSS escapes): the
    # generated tags must reach every insertion point - placeholder or default location - byte for byte
    # ... and the TEXT of end tags (legal inside a script / a style sheet; only `</script` / `</style` are refused): the default
    # locations are those of the DOCUMENT, not of what was just inserted into it
    A = mk("C08A", template="<p>a</p>", js="console.log('A </head> </body>');", css='.a{color:red;content:"\\201C \\\\ </head></body>"}')
    B = mk("C08B", template="<p>b</p>", js="console.log('B\\n\\1\\g<0>\\d');")
    P = mk("C08P", template="{% component_css_dependencies %}{% component_js_dependencies %}")

    if "c08p" in registry.all():
        registry.unregister("c08p")
    registry.register("c08p", P)
    W = mk("C08W", template="{% component 'c08p' / %}")
    marker_re = re.compile(r"<!-- _RENDERED [^>]*? -->")
    ra1 = A.render(render_dependencies=False)
    rb = B.render(render_dependencies=False)
    ra2 = A.render(render_dependencies=False)
    ma1, mb, ma2 = (marker_re.search(x).group(0) for x in (ra1, rb, ra2))
    if ma1 == ma2 or not ma1.startswith("<!-- _RENDERED C08A_"):
        raise par.HarnessError(f"unexpected marker shape {ma1!r} / {ma2!r}")
    rp = marker_re.sub("", P.render(render_dependencies=False))
    rw = marker_re.sub("", W.render(render_dependencies=False))
    ph_re = re.compile(r'<link name="CSS_PLACEHOLDER"[^>]*>|<script name="JS_PLACEHOLDER"[^>]*></script>')
    p1, p2 = ph_re.findall(rp), ph_re.findall(rw)
    if len(p1) != 2 or len(p2) != 2 or "".join(p1) != rp or "".join(p2) != rw:
        raise par.HarnessError(f"unexpected placeholder renders {rp!r} / {rw!r}")
    if p1[0].count("data-djc-id-") != 1 or p2[0].count("data-djc-id-") != 2 or p2[1].count("data-djc-id-") != 2:
        raise par.HarnessError(f"root-level placeholders do not carry 1 / 2 ids: {p1} {p2}")
    from django_components.dependencies import CSS_DEPENDENCY_PLACEHOLDER, JS_DEPENDENCY_PLACEHOLDER

    toks = [
        # (name, string, class, text_class_for_reduced_alphabet)
        ("a", letter, TEXT),
        ("e'", "é", TEXT),
        ("<", "<", TEXT),
        ("%", "%", TEXT),
        ("\\n", "\n", TEXT),
        ("<head>", "<head>", TEXT),
        ("</bodyx>", "</bodyx>", TEXT),
        ("<!--_RENDEREDX-->", "<!-- _RENDEREDX a,b,, -->", TEXT),
        ("<link CSS_PLACEHOLDERS>", '<link name="CSS_PLACEHOLDERS">', TEXT),
        ("</head>", "</head>", HEAD),
        ("</head >", "</head >", HEAD),
        ("</HEAD>", "</HEAD>", HEAD_CI),
        ("</body>", "</body>", BODY),
        ("</body\\n>", "</body\n>", BODY),
        ("</BODY>", "</BODY>", BODY_CI),
        ("CSSPH", CSS_DEPENDENCY_PLACEHOLDER, CSSPH),
        ("CSSPH+1id", p1[0], CSSPH),
        ("CSSPH+2id", p2[0], CSSPH),
        ("JSPH", JS_DEPENDENCY_PLACEHOLDER, JSPH),
        ("JSPH+1id", p1[1], JSPH),
        ("JSPH+2id", p2[1], JSPH),
        ("MARK_A", ma1, MARK),
        ("MARK_B", mb, MARK),
        ("MARK_A'", ma2, MARK),
    ]
    _STATE["tokens"] = toks
    _STATE["names"] = [t[0] for t in toks]
    _STATE["cls"] = [t[2] for t in toks]
    _STATE["utf8"] = [t[1].encode("utf-8") for t in toks]
    _STATE["latin1"] = [t[1].encode("latin-1") for t in toks]
    _STATE["nonascii"] = {1}  # token indices holding a non-ASCII character
    # reduced alphabet for the deepest thorough layer: all preserved-text tokens become one token
    _STATE["merged_text"] = "".join(t[1] for t in toks if t[2] == TEXT)
    _STATE["keep"] = (A, B, P, W)  # keep classes alive (comp_hash_mapping is weak)
    _STATE["tags"] = {}
    boot.clear_render_registries()
    _selfcheck_alphabet()
    return _STATE


_ITEM_RE = re.compile(r"_RENDERED\s|PLACEHOLDER\"|</(?:head|body)\s*>", re.I)


def _selfcheck_alphabet() -> None:
    """No recognised item may arise across token boundaries (else the token-level reference is unsound)."""
    strs = [t[1] for t in _STATE["tokens"]]
    per = [len(_ITEM_RE.findall(s)) for s in strs]
    n = len(strs)
    for k in (2, 3):
        for combo in product(range(n), repeat=k):
            s = "".join(strs[i] for i in combo)
            if len(_ITEM_RE.findall(s)) != sum(per[i] for i in combo):
                raise par.HarnessError(f"alphabet not boundary-safe: {[strs[i] for i in combo]}")


# ------------------------------------------------------------------ reference
def _tags(mark_ids: tuple, rtype: str) -> tuple:
    """(js, css) tag bytes for the document's marker tokens, from the implementation itself."""
    key = (mark_ids, rtype)
    t = _STATE["tags"].get(key)
    if t is None:
        from django_components.dependencies import _process_dep_declarations

        rest, js, css = _process_dep_declarations(b"".join(_STATE["utf8"][i] for i in mark_ids), rtype)
        if rest != b"":
            raise par.HarnessError(f"marker tokens alone were not fully consumed: {rest!r}")
        if rtype == "document" and not js:
            raise par.HarnessError("document JS tags empty (core script expected)")
        # (the TEXT of an end tag inside a generated tag is fine: positions are those of the document - the statement's reading)
        if re.search(r"_RENDERED\s|PLACEHOLDER\"", (js + css).decode()):
            raise par.HarnessError("generated tags contain a marker / placeholder look-alike")
        t = _STATE["tags"][key] = (js, css)
    return t


def reference(doc: tuple, rtype: str, enc: str) -> tuple:
    """-> (set of acceptable outputs as bytes, outcome class)."""
    cls, raw = _STATE["cls"], _STATE[enc]
    marks = tuple(i for i in doc if cls[i] == MARK)
    js, css = _tags(marks, rtype)
    kept = [i for i in doc if cls[i] != MARK]
    if rtype == "fragment":
        body = b"".join(raw[i] for i in kept if cls[i] not in (CSSPH, JSPH))
        klass = "fragment:" + ("append" if js else "nothing")
        return {body + js}, klass
    has_css_ph = any(cls[i] == CSSPH for i in kept)
    has_js_ph = any(cls[i] == JSPH for i in kept)
    outs = set()
    klass = None
    for head_ci in (False, True):
        for body_ci in (False, True):
            head_pos = body_pos = None
            if not has_css_ph:
                for p, i in enumerate(kept):
                    if cls[i] == HEAD or (head_ci and cls[i] == HEAD_CI):
                        head_pos = p
                        break
            if not has_js_ph:
                for p, i in enumerate(kept):
                    if cls[i] == BODY or (body_ci and cls[i] == BODY_CI):
                        body_pos = p
            out = []
            for p, i in enumerate(kept):
                c = cls[i]
                if c == CSSPH:
                    out.append(css)
                    continue
                if c == JSPH:
                    out.append(js)
                    continue
                if p == head_pos:
                    out.append(css)
                if p == body_pos:
                    out.append(js)
                out.append(raw[i])
            outs.add(b"".join(out))
            if klass is None:  # class under the case-sensitive reading
                klass = "document:css=%s,js=%s%s" % (
                    "placeholder" if has_css_ph else ("head" if head_pos is not None else "nowhere"),
                    "placeholder" if has_js_ph else ("body" if body_pos is not None else "nowhere"),
                    ",markers" if marks else "",
                )
    return outs, klass


# ------------------------------------------------------------------ implementation under test
def _make_input(doc: tuple, kind: str):
    from django.utils.safestring import SafeString

    if kind == "latin1":
        return b"".join(_STATE["latin1"][i] for i in doc)
    b = b"".join(_STATE["utf8"][i] for i in doc)
    if kind == "bytes":
        return b
    s = b.decode("utf-8")
    return SafeString(s) if kind == "safe" else s


def check_one(doc: tuple, kind: str, rtype: str):
    """-> (clause or None, explanation, observation, outcome class, changed?)"""
    from django.utils.safestring import SafeString

    from django_components.dependencies import render_dependencies

    enc = "latin1" if kind == "latin1" else "utf8"
    inp = _make_input(doc, kind)
    expected, klass = reference(doc, rtype, enc)
    raw_in = inp if isinstance(inp, bytes) else inp.encode("utf-8")
    changed = expected != {raw_in}
    try:
        out = render_dependencies(inp, type=rtype)
    except Exception as e:  # the statement leaves no room for an exception on these inputs
        return f"exception:{type(e).__name__}", f"raised {type(e).__name__}: {e}", ("exc", type(e).__name__), klass, changed
    want_type = {"str": str, "bytes": bytes, "safe": SafeString, "latin1": bytes}[kind]
    if type(out) is not want_type:
        return f"type:{kind}", f"returned {type(out).__name__} for {want_type.__name__} input", ("type", type(out).__name__), klass, changed
    raw = out if isinstance(out, bytes) else out.encode("utf-8")
    if raw not in expected:
        exp = sorted(expected, key=len)[0]
        return "content", f"returned {_short(raw)!r}, the statement gives {_short(exp)!r}", raw, klass, changed
    return None, "", raw, klass, changed


def _short(b: bytes, n: int = 400) -> str:
    s = b.decode("utf-8", "replace")
    s = re.sub(r'<script type="application/json" data-djc>.*?</script>', "<script data-djc>{..}</script>", s)
    return s if len(s) <= n else s[:n] + "..."


def _core(doc: tuple, fails, need_nonascii: bool = False) -> tuple:
    """Deterministic greedy reduction keeping `fails(candidate)` true: delete tokens, then replace each
    token by the first token of its class (so `</head >` / `MARK_A'` variants of one core collapse).
    Returns (core after deletion only, canonical core)."""
    cls = _STATE["cls"]
    ok = (lambda c: bool(_STATE["nonascii"].intersection(c))) if need_nonascii else (lambda c: True)
    cur = list(doc)
    again = True
    while again:
        again = False
        for j in range(len(cur)):
            cand = tuple(cur[:j] + cur[j + 1:])
            if ok(cand) and fails(cand):
                cur = list(cand)
                again = True
                break
    deleted = tuple(cur)
    for j in range(len(cur)):
        for t in range(cur[j]):
            if cls[t] == cls[cur[j]]:
                cand = tuple(cur[:j] + [t] + cur[j + 1:])
                if ok(cand) and fails(cand):
                    cur = list(cand)
                    break
    return deleted, tuple(cur)


def _is_subseq(core: tuple, doc: tuple) -> bool:
    it = iter(doc)
    return all(t in it for t in core)


def _docs(alphabet: list, lengths):
    for L in lengths:
        for doc in product(alphabet, repeat=L):
            yield doc


def _worker(w, W, payload):
    layers = payload["layers"]
    agg = par.Agg()
    seen_ids = set()
    known_cores: dict = {}
    names = _STATE["names"]
    nonascii = _STATE["nonascii"]
    i = -1
    for alphabet, lengths in layers:
        for doc in _docs(alphabet, lengths):
            i += 1
            if i % W != w:
                continue
            for kind in KINDS:
                if kind == "latin1" and not nonascii.intersection(doc):
                    continue
                for rtype in RTYPES:
                    agg.states += 1
                    agg.transitions += 1
                    clause, what, obs, klass, changed = check_one(doc, kind, rtype)
                    agg.validated += 1
                    agg.expected[klass] += 1
                    if changed:
                        agg.nontrivial += 1
                    agg.observe(obs)
                    if clause is not None:
                        agg.extra["failing_cases"] += 1
                        # attribute to the kind-independent core when the plain-str input fails the same way
                        k = kind
                        if kind != "str" and check_one(doc, "str", rtype)[0] == clause:
                            k = "str"
                        if any(_is_subseq(c, doc) for c in known_cores.get((k, rtype, clause), ())):
                            continue  # contains an already reported core of the same clause
                        dcore, core = _core(doc, lambda c: check_one(c, k, rtype)[0] == clause, need_nonascii=(k == "latin1"))
                        known_cores.setdefault((k, rtype, clause), []).append(dcore)
                        ident = f"rd:{rtype}:{clause}:{' '.join(names[t] for t in core)}"
                        if k != "str":
                            ident += f" [{k} input]"
                        if ident in seen_ids:
                            continue
                        seen_ids.add(ident)
                        what2 = check_one(core, k, rtype)[1]
                        agg.fail(ident, f"render_dependencies({k} {_short(_raw(core, k), 200)!r}, type={rtype!r}) {what2}",
                                 {"part": "render_dependencies", "tokens": [_STATE["tokens"][t][1] for t in core],
                                  "token_names": [names[t] for t in core], "kind": k, "type": rtype, "clause": clause})
    return agg


def _raw(doc, kind):
    inp = _make_input(doc, kind)
    return inp if isinstance(inp, bytes) else inp.encode("utf-8")


# ------------------------------------------------------------------ middleware
CONTENT_TYPES = [
    ("text/html", True, "utf8"),
    ("text/html; charset=utf-8", True, "utf8"),
    ("text/html; charset=iso-8859-1", True, "latin1"),
    # body bytes that are NOT valid in the declared charset (legacy latin-1 page served under Django's default
    # utf-8; utf-8 page declared us-ascii): every byte the middleware does not own must still be preserved
    ("text/html; charset=utf-8", True, "latin1"),
    ("text/html; charset=us-ascii", True, "utf8"),
    ("application/json", False, "utf8"),
    ("text/plain", False, "utf8"),
    (None, False, "utf8"),
]


def _mw_case(doc: tuple, ctype, is_html: bool, enc: str, streaming: bool, is_async: bool):
    """-> (clause or None, what, observation)"""
    from django.http import HttpRequest, HttpResponse, StreamingHttpResponse

    from django_components.middleware import ComponentDependencyMiddleware

    raw = b"".join(_STATE[enc][i] for i in doc)
    if streaming:
        chunks = [_STATE[enc][i] for i in doc]
        resp = StreamingHttpResponse(iter(chunks), content_type=ctype or "text/html")
    else:
        resp = HttpResponse(raw, content_type=ctype or "text/html")
    if ctype is None:
        del resp["Content-Type"]
    headers_before = sorted(resp.items())
    try:
        if is_async:
            async def get_response(request):
                return resp

            out = asyncio.run(ComponentDependencyMiddleware(get_response)(HttpRequest()))
        else:
            out = ComponentDependencyMiddleware(lambda request: resp)(HttpRequest())
    except Exception as e:
        return f"exception:{type(e).__name__}", f"middleware raised {type(e).__name__}: {e}", ("exc",)
    if out is not resp:
        return "identity", "middleware returned a different response object", ("obj",)
    if sorted(out.items()) != headers_before:
        return "headers", f"headers changed from {headers_before} to {sorted(out.items())}", ("hdr",)
    if streaming:
        got = b"".join(out.streaming_content)
        if got != raw:
            return "streaming", f"streaming body changed: {_short(got)!r} != {_short(raw)!r}", got
        return None, "", got
    got = out.content
    if not is_html:
        if got != raw:
            return "non-html", f"non-HTML body changed: {_short(got)!r} != {_short(raw)!r}", got
        return None, "", got
    expected, _ = reference(doc, "document", enc)
    if got not in expected:
        exp = sorted(expected, key=len)[0]
        return "content", f"body is {_short(got)!r}, the statement gives {_short(exp)!r}", got
    return None, "", got


def _mw_worker(w, W, payload):
    agg = par.Agg()
    n = len(_STATE["tokens"])
    names = _STATE["names"]
    seen = set()
    i = -1
    for doc in _docs(list(range(n)), payload["lengths"]):
        for ctype, is_html, enc in CONTENT_TYPES:
            if enc == "latin1" and len(doc) > 1 and not _STATE["nonascii"].intersection(doc):
                continue
            for streaming in (False, True):
                for is_async in (False, True):
                    i += 1
                    if i % W != w:
                        continue
                    agg.states += 1
                    agg.transitions += 1
                    clause, what, obs = _mw_case(doc, ctype, is_html, enc, streaming, is_async)
                    agg.validated += 1
                    touched = is_html and not streaming
                    agg.expected["processed" if touched else "untouched"] += 1
                    if touched or doc:
                        agg.nontrivial += 1
                    agg.observe((obs, touched))
                    if clause is not None:
                        agg.extra["failing_cases"] += 1
                        _, core = _core(doc, lambda c: _mw_case(c, ctype, is_html, enc, streaming, is_async)[0] == clause,
                                        need_nonascii=(enc == "latin1"))
                        ident = f"mw:{clause}:{' '.join(names[t] for t in core)}"
                        if enc == "latin1" and _STATE["nonascii"].intersection(core):
                            ident += " [latin-1 body]"
                        if clause in ("identity", "headers", "streaming", "non-html"):
                            ident += f" [{ctype}, {'streaming' if streaming else 'plain'}]"
                        if ident in seen:
                            continue
                        seen.add(ident)
                        what2 = _mw_case(core, ctype, is_html, enc, streaming, is_async)[1]
                        agg.fail(ident, f"content_type={ctype!r} streaming={streaming} async={is_async} "
                                        f"body={_short(b''.join(_STATE[enc][t] for t in core), 200)!r}: {what2}",
                                 {"part": "middleware", "tokens": [_STATE["tokens"][t][1] for t in core],
                                  "token_names": [names[t] for t in core], "content_type": ctype,
                                  "is_html": is_html, "enc": enc, "streaming": streaming, "async": is_async})
    return agg


# ------------------------------------------------------------------ entry points
def _layers(tier: str):
    n = len(_STATE["tokens"])
    full = list(range(n))
    layers = [(full, range(0, 5))]
    if tier == "thorough":
        # deepest layer: the preserved-text tokens (plain and look-alike) are one token (index n)
        _install_merged_token()
        reduced = [i for i in full if _STATE["cls"][i] != TEXT] + [n]
        layers.append((reduced, [5]))
    return layers


def _install_merged_token():
    if _STATE.get("merged_installed"):
        return
    _STATE["merged_installed"] = True
    m = _STATE["merged_text"]
    _STATE["names"].append("TEXT*")
    _STATE["cls"].append(TEXT)
    _STATE["utf8"].append(m.encode("utf-8"))
    _STATE["latin1"].append(m.encode("latin-1"))
    _STATE["nonascii"].add(len(_STATE["tokens"]))
    _STATE["tokens"] = _STATE["tokens"] + [("TEXT*", m, TEXT)]
    _selfcheck_alphabet()


def run(ctx):
    ev, fnd = ctx.ev, ctx.fnd
    st = _build(ctx.seed)
    n = len(st["tokens"])
    layers = _layers(ctx.tier)
    ev.rule = (
        "ENUM: every token sequence up to the bound x input kind x render type is run through the real "
        "render_dependencies and compared byte-exactly with the token-level reference; non-trivial = the reference "
        "output differs from the input (something is stripped or inserted)"
    )
    # determinism self-test on the first documents
    first = [d for _, d in zip(range(60), _docs(list(range(n)), range(0, 3)))]
    for d in first:
        for rtype in RTYPES:
            a = check_one(d, "str", rtype)[2]
            b = check_one(d, "str", rtype)[2]
            if a != b:
                raise par.HarnessError(f"non-deterministic output for {d}")
    total = sum(len(a) ** L for a, ls in layers for L in ls)
    print(f"C08: {total} documents x kinds x types, alphabet {n} tokens, layers {[(len(a), list(ls)) for a, ls in layers]}", flush=True)
    agg = par.run_sharded(_worker, {"layers": [(a, list(ls)) for a, ls in layers]})
    fnd.merge_reports(agg.failures)
    ev.add_part(
        "render_dependencies", states=agg.states, transitions=agg.transitions, validated=agg.validated,
        nontrivial=agg.nontrivial, observed_distinct=len(agg.observed), expected=agg.expected,
        bound={"alphabet_tokens": n, "layers": [{"alphabet": len(a), "lengths": list(ls)} for a, ls in layers],
               "documents": total, "kinds": list(KINDS), "types": list(RTYPES)},
        samples=[{"tokens": ["</body>", "</head>", "MARK_A"], "kind": "str", "type": "document"},
                 {"tokens": ["CSSPH+2id", "</head>", "MARK_A", "</BODY>"], "kind": "bytes", "type": "document"}],
        extra={"failing_cases": int(agg.extra.get("failing_cases", 0)), "failures_dropped": agg.failures_dropped},
    )
    mw = par.run_sharded(_mw_worker, {"lengths": [0, 1, 2]})
    fnd.merge_reports(mw.failures)
    ev.add_part(
        "middleware", states=mw.states, transitions=mw.transitions, validated=mw.validated, nontrivial=mw.nontrivial,
        observed_distinct=len(mw.observed), expected=mw.expected,
        bound={"document_tokens": 2, "content_types": [c[0] for c in CONTENT_TYPES], "response_classes": 2, "sync_async": 2},
        samples=[{"tokens": ["</head>", "</body>"], "content_type": "text/html; charset=utf-8", "streaming": False}],
        extra={"failing_cases": int(mw.extra.get("failing_cases", 0))},
    )
    ev.assumptions = [
        "tag strings come from the implementation's own _process_dep_declarations for the same markers (their content is C04)",
        "</HEAD> and </BODY> accepted under either case reading; </head\\s*> whitespace variants are recognised end tags",
        "bytes inputs: UTF-8 and (for documents with a non-ASCII character) latin-1; str inputs are UTF-8 encodable",
        "documents longer than the token bound are not explored",
    ]


def replay(ctx, case):
    st = _build(ctx.seed)
    _install_merged_token()
    by_str = {t[1]: i for i, t in enumerate(st["tokens"])}
    name_to = {t[0]: i for i, t in enumerate(st["tokens"])}
    doc = []
    for k, s in enumerate(case["tokens"]):
        if s in by_str:
            doc.append(by_str[s])
        else:  # marker / placeholder strings carry ids that may differ between seeds: fall back to the token name
            doc.append(name_to[case["token_names"][k]])
    doc = tuple(doc)
    if case["part"] == "render_dependencies":
        clause, what, obs, klass, changed = check_one(doc, case["kind"], case["type"])
        print(f"input ({case['kind']}, {case['type']}): {_raw(doc, case['kind'])!r}")
        print(f"output: {obs!r}")
        print("expected one of:")
        for e in sorted(reference(doc, case["type"], "latin1" if case["kind"] == "latin1" else "utf8")[0]):
            print(f"  {e!r}")
        print(what or "matches the reference")
        return clause is None
    clause, what, obs = _mw_case(doc, case["content_type"], case["is_html"], case["enc"], case["streaming"], case["async"])
    print(what or "matches the reference")
    return clause is None
