"""C09 - the template lexer partitions the source exactly (ENUM engine).

Seam      django_components.util.template_parser.parse_template(src) (the function the
          patched Template.compile_nodelist feeds to Django's Parser) and, part B, the
          public route Template(src) with a debug and a non-debug engine.
Alphabet  34 source fragments (FRAGMENT_NAMES): text, newline, {{ }}, {# #}, {% %} tags with
          0..2 quoted strings (both quote kinds, escaped quote, string ending in an escaped
          backslash `"q\\\\"` / `'q\\\\'` - closing quote after an even run of backslashes -,
          embedded `%}` / `}}` / newline), a multi-line tag, verbatim openers / closers (plain,
          named, quoted name after a space / a tab / a newline - stock Django enters verbatim
          mode only for contents[:9] in ("verbatim", "verbatim "), so only the space form
          does), a multi-line tag whose only quotes sit on a continuation line with `%}` inside the
          string, a lone `%` directly before the closing `%}` / before a quote / before the first quote of a tag
          with an in-string `%}`, a backslash-newline inside a string, unterminated constructs.  The fragments are uniquely decodable, so fragment
          sequences are distinct sources.
Bound     every sequence of <= L fragments (quick L=4 lexer + L=3 public route; thorough
          L=5 + L=4) plus every sequence of exactly L+1 fragments over the 11-fragment
          sub-alphabet DEEP, each under both values of COMPONENTS.multiline_tags (tag_re with and
          without re.DOTALL - sources without a newline lex identically under both and are
          executed once).
Oracle    (1) spans contiguous from 0 to len(src), non-empty;
          (2) TEXT contents == span, other contents == span[2:-2].strip() and the span
              carries the delimiters of the token type;
          (3) lineno == 1 + newlines before the span;
          (4) stream == stock DebugLexer(src).tokenize() when no stock BLOCK token has a quote;
          (5) otherwise stream == a quote-aware reference lexer (str.find state machine, no
              regex) which is stock except that a BLOCK tag ends at the first `%}` outside a
              quoted string;
          (6) TemplateSyntaxError only where the reference finds an unbalanced quote / no
              closing `%}`; any other exception class, or no answer within 2 s of CPU time (a
              process CPU timer, so that a loaded machine cannot fake a hang), is a violation.
          The reference is itself validated against stock on every quote-free source
          (disagreement = harness error, exit 2).
          Part B: Template(src) and Template(src + '{% bogus %}'): the token stream handed to
          django.template.base.Parser (recorded by a harness-side wrapper of Parser.__init__) must be
          the reference stream, and the compile must end exactly like Django's Parser run on
          the reference tokens: same exception class, same message ("... on line N ..."), same
          failing token (contents, position, lineno) and, debug engine, the same template_debug
          dict.  The class is TemplateSyntaxError except where a stock compile function itself
          crashes on the stock stream: `{% verbatim<TAB|NL>"q" %}{{ v }}{% endverbatim %}` is
          not a verbatim block for the lexer, so Django's `verbatim` tag renders a VariableNode
          with a template-less Context at compile time -> AttributeError, with or without
          django_components (class "stock-raises-AttributeError" in the evidence).

Agnostic / excluded corners (accepted under either reading)
* backslash escapes inside quoted strings are honoured (as Django's own smart_split does);
  the statement only says "quoted string".
* multiline_tags=False and the quote-aware scan has to cross a newline to find the real
  `%}` (or to find out there is none): the statement does not say whether a single-line
  configuration may produce a multi-line tag; only clauses 1-3 are asserted there.
* where the reference finds the tag unterminated the implementation may raise
  TemplateSyntaxError or return any stream satisfying 1-3.
* quoted verbatim names whose quoted part contains `%}` are not generated.
* part B, agnostic sources: only "no hang, and no exception other than TemplateSyntaxError or
  one raised by a tag's compile function (it carries Parser.error()'s `.token`)" is asserted.
"""
from __future__ import annotations

import re
import signal
from collections import Counter
from itertools import product

from mc import par

PID = "C09"
LEVEL = "model_checking"
DJANGO = {}

_CLOSE = {"%": "%}", "{": "}}", "#": "#}"}
_KIND = {"%": "BLOCK", "{": "VAR", "#": "COMMENT"}
_OPEN_OF = {"BLOCK": "{%", "VAR": "{{", "COMMENT": "{#"}
_CLOSE_OF = {"BLOCK": "%}", "VAR": "}}", "COMMENT": "#}"}

_NAMES = [("t", "u", "v", "c", "a", "q", "r"), ("x", "w", "n", "k", "b", "p", "s"), ("m", "h", "j", "d", "g", "z", "y")]


FRAGMENT_NAMES = [
    "T", "NL", "T_NL_T", "VAR", "VAR_OPEN", "COMMENT", "TAG", "TAG_DQ", "TAG_SQ", "TAG_DQ_CLOSE_INSIDE", "TAG_SQ_VARCLOSE_INSIDE",
    "TAG_DQ_ESCAPED", "TAG_MULTILINE_DQ", "TAG_DQ_DQ", "VERBATIM", "ENDVERBATIM", "VERBATIM_NAMED", "TAG_DQ_OPEN", "TAG_OPEN",
    "TAG_DQ_CLOSE_NL_INSIDE", "VERBATIM_DQ", "ENDVERBATIM_DQ", "TAG_SQ_CLOSE_INSIDE",
    "TAG_DQ_ENDS_ESC_BACKSLASH", "TAG_SQ_ENDS_ESC_BACKSLASH",
    "VERBATIM_TAB_DQ", "VERBATIM_NL_DQ", "ENDVERBATIM_TAB_DQ", "ENDVERBATIM_NL_DQ",
    "TAG_NL_DQ_CLOSE_INSIDE", "TAG_DQ_PERCENT_CLOSE", "TAG_PERCENT_DQ",
    "TAG_DQ_BACKSLASH_NL", "TAG_PERCENT_DQ_CLOSE_INSIDE",
]
# every sequence of exactly L+1 fragments over this sub-alphabet is added to the full enumeration <= L
DEEP = ["T", "NL", "VAR", "TAG", "TAG_DQ", "TAG_DQ_CLOSE_INSIDE", "TAG_MULTILINE_DQ", "TAG_DQ_CLOSE_NL_INSIDE", "VERBATIM", "ENDVERBATIM", "TAG_DQ_OPEN"]


def alphabet(seed: int):
    t, u, v, c, a, q, r = _NAMES[seed % len(_NAMES)]
    A = [
        t,
        "\n",
        f"{u}\n{u}",
        "{{ %s }}" % v,
        "{{ %s" % v,
        "{# %s #}" % c,
        "{%% %s %%}" % a,
        '{%% %s "%s" %%}' % (a, q),
        "{%% %s '%s' %%}" % (a, q),
        '{%% %s "%s%%}%s" %%}' % (a, q, r),
        "{%% %s '}}' %%}" % a,
        '{%% %s "%s\\"%s" %%}' % (a, q, q),
        '{%% %s\n"%s"\n%%}' % (a, q),
        '{%% %s "%s" "%s" %%}' % (a, q, r),
        "{% verbatim %}",
        "{% endverbatim %}",
        "{%% verbatim %s %%}" % v,
        '{%% %s "%s' % (a, q),
        "{%% %s" % a,
        '{%% %s "%s%%}\n%s" %%}' % (a, q, r),
        '{%% verbatim "%s" %%}' % q,
        '{%% endverbatim "%s" %%}' % q,
        "{%% %s '%s%%}%s' %%}" % (a, q, r),
        # a string whose closing quote follows an escaped backslash (even run of backslashes), both quote kinds
        '{%% %s "%s\\\\" %%}' % (a, q),
        "{%% %s '%s\\\\' %%}" % (a, q),
        # `verbatim` / `endverbatim` separated from a quoted name by non-space whitespace: stock Django enters
        # verbatim mode only for contents[:9] in ("verbatim", "verbatim "), i.e. NOT here
        '{%% verbatim\t"%s" %%}' % q,
        '{%% verbatim\n"%s" %%}' % q,
        '{%% endverbatim\t"%s" %%}' % q,
        '{%% endverbatim\n"%s" %%}' % q,
        # multi-line tag whose only quotes sit on a continuation line, with `%%}` inside the string
        '{%% %s\n"%s%%}%s"\n%%}' % (a, q, r),
        # a lone `%%` directly followed by the closing `%%}` / by a quote, inside a tag that has a quoted string
        '{%% %s "%s" %s%%%%}' % (a, q, r),
        '{%% %s %s%%"%s" %%}' % (a, r, q),
        # a backslash directly followed by a newline inside a quoted string (the escape covers the newline)
        '{%% %s "%s\\\n%s" %%}' % (a, q, r),
        # a lone `%%` before the first quote of the tag, and `%%}` inside the string
        '{%% %s %s%% "%s%%}%s" %%}' % (a, r, q, r),
    ]
    assert len(A) == len(FRAGMENT_NAMES)
    return A


# ------------------------------------------------------------------ reference lexer
def _scan_block_end(src: str, p: int, n: int):
    """index just after the first `%}` outside quotes, or None (unbalanced quote / no close)"""
    while p < n:
        ch = src[p]
        if ch == '"' or ch == "'":
            p += 1
            while True:
                if p >= n:
                    return None
                d = src[p]
                if d == "\\" and p + 1 < n:
                    p += 2
                    continue
                if d == ch:
                    break
                p += 1
            p += 1
        elif ch == "%" and p + 1 < n and src[p + 1] == "}":
            return p + 2
        else:
            p += 1
    return None


def ref_lex(src: str, dotall: bool):
    """-> (tokens | None, flags).  token = (type, contents, a, b, lineno).
    tokens None = a quoted tag is unterminated.  flags: 'ext' number of quote-aware
    rescans, 'crossed_nl' a rescan crossed a newline, 'kept' a `%}` was kept inside a tag."""
    out = []
    n = len(src)
    find = src.find
    count = src.count
    i = 0
    t0 = 0
    verb = None
    flags = {"ext": 0, "crossed_nl": False, "kept": 0}
    while True:
        i = find("{", i)
        if i < 0 or i + 1 >= n:
            break
        k = src[i + 1]
        closer = _CLOSE.get(k)
        if closer is None:
            i += 1
            continue
        j = find(closer, i + 2)
        if j < 0 or (not dotall and find("\n", i + 2, j) >= 0):
            i += 1
            continue
        e = j + 2
        as_text = False
        if k == "%":
            content = src[i + 2:j].strip()
            if verb is not None and content != verb:
                as_text = True
            else:
                if '"' in content or "'" in content:
                    flags["ext"] += 1
                    e2 = _scan_block_end(src, i + 2, n)
                    if e2 is None:
                        if find("\n", i) >= 0:
                            flags["crossed_nl"] = True
                        return None, flags
                    if e2 != e:
                        flags["kept"] += 1
                        if find("\n", e - 2, e2) >= 0:
                            flags["crossed_nl"] = True
                    e = e2
                    content = src[i + 2:e - 2].strip()
                if verb is not None:
                    verb = None
                elif content[:9] in ("verbatim", "verbatim "):
                    verb = "end" + content
        else:
            if verb is not None:
                as_text = True
            else:
                content = src[i + 2:j].strip()
        if t0 < i:
            out.append(("TEXT", src[t0:i], t0, i, 1 + count("\n", 0, t0)))
        if as_text:
            out.append(("TEXT", src[i:e], i, e, 1 + count("\n", 0, i)))
        else:
            out.append((_KIND[k], content, i, e, 1 + count("\n", 0, i)))
        i = t0 = e
    if t0 < n:
        out.append(("TEXT", src[t0:n], t0, n, 1 + count("\n", 0, t0)))
    return out, flags


def _tup(tokens):
    return [(t.token_type.name, t.contents, t.position[0], t.position[1], t.lineno) for t in tokens]


def invariant_problem(src: str, toks):
    """clauses 1-3 on a stream of tuples; -> (clause, text) | None"""
    pos = 0
    for idx, (ty, contents, a, b, ln) in enumerate(toks):
        if a != pos or b <= a:
            return "partition", f"token #{idx} {ty} spans ({a},{b}) but the previous token ended at {pos}"
        pos = b
        span = src[a:b]
        if ty == "TEXT":
            if contents != span:
                return "contents", f"TEXT token #{idx} contents {contents!r} != its span {span!r}"
        else:
            if span[:2] != _OPEN_OF[ty] or span[-2:] != _CLOSE_OF[ty] or len(span) < 4:
                return "contents", f"{ty} token #{idx} span {span!r} does not carry the {ty} delimiters"
            if contents != span[2:-2].strip():
                return "contents", f"{ty} token #{idx} contents {contents!r} != span without delimiters {span[2:-2].strip()!r}"
        want = 1 + src.count("\n", 0, a)
        if ln != want:
            return "lineno", f"{ty} token #{idx} at offset {a} has lineno {ln}, expected {want} (1 + newlines before its start)"
    if pos != len(src):
        return "partition", f"tokens end at {pos}, source has {len(src)} characters"
    return None


HANG_SECONDS = 2.0  # CPU time of the executing process (ITIMER_PROF): independent of the load on the machine
HANG_WALL_SECONDS = 300.0  # wall-clock backstop for a stall that burns no CPU
MAX_HANGS = 2


class _Hang(BaseException):
    pass


def _on_alarm(signum, frame):
    raise _Hang()


def _arm():
    """The lexer is pure computation, so a hang burns CPU: the verdict timer counts the CPU time of this
    process.  (A 2 s wall-clock timer reported 5 false hangs in 41 M executions on a machine with load 150.)"""
    signal.signal(signal.SIGPROF, _on_alarm)
    signal.signal(signal.SIGALRM, _on_alarm)
    signal.setitimer(signal.ITIMER_REAL, HANG_WALL_SECONDS)
    signal.setitimer(signal.ITIMER_PROF, HANG_SECONDS)


def _disarm():
    signal.setitimer(signal.ITIMER_PROF, 0)
    signal.setitimer(signal.ITIMER_REAL, 0)


_TAG_RE = {}


def set_mode(dotall: bool):
    from django.template import base

    if not _TAG_RE:
        pat = base.tag_re.pattern
        _TAG_RE[True] = re.compile(pat, re.DOTALL)
        _TAG_RE[False] = re.compile(pat)
    base.tag_re = _TAG_RE[dotall]


def lex_case(src: str, dotall: bool):
    """Run implementation, stock and reference on one source.
    -> (problem | None, info) ; problem = (clause, text)"""
    from django.template.base import DebugLexer
    from django.template.exceptions import TemplateSyntaxError

    from django_components.util.template_parser import parse_template

    info = {"cls": "", "obs": None, "ext": 0}
    impl = err = None
    _arm()
    try:
        impl = _tup(parse_template(src))
    except TemplateSyntaxError as e:
        err = e
    except _Hang:
        info["cls"] = "hang"
        return ("hang", f"parse_template did not return within {HANG_SECONDS} s of CPU time"), info
    except Exception as e:  # clause 6
        info["cls"] = "exception"
        return ("exception", f"parse_template raised {type(e).__name__}: {e}"), info
    finally:
        _disarm()
    stock = _tup(DebugLexer(src).tokenize())
    quoted = False
    for ty, contents, _a, _b, _l in stock:
        if ty == "BLOCK" and ('"' in contents or "'" in contents):
            quoted = True
            break
    ref, flags = ref_lex(src, dotall)
    info["ext"] = flags["ext"]
    if not quoted:
        if ref != stock:
            raise par.HarnessError(f"reference lexer disagrees with stock Django on quote-free source {src!r} (dotall={dotall}): {ref} vs {stock}")
        info["cls"] = "stock-equal"
        if err is not None:
            return ("spurious-error", f"TemplateSyntaxError({err}) although no block tag contains a quote"), info
        info["obs"] = impl
        p = invariant_problem(src, impl)
        if p:
            return p, info
        if impl != stock:
            return ("stock", f"no block tag contains a quote but the stream differs from stock Django: {_diff(impl, stock)}"), info
        return None, info
    agnostic = flags["crossed_nl"] and not dotall
    if ref is None:
        info["cls"] = "unterminated"
        if err is not None:
            info["obs"] = "TSE"
            return None, info
        info["obs"] = impl
        return invariant_problem(src, impl), info
    info["cls"] = "agnostic-singleline-newline" if agnostic else ("kept-close" if flags["kept"] else "quoted-same-as-stock")
    if err is not None:
        info["obs"] = "TSE"
        if agnostic:
            return None, info
        return ("spurious-error", f"TemplateSyntaxError({err}) although every quote is balanced and every tag is closed"), info
    info["obs"] = impl
    p = invariant_problem(src, impl)
    if p:
        return p, info
    if not agnostic and impl != ref:
        return ("reference", f"stream differs from the quote-aware reference: {_diff(impl, ref)}"), info
    if not flags["kept"] and not agnostic and impl != stock:
        return ("stock", f"no `%}}` lies inside a quoted string but the stream differs from stock Django: {_diff(impl, stock)}"), info
    return None, info


def _diff(got, want):
    for i, (g, w) in enumerate(zip(got, want)):
        if g != w:
            return f"token #{i}: got {g}, expected {w}"
    return f"got {len(got)} tokens, expected {len(want)}: got tail {got[len(want):][:2]}, expected tail {want[len(got):][:2]}"


# ------------------------------------------------------------------ part B: public route
_ENGINES = {}


def _engines(tag_name: str):
    if not _ENGINES:
        from django.template import Library, Node
        from django.template.engine import Engine

        lib = Library()

        class _Nop(Node):
            def render(self, context):
                return ""

        lib.tag(tag_name, lambda parser, token: _Nop())
        base_engine = Engine.get_default()
        for dbg in (True, False):
            eng = Engine(debug=dbg, builtins=list(base_engine.builtins), loaders=[("django.template.loaders.locmem.Loader", {})])
            eng.template_builtins.append(lib)
            _ENGINES[dbg] = eng
    return _ENGINES


_SPY = {"installed": False, "log": []}


def _install_parser_spy():
    """Records the token stream every django.template.base.Parser is constructed with (a snapshot: tag
    functions rewrite token.contents later).  Harness-side observation only; the class object stays the same."""
    if _SPY["installed"]:
        return
    from django.template.base import Parser

    orig = Parser.__init__

    def __init__(self, tokens, *a, **kw):
        tokens = list(tokens)
        _SPY["log"].append(_tup(tokens))
        orig(self, tokens, *a, **kw)

    Parser.__init__ = __init__
    _SPY["installed"] = True


def _exc_kind(e):
    from django.template.exceptions import TemplateSyntaxError

    return "TSE" if isinstance(e, TemplateSyntaxError) else type(e).__name__


def route_case(src: str, dotall: bool, tag_name: str):
    """Template(src) through both engines vs Django's Parser on the reference tokens."""
    from types import SimpleNamespace

    from django.template import Template
    from django.template.base import UNKNOWN_SOURCE, Origin, Parser, Token, TokenType

    info = {"cls": "", "obs": None}
    ref, flags = ref_lex(src, dotall)
    agnostic = ref is None or (flags["crossed_nl"] and not dotall)
    engines = _engines(tag_name)
    exp = None
    if not agnostic:
        rtoks = [Token(TokenType[ty], c, (a, b), ln) for ty, c, a, b, ln in ref]
        eng = engines[True]
        try:
            Parser(rtoks, eng.template_libraries, eng.template_builtins, Origin(UNKNOWN_SOURCE)).parse()
            exp = ("ok",)
        except Exception as e:
            # TemplateSyntaxError, or whatever a stock compile function raises on the stock stream (e.g. the
            # AttributeError of `{% verbatim<TAB>"q" %}{{ v }}{% endverbatim %}`: no verbatim mode, so the
            # verbatim tag renders a VariableNode at compile time); Parser.error() put `.token` on it
            tok = e.token
            fake = SimpleNamespace(source=src, origin=Origin(UNKNOWN_SOURCE))
            dbg = Template.get_exception_info(fake, e, tok)
            exp = (_exc_kind(e), str(e), (tok.token_type.name, tok.contents, tok.position, tok.lineno), dbg)
        if exp[0] == "ok":
            info["cls"] = "ok"
        elif exp[0] == "TSE":
            info["cls"] = re.sub(r"\d+", "N", exp[1]).split(":")[0][:40]
        else:
            info["cls"] = "stock-raises-" + exp[0]
    else:
        info["cls"] = "agnostic"
    _install_parser_spy()
    for dbg_flag in (True, False):
        _arm()
        del _SPY["log"][:]
        try:
            Template(src, engine=engines[dbg_flag])
            got = ("ok",)
        except _Hang:
            return ("route-hang", f"Template(src) did not return within {HANG_SECONDS} s of CPU time"), info
        except Exception as e:
            tok = getattr(e, "token", None)
            got = (_exc_kind(e), str(e), (tok.token_type.name, tok.contents, tok.position, tok.lineno) if tok is not None else None,
                   getattr(e, "template_debug", None))
            if agnostic and got[0] != "TSE" and tok is None:
                # not raised by a tag's compile function (Parser.error() would have attached the token): the lexer crashed
                return ("route-exception", f"Template(src) raised {type(e).__name__}: {e}"), info
        finally:
            _disarm()
        info["obs"] = got[:3]
        if agnostic:
            continue
        # the stream the public route hands to Django's Parser (first Parser built by this Template() call)
        handed = _SPY["log"][0] if _SPY["log"] else None
        if handed != ref:
            return ("route-stream", f"Template(src) (debug={dbg_flag}) handed Django's Parser a stream that differs from the reference: "
                                    f"{_diff(handed or [], ref)}"), info
        if got[0] != exp[0]:
            return ("route-outcome", f"Template(src) (debug={dbg_flag}) gave {got[:2]}, Django's Parser on the reference tokens gives {exp[:2]}"), info
        if got[0] == "ok":
            continue
        if got[1] != exp[1]:
            return ("route-message", f"error message {got[1]!r} (debug={dbg_flag}), expected {exp[1]!r}"), info
        if got[2] != exp[2]:
            return ("route-token", f"failing token {got[2]} (debug={dbg_flag}), expected {exp[2]}"), info
        if dbg_flag and got[3] != exp[3]:
            g, w = got[3] or {}, exp[3]
            keys = [k for k in w if g.get(k) != w[k]]
            return ("route-template_debug", f"template_debug differs in {keys}: got { {k: g.get(k) for k in keys[:3]} }, expected { {k: w[k] for k in keys[:3]} }"), info
    return None, info


# ------------------------------------------------------------------ enumeration
def _sequences(K: int, lo: int, hi: int, w: int, W: int):
    """all index tuples of length lo..hi, smallest first; sharded by the first two symbols"""
    for n in range(lo, hi + 1):
        if n == 0:
            if w == 0:
                yield ()
        elif n == 1:
            for a in range(K):
                if a % W == w:
                    yield (a,)
        else:
            p = 0
            for a in range(K):
                for b in range(K):
                    if p % W == w:
                        for rest in product(range(K), repeat=n - 2):
                            yield (a, b) + rest
                    p += 1


def _jobs(thorough: bool):
    """(part, kind, fragment indices, min length, max length)"""
    full = list(range(len(FRAGMENT_NAMES)))
    deep = [FRAGMENT_NAMES.index(n) for n in DEEP]
    if thorough:
        return [("lexer", "lex", full, 0, 5), ("public_route", "route", full, 0, 4), ("lexer_deep", "lex", deep, 6, 6)]
    return [("lexer", "lex", full, 0, 4), ("public_route", "route", full, 0, 3), ("lexer_deep", "lex", deep, 5, 5)]


def _job_size(job):
    K = len(job[2])
    return sum(K ** n for n in range(job[3], job[4] + 1))


def _worker(w, W, payload):
    A = payload["alphabet"]
    tag_name = payload["tag_name"]
    agg = par.Agg()
    best = {}  # (kind, clause, mode) -> (order, what, case)

    def note(kind, clause, text, src, seq, dotall):
        mode = "multiline" if dotall else "singleline"
        key = (kind, clause, mode)
        agg.extra["fail:%s:%s:%s" % key] += 1
        order = (len(seq), seq)
        if key not in best or order < best[key][0]:
            best[key] = (order, text, {"part": kind, "src": src, "dotall": dotall, "tag_name": tag_name, "clause": clause,
                                       "fragments": "+".join(FRAGMENT_NAMES[i] for i in seq)})

    bogus = "{% bogus %}"
    hangs = 0
    try:
        for part, kind, idxs, lo, hi in payload["jobs"]:
            pre = part + ":"
            for sq in _sequences(len(idxs), lo, hi, w, W):
                seq = tuple([idxs[i] for i in sq])
                src0 = "".join([A[i] for i in seq])
                agg.extra[pre + "states"] += 1
                for src in ((src0 + bogus, src0) if kind == "route" else (src0,)):
                    for dotall in ((True, False) if "\n" in src else (True,)):
                        set_mode(dotall)
                        if kind == "lex":
                            problem, info = lex_case(src, dotall)
                            agg.extra[pre + "transitions"] += 1
                            agg.extra[pre + "cls:" + info["cls"]] += 1
                            if info["ext"] >= 1 and dotall:
                                agg.extra[pre + "nontrivial"] += 1
                            if info["ext"] >= 2:
                                agg.extra[pre + "two_or_more_quoted_tags"] += 1
                            if not problem and info["cls"] == "kept-close":
                                agg.sample({"src": src, "multiline_tags": dotall, "tokens": [list(t) for t in info["obs"]][:6]}, limit=1)
                        else:
                            problem, info = route_case(src, dotall, tag_name)
                            agg.extra[pre + "transitions"] += 2
                            agg.extra[pre + "cls:" + info["cls"]] += 1
                            if info["cls"] not in ("agnostic", "ok") and not info["cls"].startswith("stock-raises-") and dotall:
                                agg.extra[pre + "nontrivial"] += 1
                        if info["obs"] is not None:
                            agg.observed.add((part, hash(repr(info["obs"])) & 0xFFFFFFFFFFFF))
                        if problem:
                            note(kind, problem[0], problem[1], src, seq, dotall)
                            if problem[0] in ("hang", "route-hang"):
                                hangs += 1
                if hangs >= MAX_HANGS:  # every further case may cost HANG_SECONDS: stop, the run is a violation anyway
                    agg.caps.append(f"worker {w} stopped after {hangs} hangs")
                    break
            if hangs >= MAX_HANGS:
                break
    finally:
        set_mode(True)
    for key, (order, text, case) in best.items():
        agg.failures.append(("%s:%s:%s" % key, text, dict(case, order=[order[0], list(order[1])])))
    return agg


def run(ctx):
    ev, fnd = ctx.ev, ctx.fnd
    thorough = ctx.tier == "thorough"
    A = alphabet(ctx.seed)
    tag_name = _NAMES[ctx.seed % len(_NAMES)][4]
    jobs = _jobs(thorough)
    for job in jobs:
        print(f"C09: {job[0]}: {len(job[2])} fragments, lengths {job[3]}..{job[4]}: {_job_size(job)} sources", flush=True)
    agg = par.run_sharded(_worker, {"alphabet": A, "jobs": jobs, "tag_name": tag_name})
    if agg.caps:
        if not agg.failures:
            raise par.HarnessError(f"workers stopped early without a failure: {agg.caps}")
        ev.caps_hit.extend(agg.caps)
    for job in jobs:
        if not agg.caps and agg.extra[job[0] + ":states"] != _job_size(job):
            raise par.HarnessError(f"enumeration incomplete for {job[0]}: {agg.extra[job[0] + ':states']}/{_job_size(job)} sources")
    # one report per (part, clause, mode): the smallest failing source, named by its fragments (seed independent)
    groups = {}
    for identity, text, case in agg.failures:
        order = (case["order"][0], tuple(case["order"][1]))
        if identity not in groups or order < groups[identity][0]:
            groups[identity] = (order, text, case)
    for identity, (order, text, case) in sorted(groups.items()):
        total = agg.extra["fail:" + identity]
        case = {k: v for k, v in case.items() if k != "order"}
        fnd.report(f"{identity}:{case['fragments']}",
                   f"{text}  [source {case['src']!r}, multiline_tags={case['dotall']}; {total} failing cases in this clause]", case)
    ev.rule = (
        "ENUM: every concatenation of <= L alphabet fragments is lexed by parse_template and compared with stock DebugLexer / "
        "the quote-aware reference lexer (part public_route: compiled by Template() and compared with Django's Parser on the "
        "reference tokens); non-trivial = sources in which at least one block tag contains a quote, i.e. the hand-over to "
        "_detailed_tag_parser and the resume logic really run (public_route: sources whose compile error carries a line number)"
    )
    for part, kind, idxs, lo, hi in jobs:
        pre = part + ":"
        expected = Counter({k[len(pre) + 4:]: v for k, v in agg.extra.items() if k.startswith(pre + "cls:")})
        bound = {"fragments": [FRAGMENT_NAMES[i] for i in idxs], "min_fragments": lo, "max_fragments": hi,
                 "modes": ["multiline_tags=True", "multiline_tags=False (only sources containing a newline; the others lex identically)"]}
        extra = None
        samples = None
        if kind == "lex":
            extra = {"runs_with_two_or_more_quoted_tags": agg.extra[pre + "two_or_more_quoted_tags"]}
            samples = agg.samples[:2] if part == "lexer" else None
        else:
            bound.update({"suffixes": ["{% bogus %}", ""], "engines": ["debug", "non-debug"],
                          "observed": "token stream handed to django.template.base.Parser + compile outcome"})
            samples = [{"src": A[7] + A[1] + A[8] + "{% bogus %}", "expect": "Invalid block tag on line 2: 'bogus'"}]
        ev.add_part(
            part, states=agg.extra[pre + "states"], transitions=agg.extra[pre + "transitions"], validated=agg.extra[pre + "transitions"],
            nontrivial=agg.extra[pre + "nontrivial"], observed_distinct=sum(1 for o in agg.observed if o[0] == part),
            expected=expected, bound=bound, samples=samples, extra=extra,
        )
    ev.assumptions = [
        "Django 5.1 DebugLexer as installed is the stock lexer; tag_re is swapped in-process between its re.DOTALL and plain forms exactly as apps.py does for COMPONENTS.multiline_tags",
        "backslash escapes inside quoted strings are honoured by the reference (Django smart_split convention)",
        "multiline_tags=False with a quote-aware rescan crossing a newline, and tags the reference finds unterminated, are checked for clauses 1-3 only",
        "states counts fragment sequences; the fragments are uniquely decodable, so these are distinct sources",
        "public_route: where Django's own Parser raises something other than TemplateSyntaxError on the reference stream (the verbatim tag "
        "rendering a non-text body at compile time when the lexer did not enter verbatim mode) Template(src) must raise the same class, "
        "message, token and template_debug (class stock-raises-<Exception>)",
    ]


def replay(ctx, case):
    dotall = case["dotall"]
    set_mode(dotall)
    try:
        if case["part"] == "lex":
            problem, info = lex_case(case["src"], dotall)
        else:
            problem, info = route_case(case["src"], dotall, case.get("tag_name", "a"))
    finally:
        set_mode(True)
    print("source:", repr(case["src"]), "multiline_tags =", dotall)
    print("observed:", info.get("obs"))
    print("problem:", problem)
    return problem is None
