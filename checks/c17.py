"""C17 - the static-files finder exposes exactly the allowed, non-forbidden files (ENUM engine).

One private directory tree holds the whole file-name product (stems with dots, upper case
and regex metacharacters x look-alike extensions, at depths 0-2), a second component
directory with overlapping relative names, two component directories of one generated app (two
`app_dirs` entries),
a sibling directory whose name has the component directory as a prefix and a file above
the root.  Every allowed/forbidden configuration of the tier (documented defaults, empty
list, every single entry and - per tier - every pair over an alphabet of suffix strings
and compiled patterns; new / deprecated / ComponentsSettings spelling; three ways of
configuring the directories) is installed live and the *real*
`ComponentsFileSystemFinder` is asked

  * `list([])`            - compared as a multiset with {file | exposed(file)},
  * `find(q)` for every file under every in-root spelling of its path (`p`, `./p`,
    `sub/../p`) and `find(p, all=True)` - compared with the first / all component
    directories in which the file exists and is exposed,
  * `find(q)` for every traversal spelling (`../p`, `../<root>/p`, absolute paths inside and
    outside, the sibling-prefix directory, the file above the root, directories, ``""``)
    - whatever comes back must lie inside a component directory, be the file the request
    path denotes and, when it is a regular file, be exposed (raising
    `SuspiciousFileOperation` counts as "does not resolve").

Part E repeats a few configurations end-to-end through `collectstatic` (dry run) and the
development-server view `django.contrib.staticfiles.views.serve`.

Reference predicate (from the statement):  exposed(f) <=> (some allowed suffix string is a
suffix of f's name  or  some allowed compiled pattern `search`es f's path)  and no
forbidden entry does.  The documented default lists are hard-coded here, so "with default
settings no Python or template file is exposed" is the same comparison.

Readings adopted / corners kept out of the verdict
  * compiled patterns are matched against the file's path *relative to its component
    directory* with `/` separators (what `list()` / collectstatic use and what a request
    path is); the statement requires one exposure predicate for find and list, and an
    absolute-path basis would depend on where the project is checked out.
  * a suffix string without a leading dot (`"js"`) is outside the documented domain
    ("including the leading dot"): the finder must not crash, and a file is judged only if
    the literal reading (`name.endswith("js")`) and the dotted reading (`".js"`) agree.
  * absolute / `..` request paths that happen to resolve back into a component directory
    may be answered or refused (containment + exposure are still asserted).
  * directories are never judged for exposure (stock Django finders return them too; the
    serve view refuses them) - only for containment.
  * not generated: control characters / newlines in names, symlinks, suffix strings that
    contain `/`, both the new and the deprecated forbidden setting at once, `list()` with
    non-empty ignore patterns (stock Django code).
  * which of two component directories wins for the same relative name is taken from the
    finder's own `locations` order (the statement does not fix it).
"""
from __future__ import annotations

import itertools
import os
import re
import shutil
import sys
import tempfile

from mc import par

PID = "C17"
LEVEL = "model_checking"
DJANGO = {}

# --------------------------------------------------------------------------- documented defaults
DEFAULT_ALLOWED = [
    ".css", ".js", ".jsx", ".ts", ".tsx",
    ".apng", ".png", ".avif", ".gif", ".jpg", ".jpeg", ".jfif", ".pjpeg", ".pjp", ".svg",
    ".webp", ".bmp", ".ico", ".cur", ".tif", ".tiff",
    ".eot", ".ttf", ".woff", ".otf", ".svg",
]
DEFAULT_FORBIDDEN = [".html", ".django", ".dj", ".tpl", ".py", ".pyc"]
BACKEND_SUFFIXES = (".py", ".pyc", ".html", ".django", ".dj", ".tpl")

# --------------------------------------------------------------------------- the tree
STEMS = ["a", "a.b", "A", "we(ird", "x+y", ".h"]
EXTS = [
    ".js", ".JS", ".jsx", ".mjs", "js", ".py", ".pyc", ".pyx", ".html", ".htm", ".django", ".dj", ".tpl",
    ".py.js", ".js.py", ".tar.gz", ".tarXgz", ".gz", ".c", ".cc", ".c++", ".css", ".min.js", ".minXjs",
    ".d.ts", ".dxts", ".ts", ".png", "",
]
DEPTH_DIRS = ["", "sub", "sub/deep"]
ROOT2_FILES = ["a.js", "a.py", "only2.js", "only2.py", "only2.tarXgz", "sub/a.js", "sub/only2.css", "sub/deep/a.html", "we(ird.c"]
APP_FILES = ["a.js", "app.js", "app.py", "sub/app.css", "sub/app.html", "sub/deep/app.min.js", "sub/deep/app.c"]
APP2_FILES = ["a.js", "app2.css", "app2.py", "sub/app2.js"]  # a second component directory of the SAME app (two app_dirs entries)
ROOT_MARK = "c17root"  # part of the temp dir name: a pattern that only an absolute path can match


def build_tree():
    top = tempfile.mkdtemp(prefix=ROOT_MARK + "-")
    proj = os.path.join(top, "proj")
    root1 = os.path.join(proj, "components")
    root2 = os.path.join(proj, "more")
    appdir = os.path.join(top, "apps", "c17app")
    approot = os.path.join(appdir, "c17comps")
    approot2 = os.path.join(appdir, "c17more")
    files = {"r1": [], "r2": [], "app": [], "app2": []}

    def put(root, label, rel):
        p = os.path.join(root, rel)
        os.makedirs(os.path.dirname(p), exist_ok=True)
        with open(p, "w") as f:
            f.write(f"{label}:{rel}")
        if label in files:
            files[label].append(rel)

    for d in DEPTH_DIRS:
        for s in STEMS:
            for e in EXTS:
                name = s + e
                put(root1, "r1", d + "/" + name if d else name)
    for rel in ROOT2_FILES:
        put(root2, "r2", rel)
    os.makedirs(appdir, exist_ok=True)
    with open(os.path.join(appdir, "__init__.py"), "w"):
        pass
    for rel in APP_FILES:
        put(approot, "app", rel)
    for rel in APP2_FILES:
        put(approot2, "app2", rel)
    put(os.path.join(proj, "components_evil"), "evil", "e.js")
    put(proj, "above", "above.js")
    put(proj, "above", "a.js")
    for k in files:
        files[k].sort()
    return {"top": top, "proj": proj, "roots": {"r1": root1, "r2": root2, "app": approot, "app2": approot2},
            "apps_path": os.path.join(top, "apps"), "files": files}


# --------------------------------------------------------------------------- configurations
# entry = ("s", suffix) | ("re", pattern)
STR_ENTRIES = [("s", x) for x in [".js", ".JS", ".py", ".html", ".tar.gz", ".c++", ".c", ".min.js", ".d.ts", ".gz", "js"]]
RE_ENTRIES = [("re", x) for x in [r"\.js$", r"(?i)\.js$", r"^sub/", r"/deep/", r"^[^/]*$", ROOT_MARK, r".*", r"we\(ird"]]
# entries that EQUAL another entry in their source text but not in meaning: a compiled pattern whose text is the suffix string
# ".js" (matches `ajs`, `.JS` no), and the pattern r"\.js$" compiled with re.IGNORECASE (kind "rei")
RE_ENTRIES += [("re", ".js"), ("rei", r"\.js$")]
ENTRIES = STR_ENTRIES + RE_ENTRIES
PAIR_ENTRIES_QUICK = [("s", ".js"), ("s", ".py"), ("s", ".tar.gz"), ("re", r"^sub/"), ("re", r"(?i)\.js$")]
PAIR_ENTRIES_THOROUGH = [("s", ".js"), ("s", ".JS"), ("s", ".py"), ("s", ".tar.gz"), ("s", ".c++"), ("s", ".min.js"),
                         ("re", r"^sub/"), ("re", r"(?i)\.js$"), ("re", ROOT_MARK), ("re", r".*")]
LAYOUTS = ["multi", "single", "legacy", "both", "empty"]
FORMS = ["new", "deprecated", "settings_object"]
_RX = {}


def rx(p, flags=0):
    if (p, flags) not in _RX:
        _RX[(p, flags)] = re.compile(p, flags)
    return _RX[(p, flags)]


def lists_for(tier):
    """Ordered list of candidate values for allowed / forbidden (None = use the default)."""
    out = [None, []]
    out += [[e] for e in ENTRIES]
    pairs = PAIR_ENTRIES_THOROUGH if tier == "thorough" else PAIR_ENTRIES_QUICK
    for a, b in itertools.combinations(pairs, 2):
        out.append([a, b])
    return out


def configs(tier):
    """Deterministic stream of (layout, form, allowed, forbidden), smallest configurations first."""
    ls = lists_for(tier)
    small = [None, [("s", ".js")], [("re", r".*")], [("re", r"^sub/")]]
    out = []
    for allowed in ls:
        for forbidden in ls:
            out.append(("multi", "new", allowed, forbidden))
    # the other spellings / directory layouts: every forbidden value x a few allowed values and vice versa
    singles = [None, []] + [[e] for e in ENTRIES]
    for layout, form in [("multi", "deprecated"), ("multi", "settings_object"), ("single", "new"), ("legacy", "new"),
                         ("single", "deprecated"), ("legacy", "settings_object"),
                         # COMPONENTS.dirs given (one directory / the empty list) next to a non-empty STATICFILES_DIRS: the legacy
                         # fallback applies only when `dirs` is NOT SET, in every spelling of the COMPONENTS setting
                         ("both", "new"), ("both", "settings_object"), ("empty", "new"), ("empty", "settings_object"), ("empty", "deprecated")]:
        seen = set()
        for allowed in small:
            for forbidden in singles:
                k = (repr(allowed), repr(forbidden))
                if k not in seen:
                    seen.add(k)
                    out.append((layout, form, allowed, forbidden))
        for forbidden in small:
            for allowed in singles:
                k = (repr(allowed), repr(forbidden))
                if k not in seen:
                    seen.add(k)
                    out.append((layout, form, allowed, forbidden))
    out.sort(key=lambda c: (len(c[2] or []) + len(c[3] or []), LAYOUTS.index(c[0]), FORMS.index(c[1])))  # stable
    return out


def real_entries(lst):
    if lst is None:
        return None
    return [e[1] if e[0] == "s" else rx(e[1], re.I if e[0] == "rei" else 0) for e in lst]


def entry_repr(e):
    return ("%r" % e[1]) if e[0] == "s" else ("re(%r%s)" % (e[1], ", re.I" if e[0] == "rei" else ""))


def list_repr(lst):
    return "default" if lst is None else "[" + ",".join(entry_repr(e) for e in lst) + "]"


# --------------------------------------------------------------------------- reference predicate
def _match(e, rel, dotted):
    if e[0] == "s":
        s = e[1]
        if dotted and not s.startswith("."):
            s = "." + s
        return rel.rsplit("/", 1)[-1].endswith(s)
    return rx(e[1], re.I if e[0] == "rei" else 0).search(rel) is not None


def verdicts(allowed, forbidden, rel):
    """Set of admissible answers to "is `rel` exposed?" (two elements only for dot-less suffixes)."""
    a = [("s", x) for x in DEFAULT_ALLOWED] if allowed is None else allowed
    f = [("s", x) for x in DEFAULT_FORBIDDEN] if forbidden is None else forbidden
    out = set()
    for dotted in (False, True):
        out.add(any(_match(e, rel, dotted) for e in a) and not any(_match(e, rel, dotted) for e in f))
    return out


# --------------------------------------------------------------------------- driving the implementation
class Env:
    """Installs one directory layout (override_settings) and lets configurations be switched live."""

    def __init__(self, tree, layout):
        from django.test import override_settings

        self.tree = tree
        self.layout = layout
        roots = tree["roots"]
        kw = {"BASE_DIR": tree["proj"]}
        if layout == "multi":
            self.labels = ["r1", "r2", "app", "app2"]
            self.base = {"dirs": [roots["r1"], roots["r2"]], "app_dirs": ["c17comps", "c17more"]}
            kw["INSTALLED_APPS"] = ["django_components", "c17app"]
        elif layout == "single":
            self.labels = ["r1"]
            self.base = {"dirs": [roots["r1"]], "app_dirs": []}
        elif layout == "legacy":
            self.labels = ["r1", "r2"]
            self.base = {"app_dirs": []}
            kw["STATICFILES_DIRS"] = [roots["r1"], ("pfx", roots["r2"])]
        elif layout == "both":
            self.labels = ["r1"]
            self.base = {"dirs": [roots["r1"]], "app_dirs": []}
            kw["STATICFILES_DIRS"] = [("pfx", roots["r2"])]
        elif layout == "empty":
            self.labels = []
            self.base = {"dirs": [], "app_dirs": []}
            kw["STATICFILES_DIRS"] = [roots["r1"], ("pfx", roots["r2"])]
        else:
            raise ValueError(layout)
        self.base["autodiscover"] = False
        self.ov = override_settings(**kw)

    def __enter__(self):
        from django.conf import settings

        if self.tree["apps_path"] not in sys.path:
            sys.path.insert(0, self.tree["apps_path"])
        self._saved = settings.COMPONENTS
        self.ov.enable()
        return self

    def __exit__(self, *a):
        from django.conf import settings

        self.ov.disable()
        settings.COMPONENTS = self._saved
        if self.tree["apps_path"] in sys.path:
            sys.path.remove(self.tree["apps_path"])
        sys.modules.pop("c17app", None)

    def install(self, form, allowed, forbidden):
        from django.conf import settings

        from django_components.app_settings import ComponentsSettings

        d = dict(self.base)
        if allowed is not None:
            d["static_files_allowed"] = real_entries(allowed)
        if forbidden is not None:
            d["forbidden_static_files" if form == "deprecated" else "static_files_forbidden"] = real_entries(forbidden)
        settings.COMPONENTS = ComponentsSettings(**d) if form == "settings_object" else d

    def finder(self):
        from django_components.finders import ComponentsFileSystemFinder

        f = ComponentsFileSystemFinder()
        by_root = {os.path.realpath(r): lab for lab, r in self.tree["roots"].items()}
        order, foreign = [], []
        for _prefix, root in f.locations:
            lab = by_root.get(os.path.realpath(root))
            if lab is None or lab not in self.labels:
                foreign.append(root)
            elif lab not in order:
                order.append(lab)
        # a configured directory the finder does not know is judged like any other (its files come out as under-exposed)
        order += [lab for lab in self.labels if lab not in order]
        self.foreign_locations = foreign
        return f, order


def in_root_forms(rel):
    return [rel, "./" + rel, "sub/../" + rel]


def traversal_queries(tree, labels):
    """(query, note) pairs whose target may lie outside; judged by the containment oracle only."""
    roots = tree["roots"]
    qs = []
    probe = {"r1": ["a.js", "a.py", "sub/a.js", "sub/deep/we(ird.tar.gz", "x+y.c++"], "r2": ROOT2_FILES[:4], "app": APP_FILES[:3], "app2": APP2_FILES[:3]}
    for lab in labels:
        base = os.path.basename(roots[lab])
        for rel in probe[lab]:
            qs.append("../" + rel)
            qs.append("../" + base + "/" + rel)
            qs.append(os.path.join(roots[lab], rel))
            qs.append("/" + rel)
            qs.append("sub/../../" + base + "/" + rel)
    qs += [
        "../components_evil/e.js", "../above.js", "sub/../../above.js", "../../proj/above.js", "../a.js",
        os.path.join(tree["proj"], "above.js"), os.path.join(tree["proj"], "components_evil", "e.js"),
        os.path.join(tree["proj"], "components") + "_evil/e.js", "/etc/passwd", "../../../../../../../../etc/passwd",
        "..", "../", "", ".", "sub", "sub/", "sub/deep", "sub/deep/..", "a.js/", "a.js/.", "a.js/../a.py", "nonexistent.js",
        "sub/nonexistent/../a.js", "../more/a.js", "../more/only2.py", "../components/a.py",
    ]
    seen, out = set(), []
    for q in qs:
        if q not in seen:
            seen.add(q)
            out.append(q)
    return out


class ConfigResult:
    def __init__(self):
        self.problems = []  # (op, clause, what, detail)
        self.calls = 0
        self.judged = 0
        self.agnostic = 0
        self.nontrivial = False
        self.observed = []
        self.expected = {}


def _nice(rel):
    """Enumeration order of files: shallow first, plain stems first (so that reported examples read well)."""
    name = rel.rsplit("/", 1)[-1]
    return (rel.count("/"), not name.startswith("a"), rel)


def _inside(path, root):
    rp, rr = os.path.realpath(path), os.path.realpath(root)
    return rp == rr or rp.startswith(rr + os.sep)


def run_config(env, form, allowed, forbidden, only=None):
    """Run every query of one configuration. `only` = (op, query) restricts to one (shrinker)."""
    from django.core.exceptions import SuspiciousFileOperation

    tree = env.tree
    roots = tree["roots"]
    res = ConfigResult()
    env.install(form, allowed, forbidden)
    finder, order = env.finder()
    for loc in env.foreign_locations:
        res.problems.append(("locations", "foreign", f"the finder serves {loc}, which is not a configured component directory", ""))
    V = {lab: {rel: verdicts(allowed, forbidden, rel) for rel in sorted(tree["files"][lab], key=_nice)} for lab in order}
    n_exposed = sum(1 for lab in order for v in V[lab].values() if v == {True})
    n_hidden = sum(1 for lab in order for v in V[lab].values() if v == {False})
    res.nontrivial = n_exposed > 0 and n_hidden > 0
    res.expected = {"exposed": n_exposed, "hidden": n_hidden,
                    "agnostic": sum(1 for lab in order for v in V[lab].values() if len(v) == 2)}

    def crash(op, q, e):
        import traceback

        tb = traceback.extract_tb(e.__traceback__)
        site = next((f"{os.path.basename(fr.filename)}:{fr.name}" for fr in reversed(tb) if "django_components" in fr.filename), "?")
        res.problems.append((op, f"crash:{type(e).__name__}@{site}", f"{op}({q!r}) raised {type(e).__name__}: {e}", q))

    # ---- list
    if only is None or only[0] == "list":
        try:
            res.calls += 1
            listed = [(os.path.realpath(st.location), p.replace(os.sep, "/")) for p, st in finder.list([])]
        except Exception as e:  # noqa
            crash("list", "", e)
            return res
        got = {}
        for loc, p in listed:
            got[(loc, p)] = got.get((loc, p), 0) + 1
        for lab in order:
            loc = os.path.realpath(roots[lab])
            for rel, v in V[lab].items():
                n = got.pop((loc, rel), 0)
                if only is not None and only[1] != rel:
                    continue
                res.judged += 1
                if len(v) == 2:
                    res.agnostic += 1
                if n > 1:
                    res.problems.append(("list", "duplicate", f"list() yields {rel} of {lab} {n} times", rel))
                elif (n == 1) not in v:
                    clause = "over-exposed" if n else "under-exposed"
                    res.problems.append(("list", clause, f"list() {'yields' if n else 'omits'} {lab}:{rel}, reference says exposed={sorted(v)}", rel))
                res.observed.append(("list", rel, n))
        if only is None:
            for (loc, p), n in got.items():
                res.problems.append(("list", "foreign", f"list() yields {p} under {loc}, which is not a generated file", p))

    # ---- find, in-root spellings (complete oracle)
    def acceptable_first(rel, r):
        have = [lab for lab in order if rel in V[lab]]
        if not r:
            return all(False in V[lab][rel] for lab in have)
        for lab in have:
            if os.path.realpath(r) == os.path.realpath(os.path.join(roots[lab], rel)):
                return True in V[lab][rel]
            if False not in V[lab][rel]:
                return False
        return False

    def acceptable_all(rel, rs):
        if not isinstance(rs, list):
            return False
        have = [lab for lab in order if rel in V[lab]]
        want_min = [os.path.realpath(os.path.join(roots[lab], rel)) for lab in have if V[lab][rel] == {True}]
        want_max = [os.path.realpath(os.path.join(roots[lab], rel)) for lab in have if True in V[lab][rel]]
        got_ = [os.path.realpath(x) for x in rs]
        it = iter(want_max)
        in_order = all(any(x == y for y in it) for x in got_)  # subsequence of want_max
        return in_order and all(x in got_ for x in want_min) and len(set(got_)) == len(got_)

    if only is None or only[0] in ("find", "find_all"):
        rels = sorted({rel for lab in order for rel in V[lab]}, key=_nice)
        for rel in rels:
            for q in in_root_forms(rel):
                if only is not None and only[1] != q:
                    continue
                for op in ("find", "find_all"):
                    if only is not None and only[0] != op:
                        continue
                    if op == "find_all" and q != rel and only is None:
                        continue  # all=True is exercised on the plain spelling only
                    try:
                        res.calls += 1
                        r = finder.find(q, all=True) if op == "find_all" else finder.find(q)
                    except Exception as e:  # noqa
                        crash(op, q, e)
                        if isinstance(e, re.error):
                            return res
                        continue
                    res.judged += 1
                    ok = acceptable_all(rel, r) if op == "find_all" else acceptable_first(rel, r)
                    if not ok:
                        exp = {lab: sorted(V[lab][rel]) for lab in order if rel in V[lab]}
                        found = bool(r)
                        clause = "over-exposed" if found else "under-exposed"
                        shown = [os.path.relpath(x, tree["top"]) for x in (r if isinstance(r, list) else [r])] if r else r
                        res.problems.append((op, clause, f"{op}({q!r}) returned {shown!r}; reference exposure per directory {exp} (order {order})", q))
                    res.observed.append((op, q, bool(r)))

    # ---- find, traversal spellings (containment oracle)
    if only is None or only[0] == "traverse":
        for q in traversal_queries(tree, order):
            if only is not None and only[1] != q:
                continue
            try:
                res.calls += 1
                r = finder.find(q)
            except SuspiciousFileOperation:
                res.judged += 1
                res.observed.append(("traverse", q, "refused"))
                continue
            except Exception as e:  # noqa
                crash("traverse", q, e)
                if isinstance(e, re.error):
                    return res
                continue
            res.judged += 1
            res.observed.append(("traverse", q, bool(r)))
            if not r:
                continue
            ok_root = None
            for lab in order:
                if _inside(r, roots[lab]) and os.path.realpath(r) == os.path.realpath(os.path.normpath(os.path.join(roots[lab], q))):
                    ok_root = lab
                    break
            shown = os.path.relpath(r, tree["top"])
            if ok_root is None:
                res.problems.append(("traverse", "escape", f"find({q!r}) returned {shown!r}, which is outside every component directory or not the requested file", q))
            elif os.path.isfile(r):
                rel = os.path.relpath(os.path.realpath(r), os.path.realpath(roots[ok_root])).replace(os.sep, "/")
                if True not in verdicts(allowed, forbidden, rel):
                    res.problems.append(("traverse", "over-exposed", f"find({q!r}) returned {shown!r}, which the reference does not expose", q))
    return res


def shrink(env, form, allowed, forbidden, op, clause, q):
    """Smallest sub-configuration on which the same query still fails the same clause."""
    cands = []
    for e in (allowed or []):
        cands.append(([e], [], "allowed=" + entry_repr(e)))
    for e in (forbidden or []):
        cands.append(([("re", r".*")], [e], "forbidden=" + entry_repr(e)))
    if allowed is None:
        cands.append((None, [], "allowed=default"))
    if forbidden is None:
        cands.append(([("re", r".*")], None, "forbidden=default"))
    kind = "traverse" if op == "traverse" else op
    for a, f, name in cands:
        r = run_config(env, "new", a, f, only=(kind, q))
        if any(p[0] == op and p[1].split("@")[0] == clause.split("@")[0] for p in r.problems):
            return name, a, f
    return f"allowed={list_repr(allowed)};forbidden={list_repr(forbidden)}", allowed, forbidden


def _worker(w, W, payload):
    tree, tier = payload["tree"], payload["tier"]
    agg = par.Agg()
    seen_ids = set()
    cfgs = configs(tier)
    for layout in LAYOUTS:
        mine = [(i, c) for i, c in enumerate(cfgs) if c[0] == layout and i % W == w]
        if not mine:
            continue
        with Env(tree, layout) as env:
            for i, (_, form, allowed, forbidden) in mine:
                res = run_config(env, form, allowed, forbidden)
                agg.states += res.judged
                agg.transitions += res.calls
                agg.validated += res.judged - res.agnostic
                agg.extra["configs"] += 1
                agg.extra["agnostic_decisions"] += res.agnostic
                if res.nontrivial:
                    agg.nontrivial += 1
                agg.expected.update(res.expected)
                agg.observe(tuple(res.observed))
                if res.nontrivial and layout == "multi":
                    agg.sample({"layout": layout, "form": form, "allowed": list_repr(allowed), "forbidden": list_repr(forbidden), **res.expected}, limit=1)
                done = set()
                for op, clause, what, q in res.problems:
                    if (op, clause) in done:
                        continue
                    done.add((op, clause))
                    n = sum(1 for p in res.problems if p[0] == op and p[1] == clause)
                    if op == "locations":
                        culprit, a2, f2 = layout, allowed, forbidden
                    else:
                        culprit, a2, f2 = shrink(env, form, allowed, forbidden, op, clause, q)
                    ident = f"{op}:{clause}:{culprit}"
                    agg.extra["failing_queries"] += n
                    if ident in seen_ids:  # keep the first (smallest) configuration per identity and worker
                        continue
                    seen_ids.add(ident)
                    agg.fail(
                        ident,
                        f"[{layout}/{form}] allowed={list_repr(allowed)} forbidden={list_repr(forbidden)}: {what} ({n} such queries in this configuration)",
                        {"part": "finder", "layout": layout, "form": form, "allowed": allowed, "forbidden": forbidden, "op": op, "query": q,
                         "minimal": {"allowed": a2, "forbidden": f2}},
                    )
    return agg


# --------------------------------------------------------------------------- part E: collectstatic + serve
E2E_CONFIGS = [
    (None, None),
    ([("s", ".tar.gz"), ("s", ".py.js")], [("s", ".c++")]),
    ([("re", r".*")], [("s", ".min.js"), ("re", r"^sub/")]),
    ([("s", ".c++"), ("re", r"/deep/")], [("re", ROOT_MARK)]),
    ([("re", r"^sub/"), ("s", ".d.ts")], None),
    ([("s", ".py"), ("s", ".html")], []),
]


def _e2e_task(arg):
    tree, idx = arg
    allowed, forbidden = E2E_CONFIGS[idx]
    from django.contrib.staticfiles import finders as sf_finders
    from django.contrib.staticfiles.management.commands.collectstatic import Command
    from django.contrib.staticfiles.views import serve
    from django.http import Http404
    from django.test import RequestFactory, override_settings

    problems = []
    calls = judged = 0
    obs = set()
    static_root = os.path.join(tree["top"], f"static_root_{idx}")
    os.makedirs(static_root, exist_ok=True)
    with Env(tree, "multi") as env:
        env.install("new", allowed, forbidden)
        with override_settings(
            INSTALLED_APPS=["django_components", "django.contrib.staticfiles", "c17app"],
            STATICFILES_FINDERS=["django_components.finders.ComponentsFileSystemFinder"],
            STATIC_ROOT=static_root, STATIC_URL="static/", DEBUG=True,
        ):
            env.install("new", allowed, forbidden)
            sf_finders.get_finder.cache_clear()
            try:
                _f, order = env.finder()
                V = {lab: {rel: verdicts(allowed, forbidden, rel) for rel in tree["files"][lab]} for lab in order}
                rels = sorted({rel for lab in order for rel in V[lab]})
                # collectstatic (dry run)
                cmd = Command()
                cmd.set_options(interactive=False, verbosity=0, link=False, clear=False, dry_run=True,
                                ignore_patterns=[], use_default_ignore_patterns=False, post_process=False)
                calls += 1
                try:
                    collected = cmd.collect()["modified"]
                    got = sorted(p.replace(os.sep, "/") for p in collected)
                    want = sorted(rel for rel in rels if any(V[lab].get(rel) == {True} for lab in order))
                    judged += len(rels)
                    if got != want:
                        extra = sorted(set(got) - set(want))[:5]
                        missing = sorted(set(want) - set(got))[:5]
                        dup = len(got) != len(set(got))
                        problems.append(("collectstatic", "over-exposed" if extra else ("under-exposed" if missing else "duplicate"),
                                         f"collectstatic collects {len(got)} files, reference {len(want)}; extra {extra} missing {missing} duplicates {dup}"))
                    obs.add(("collect", len(got)))
                except Exception as e:  # noqa
                    problems.append(("collectstatic", f"crash:{type(e).__name__}", f"collectstatic raised {type(e).__name__}: {e}"))
                # development server view
                rf = RequestFactory()
                for rel in rels:
                    calls += 1
                    try:
                        resp = serve(rf.get("/static/" + rel), rel, insecure=True)
                        body = b"".join(resp.streaming_content).decode()
                        resp.close()
                        status = resp.status_code
                    except Http404:
                        status, body = 404, None
                    except Exception as e:  # noqa
                        problems.append(("serve", f"crash:{type(e).__name__}", f"serve({rel!r}) raised {type(e).__name__}: {e}"))
                        if isinstance(e, re.error):
                            break
                        continue
                    judged += 1
                    obs.add((rel, status))
                    ok_bodies = [f"{lab}:{rel}" for lab in order if rel in V[lab] and True in V[lab][rel]]
                    may_404 = all(False in V[lab][rel] for lab in order if rel in V[lab])
                    if status == 404:
                        if not may_404:
                            problems.append(("serve", "under-exposed", f"GET static/{rel} -> 404 although the reference exposes it"))
                    elif status != 200 or body not in ok_bodies:
                        problems.append(("serve", "over-exposed", f"GET static/{rel} -> {status} {body!r}; reference allows bodies {ok_bodies}"))
                for q in ["../above.js", "../components_evil/e.js", "/etc/passwd", "sub/../../above.js", "%2e%2e/above.js"]:
                    calls += 1
                    try:
                        resp = serve(rf.get("/static/x"), q, insecure=True)
                        body = b"".join(resp.streaming_content).decode()
                        resp.close()
                        problems.append(("serve", "escape", f"GET static/{q} -> {resp.status_code} {body!r}"))
                    except Exception:  # noqa  (404 / SuspiciousFileOperation are both refusals)
                        pass
                    judged += 1
            finally:
                sf_finders.get_finder.cache_clear()
    shutil.rmtree(static_root, ignore_errors=True)
    return idx, calls, judged, problems, len(obs)


# --------------------------------------------------------------------------- entry points
def run(ctx):
    ev, fnd = ctx.ev, ctx.fnd
    tree = build_tree()
    try:
        cfgs = configs(ctx.tier)
        nfiles = sum(len(v) for v in tree["files"].values())
        print(f"C17: {len(cfgs)} configurations x ({nfiles} files, find under 3 in-root spellings + find_all + list; + traversal queries)", flush=True)
        ev.rule = (
            "ENUM: a case is one (directory layout, setting spelling, allowed list, forbidden list, finder query) executed on the real "
            "ComponentsFileSystemFinder over one tree holding the whole file-name product; non-trivial = configurations under which the "
            "reference exposes at least one file and hides at least one"
        )
        # determinism self-test (DESIGN 1.3): the same configurations twice in this process give the same observations
        with Env(tree, "multi") as env:
            for a, f in ((None, None), ([("re", r"^sub/")], [("s", ".min.js")])):
                o1 = run_config(env, "new", a, f).observed
                o2 = run_config(env, "new", a, f).observed
                if o1 != o2 or not o1:
                    raise par.HarnessError("finder observations are not reproducible within one process")
        agg = par.run_sharded(_worker, {"tree": tree, "tier": ctx.tier})
        fnd.merge_reports(sorted(agg.failures, key=lambda f: (len(repr(f[2]["allowed"])) + len(repr(f[2]["forbidden"])), LAYOUTS.index(f[2]["layout"]),
                                                              FORMS.index(f[2]["form"]), repr(f[2]))))
        ev.add_part(
            "finder_find_list", states=agg.states, transitions=agg.transitions, validated=agg.validated, nontrivial=agg.nontrivial,
            observed_distinct=len(agg.observed), expected=agg.expected,
            bound={"configurations": len(cfgs), "configs_run": agg.extra["configs"], "files": nfiles, "stems": STEMS, "extensions": EXTS,
                   "depths": DEPTH_DIRS, "entries": [entry_repr(e) for e in ENTRIES],
                   "pairs_over": [entry_repr(e) for e in (PAIR_ENTRIES_THOROUGH if ctx.tier == "thorough" else PAIR_ENTRIES_QUICK)],
                   "layouts": LAYOUTS, "forms": FORMS},
            samples=agg.samples[:3], extra={"agnostic_decisions": agg.extra["agnostic_decisions"]},
        )
        if agg.extra["configs"] != len(cfgs):
            raise par.HarnessError(f"{agg.extra['configs']} configurations run, {len(cfgs)} generated")
        if agg.failures_dropped:
            ev.caps_hit.append(f"{agg.failures_dropped} failure reports dropped")
        e2e = par.run_tasks(_e2e_task, [(tree, i) for i in range(len(E2E_CONFIGS))])
        tot_calls = tot_judged = tot_obs = 0
        for idx, calls, judged, problems, nobs in e2e:
            tot_calls += calls
            tot_judged += judged
            tot_obs += nobs
            a, f = E2E_CONFIGS[idx]
            seen = set()
            for op, clause, what in problems:
                if (op, clause) in seen:
                    continue
                seen.add((op, clause))
                fnd.report(f"e2e:{op}:{clause}:allowed={list_repr(a)};forbidden={list_repr(f)}",
                           f"allowed={list_repr(a)} forbidden={list_repr(f)}: {what}",
                           {"part": "e2e", "index": idx, "allowed": a, "forbidden": f, "layout": "multi", "via": op,
                            "note": "end-to-end repetition of a finder-level configuration; see the finder:* identities for minimal inputs"})
        ev.add_part("collectstatic_and_serve", states=tot_judged, transitions=tot_calls, validated=tot_judged,
                    nontrivial=len(E2E_CONFIGS), observed_distinct=tot_obs, bound={"configurations": len(E2E_CONFIGS)},
                    samples=[{"allowed": list_repr(a), "forbidden": list_repr(f)} for a, f in E2E_CONFIGS[1:2]])
        ev.assumptions = [
            "POSIX file system, no symlinks, no control characters in names",
            "compiled patterns are judged against the path relative to the component directory",
            "dot-less suffix strings: only 'no crash' and the files on which the literal and the dotted reading agree",
            "Django 5.1 staticfiles (find(path, all=...))",
        ]
    finally:
        shutil.rmtree(tree["top"], ignore_errors=True)


def replay(ctx, case):
    tree = build_tree()
    try:
        if case.get("part") == "e2e":
            idx, calls, judged, problems, nobs = _e2e_task((tree, case["index"]))
            for p in problems:
                print(p)
            return not problems

        def tup(lst):
            return None if lst is None else [tuple(e) for e in lst]

        ok = True
        with Env(tree, case["layout"]) as env:
            for label, a, f, form in (("as found", tup(case["allowed"]), tup(case["forbidden"]), case["form"]),
                                      ("minimal", tup(case["minimal"]["allowed"]), tup(case["minimal"]["forbidden"]), "new")):
                res = run_config(env, form, a, f)
                print(f"{label}: allowed={list_repr(a)} forbidden={list_repr(f)}: {len(res.problems)} failing queries of {res.judged}")
                for p in res.problems[:10]:
                    print("   ", p[0], p[1], p[2])
                if res.problems:
                    ok = False
        return ok
    finally:
        shutil.rmtree(tree["top"], ignore_errors=True)
