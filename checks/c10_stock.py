"""Unpatched twin of C10(a): enumerates the same stock families in a process that never imports
django_components and writes one observation hash per family.

usage: /venv/bin/python checks/c10_stock.py <N> <outdir> <W>        (sharded run)
       /venv/bin/python checks/c10_stock.py --one <json family>     (prints the full observation)
"""
import hashlib
import json
import multiprocessing as mp
import os
import sys

sys.path.insert(0, os.path.dirname(os.path.dirname(os.path.abspath(__file__))))


def setup():
    import django
    from django.conf import settings

    settings.configure(INSTALLED_APPS=(), TEMPLATES=[], SECRET_KEY="x", USE_TZ=True)
    django.setup()
    assert "django_components" not in sys.modules


def lexer_fn(src):
    from django.template.base import DebugLexer

    return DebugLexer(src).tokenize()


def digest(obs):
    return hashlib.sha1(json.dumps(obs, sort_keys=True, default=str).encode()).hexdigest()


def shard(args):
    N, outdir, w, W = args
    from mc.stockgen import StockGen, make_engines, observe_family

    engines = make_engines()
    gen = StockGen()
    with open(os.path.join(outdir, f"shard_{w}.txt"), "w") as f:
        for i, (kind, fam) in enumerate(gen.families(N)):
            if i % W != w:
                continue
            f.write(f"{i} {digest(observe_family(fam, engines, lexer_fn))}\n")
    return True


def main():
    setup()
    if sys.argv[1] == "--one":
        from mc.stockgen import make_engines, observe_family

        fam = json.loads(sys.argv[2])
        print(json.dumps(observe_family(fam, make_engines(), lexer_fn), sort_keys=True, default=str))
        return
    N, outdir, W = int(sys.argv[1]), sys.argv[2], int(sys.argv[3])
    with mp.get_context("fork").Pool(W) as pool:
        pool.map(shard, [(N, outdir, w, W) for w in range(W)])
    assert "django_components" not in sys.modules
    print("stock done")


if __name__ == "__main__":
    main()
