"""C10 part (c) - stock templates behave the same before and after component renders (SEQ, shared Template objects).

Django's default configuration wraps the template loaders in `cached.Loader`: one Template object per name is
shared by every `get_template()` / `{% include %}` / `{% extends %}` of the process - and by every component whose
`get_template_name()` names that file.  Parts (a) and (b) compile fresh templates per case; here the default engine is
switched to `cached.Loader(locmem)` and *histories* are explored:

  templates   row.html in 3 variants (`{% cycle 'a' 'b' %}` - render-context state -, `<{{ v }}>`, an include of a
              leaf with a cycle), base.html with a block, leaf.html
  ops         S1  stock page: loop x3 around `{% include 'row.html' %}`
              S2  stock page: extends base, two includes of row.html inside the block
              K1  plain page with two `{% component 'rowc' / %}` (RowC.get_template_name() == 'row.html')
              K2  the same two tags inside the block of a page that extends base.html
              K3  RowC.render() from Python
  histories   every sequence of <= 3 ops (quick) / <= 4 (thorough) x row variant x context_behavior, each started
              from a fresh loader cache
  oracle      every op's output (render markers stripped) equals the output the same op gives when it is the FIRST
              operation after a fresh start - differential "from the initial state vs from elsewhere"; the stock ops'
              solo outputs are additionally compared with a loader that never saw django_components' component ops.
"""
from __future__ import annotations

import itertools

from mc import boot, par
from mc.prog import strip_markers

ROWS = {
    "cycle": "{% cycle 'a' 'b' %}",
    "var": "<{{ v }}>",
    "include_leaf": "({% include 'c10c_leaf.html' %})",
    # the template extends a base AND includes itself once (the comment-thread idiom): the inner include is a stock render of the
    # very Template object the component is being rendered with
    "recursive_extends": "{% extends 'c10c_rbase.html' %}{% block rb %}<{{ v }}{% if not inner %}{% with inner=1 %}{% include 'c10c_row.html' %}{% endwith %}{% endif %}>{% endblock %}",
}
TEMPLATES = {
    "c10c_leaf.html": "{% cycle 'x' 'y' %}",
    "c10c_base.html": "[{% block b %}{% endblock %}|{% block tail %}t{% endblock %}]",
    "c10c_rbase.html": "({% block rb %}{% endblock %})",
    "c10c_S1.html": "{% for i in '123' %}{% include 'c10c_row.html' %}{% endfor %}",
    "c10c_S2.html": "{% extends 'c10c_base.html' %}{% block b %}{% include 'c10c_row.html' %}{% include 'c10c_row.html' %}{% endblock %}",
    "c10c_K1.html": "{% component 'c10c_rowc' / %}{% component 'c10c_rowc' / %}",
    "c10c_K2.html": "{% extends 'c10c_base.html' %}{% block b %}{% component 'c10c_rowc' / %}{% component 'c10c_rowc' / %}{% endblock %}",
}
OPS = ("S1", "S2", "K1", "K2", "K3")
_ENV = {}


def _env():
    if _ENV:
        return _ENV
    from django.template import engines

    from django_components import Component
    from django_components.component_registry import registry

    class RowC(Component):
        def get_template_name(self, context):
            return "c10c_row.html"

        def get_context_data(self, **kwargs):
            return {"v": "K"}

    RowC.__module__ = "verif_c10c"
    if "c10c_rowc" in registry.all():
        registry.unregister("c10c_rowc")
    registry.register("c10c_rowc", RowC)
    eng = engines["django"].engine
    # Django's default (non-debug) loader configuration: every loader wrapped in the cached loader
    eng.loaders = [("django.template.loaders.cached.Loader", [("django.template.loaders.locmem.Loader", boot.LOCMEM_TEMPLATES)])]
    eng.__dict__.pop("template_loaders", None)
    _ENV.update(RowC=RowC, engine=eng)
    return _ENV


def fresh(row):
    e = _env()
    boot.LOCMEM_TEMPLATES.update(TEMPLATES)
    boot.LOCMEM_TEMPLATES["c10c_row.html"] = ROWS[row]
    for ld in e["engine"].template_loaders:
        ld.reset()
    boot.drop_template_cache()
    boot.clear_render_registries()


def do(op):
    from django.template.loader import get_template

    try:
        if op == "K3":
            out = _env()["RowC"].render(render_dependencies=False)
        else:
            out = get_template(f"c10c_{op}.html").render({"v": "S"})
        return ("ok", strip_markers(out))
    except Exception as e:  # noqa
        boot.clear_render_registries()
        return ("err", type(e).__name__, str(e)[:200])


def history_task(arg):
    mode, row, maxlen = arg
    boot.set_components_setting(context_behavior=mode)
    solo = {}
    for op in OPS:
        fresh(row)
        solo[op] = do(op)
    failures, n, tr, outs = [], 0, 0, set()
    # absolute anchor for the solo results of the component ops: a component whose template is named by get_template_name()
    # renders that template with its own data - K3 (one Python render) = the stock render of row.html with that data, K1 = twice that
    from django.template.loader import get_template

    fresh(row)
    try:
        stock_row = ("ok", strip_markers(get_template("c10c_row.html").render({"v": "K"})))
    except Exception as e:  # noqa
        stock_row = ("err", type(e).__name__, str(e)[:200])
    if stock_row[0] == "ok":
        for op, want in (("K3", stock_row[1]), ("K1", stock_row[1] * 2)):
            tr += 1
            if solo[op] != ("ok", want):
                failures.append((f"shared:{mode}:component-op-differs-from-stock-render:{op}:row={row}",
                                 f"[{mode}, row.html = {ROWS[row]!r}] {op} as the first operation gives {solo[op]}; the stock render of row.html with the component's data gives {want!r}",
                                 {"part": "shared", "mode": mode, "row": row, "history": [op]}))
    for L in range(2, maxlen + 1):
        for seq_ in itertools.product(OPS, repeat=L):
            n += 1
            fresh(row)
            for k, op in enumerate(seq_):
                got = do(op)
                tr += 1
                outs.add((op, got))
                if got != solo[op]:
                    kind = "stock" if op.startswith("S") else "component"
                    failures.append((f"shared:{mode}:{kind}-op-differs-after:{'>'.join(seq_[:k])}>{op}:row={row}",
                                     f"[{mode}, row.html = {ROWS[row]!r}] after {list(seq_[:k])} the op {op} gives {got}, as the first operation it gives {solo[op]}",
                                     {"part": "shared", "mode": mode, "row": row, "history": list(seq_[:k + 1])}))
                    break
    # keep the shortest history per (kind, last op)
    best = {}
    for ident, what, case in failures:
        key = (ident.split(":")[2], case["history"][-1], case["row"])
        if key not in best or len(case["history"]) < len(best[key][2]["history"]):
            best[key] = (ident, what, case)
    return mode, row, n, tr, len(outs), solo, list(best.values())


def run_part(ctx):
    maxlen = 4 if ctx.tier == "thorough" else 3
    tasks = [(mode, row, maxlen) for mode in ("django", "isolated") for row in ROWS]
    n = tr = 0
    outs = 0
    for mode, row, n1, tr1, nouts, solo, failures in par.run_tasks(history_task, tasks):
        n += n1
        tr += tr1
        outs += nouts
        if solo["S1"][0] != "ok":  # a failing solo render of a COMPONENT op is judged by the stock anchor in history_task
            raise par.HarnessError(f"part (c): the stock solo render fails: {solo}")
        ctx.fnd.merge_reports(sorted(failures, key=lambda f: (len(f[2]["history"]), f[0])))
    ctx.ev.add_part("shared_template_histories", states=n, transitions=tr, validated=tr, nontrivial=n, observed_distinct=outs,
                    bound={"ops": list(OPS), "max_len": maxlen, "row_variants": list(ROWS), "modes": 2, "loader": "cached.Loader(locmem)"},
                    samples=[{"history": ["K2", "S1"], "row": "cycle", "expect": "S1 renders aaa as it does on its own"}])


def replay(ctx, case):
    boot.set_components_setting(context_behavior=case["mode"])
    solo = {}
    for op in set(case["history"]):
        fresh(case["row"])
        solo[op] = do(op)
    fresh(case["row"])
    ok = True
    for op in case["history"]:
        got = do(op)
        print(op, "->", got, "" if got == solo[op] else f"  DIFFERS from the solo result {solo[op]}")
        ok = ok and got == solo[op]
    return ok
