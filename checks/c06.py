"""C06 - a finished or failed render leaves nothing behind (PROG x FAULT + SEQ).

Fault model: a global plan numbers every invocation of a user-code callback during one
top-level render - get_context_data, on_render_before, on_render_after, Python slot
functions, and a harness tag {% tick %} that the printer places at the start of every
nodelist and after every node of page, component templates, slot defaults, fills and
provide bodies.  Run i (1 <= i <= K(program)) raises a fresh exception at invocation i.
`inject()` of a missing key (component `e`) is a natural fault site.

Oracle per faulted run (DESIGN C06):
 (1) the exception escaping the render IS the injected object (identity, class unchanged),
     for exception payloads Boom("boom"), Boom(), KeyError(7) (non-string argument) and a two-line message;
 (2) the six module registries are exactly as before (empty); the caller's
     render_context depth is restored; _metadata_stack of every component instance is empty;
 (3) sentinels passed as context value / kwarg / slot function are dead after dropping the
     exception and gc.collect() x3;
 (4) a follow-up fault-free render equals the pristine output;
 (5) repeating the failing render 3x after a warm-up changes neither registry sizes nor the
     number of live Context / ComponentContext / Slot / Component objects (small programs).
Interference: every program with <= 3 nodes is run through the whole fault enumeration again while every component's
on_render_before / on_render_after hook first performs an unrelated Python-API render that succeeds or fails and is
caught (mc/prog.py side_classes) - a finished / failed render nested inside the render under test.
SEQ: all sequences <= 3 over {ok(p), fail(p,i)} for 4 programs x 2 fault indices.
"""
from __future__ import annotations

import gc
import itertools
import re
import weakref

from mc import boot, par
from mc.prog import SIDE_KINDS, SIDE_POS, CompSpec, Harness, Program, label, print_nodes, side_classes, strip_markers
from mc.proggen import Gen, Profile
from mc.progrun import core_of, prog_size, retuple

PID = "C06"
LEVEL = "fault_enumeration"
DJANGO = {"extra_builtins": ("mc.verif_tags",)}

B = dict(use_if=False, use_alias=False, use_dyn_names=False, use_ws_body=False, fill_text_mix=False,
         comps=("a",), fixed_comps=("c", "e"), provide_keys=("k",), slot_names=("x",), fill_names=("x", "default"), slot_flags=("", "d"))
B2 = dict(B, comps=("a", "b"), fixed_comps=("c",), use_for=False, fill_names=("x",), slot_flags=("",))


# providers only: two keys, nested / shadowing provides across a component boundary, consumers - no slots, no loops
B3 = dict(B, comps=("a",), fixed_comps=("c",), provide_keys=("k", "m"), slot_names=(), fill_names=(), use_for=False)


def bounds(tier):
    if tier == "thorough":
        return {"parts": [("mixed", B, 4, 0), ("two_comps", B2, 4, 0), ("providers", B3, 5, 0)], "growth_max_size": 3, "payloads": 4}
    return {"parts": [("mixed", B, 3, 0), ("two_comps", B2, 4, 3), ("providers", B3, 4, 0)], "growth_max_size": 2, "payloads": 4}


class Sentinel:
    pass


def add_ticks(nodes):
    """{% tick %} at the start of every nodelist and after every node; every component tag gets s=s"""
    out = [("Tick",)]
    for n in nodes:
        k = n[0]
        if k == "If":
            n = ("If", n[1], add_ticks(n[2]))
        elif k == "For":
            n = ("For", n[1], n[2], add_ticks(n[3]))
        elif k == "Slot":
            n = ("Slot", n[1], n[2], n[3], add_ticks(n[4]))
        elif k == "Comp":
            n = ("Comp", n[1], n[2] + (("s", "s"),), n[3], None if n[4] is None else add_ticks(n[4]))
        elif k == "Fill":
            n = ("Fill", n[1], n[2], n[3], add_ticks(n[4]))
        elif k == "Prov":
            n = ("Prov", n[1], n[2], add_ticks(n[3]))
        out.append(n)
        out.append(("Tick",))
    return tuple(out)


C_TPL = (("T", "(c:"), ("V", "kv"), ("T", ")"))
E_TPL = (("T", "(e:"), ("V", "kv"), ("T", ")"))


def make_spec(name, template):
    if name == "c":
        return CompSpec("c", C_TPL, {"kv": ("inject", "k", "v", "-")})
    if name == "e":
        return CompSpec("e", E_TPL, {"kv": ("inject", "k", "v", None)})
    return CompSpec(name, add_ticks(template), {}, ())


INSTANCES = []  # weakrefs to component instances created during the current case


# interference dimension (mc/prog.py side_classes): when set to (pos, kind), every component's on_render_<pos> hook first performs
# an unrelated Python-API render - itself a finished or a failed-and-caught render, nested inside the render under test
SIDE_MODE = [None]
SIDE_VARIANTS = tuple((pos, kind) for pos in SIDE_POS for kind in SIDE_KINDS)
SIDE_VARIANTS_QUICK = (("before", "fail_child"), ("after", "fail_late"))
SIDE_MAX_SIZE = 3


def _side(pos):
    sm = SIDE_MODE[0]
    if sm and sm[0] == pos:
        try:
            side_classes()[sm[1]].render(render_dependencies=False)
        except ValueError:
            pass


def build_classes(prog):
    """real Component subclasses whose callbacks tick the fault plan"""
    from django_components import Component
    from django_components.component_registry import registry

    from mc.prog import _SENTINEL
    from mc.verif_tags import PLAN

    classes = {}
    for name, spec in prog.comps.items():
        data_spec = dict(spec.data)

        def get_context_data(self, s=None, _ds=data_spec, **kwargs):
            INSTANCES.append(weakref.ref(self))
            PLAN.tick("get_context_data")
            data = {"s": s}
            for dn, d in _ds.items():
                _, key, field, default = d
                if default is not None:
                    v = self.inject(key, _SENTINEL)
                    data[dn] = default if v is _SENTINEL else getattr(v, field, "")
                else:
                    data[dn] = getattr(self.inject(key), field, "")
            return data

        def on_render_before(self, context, template):
            _side("before")
            PLAN.tick("on_render_before")

        def on_render_after(self, context, template, content):
            _side("after")
            PLAN.tick("on_render_after")
            return None

        cls = type("F_" + name, (Component,), {"template": spec.source(), "get_context_data": get_context_data,
                                                "on_render_before": on_render_before, "on_render_after": on_render_after,
                                                "__module__": "verif_c06"})
        if name in registry.all():
            registry.unregister(name)
        registry.register(name, cls)
        classes[name] = cls
    return classes


def unregister(prog):
    from django_components.component_registry import registry

    for name in prog.comps:
        if name in registry.all():
            registry.unregister(name)


PAYLOADS = [("Boom('boom')", lambda B: B("boom")), ("Boom()", lambda B: B()), ("KeyError(7)", lambda B: KeyError(7)),
            ("Boom('first line\\nsecond line')", lambda B: B("first line\nsecond line"))]
# the text the user gave the exception: the annotation may put the component path in front of it, nothing of it may be lost
PAYLOAD_TEXT = {"Boom('boom')": "boom", "Boom('first line\\nsecond line')": "first line\nsecond line", "KeyError(7)": "7"}

_ID_RE = re.compile(r"\b" + boot.ID_PATTERN + r"\b")


def norm(html):
    return _ID_RE.sub("ID", strip_markers(html))


def python_variant(prog):
    """(cname, slot names) when the page is one component tag whose body is closed text fills"""
    page = [n for n in prog.page if n[0] != "Tick"]
    if len(page) != 1 or page[0][0] != "Comp":
        return None
    body = page[0][4]
    names = []
    if body:
        items = [n for n in body if n[0] != "Tick"]
        if items and all(n[0] == "Fill" and not n[1].startswith("$") for n in items):
            names = [n[1] for n in items]
            if len(set(names)) != len(names):
                return None
        elif items and all(n[0] == "T" for n in items):
            names = ["default"]
        elif items:
            return None
    return page[0][1], names


class Runner:
    """one top-level render under a fault plan + the oracle"""

    def __init__(self, prog, classes, how):
        self.prog = prog
        self.classes = classes
        self.how = how  # "page" | "python"
        self.src = print_nodes(add_ticks_page(prog.page))

    def render(self, target, payload=None):
        """-> (status, value, sentinel weakrefs, render_context depth ok)"""
        from django.template import Context, Template

        from mc.verif_tags import PLAN, Boom

        boot.ID_SEAM.reset()
        PLAN.arm(target, (lambda: payload(Boom)) if payload else None)
        del INSTANCES[:]
        s = Sentinel()
        refs = [weakref.ref(s)]
        ctx = Context({"s": s})
        depth0 = len(ctx.render_context.dicts)
        dicts0 = len(ctx.dicts)
        try:
            if self.how == "page":
                out = Template(self.src).render(ctx)
            else:
                cname, names = python_variant(self.prog)

                class SlotFn:
                    def __init__(self, nm):
                        self.nm = nm

                    def __call__(self, c, data, ref):
                        PLAN.tick("slot_function")
                        return "S-" + self.nm

                slots = {}
                for nm in names:
                    fn = SlotFn(nm)
                    refs.append(weakref.ref(fn))
                    slots[nm] = fn
                out = self.classes[cname].render(context=ctx, kwargs={"s": s}, slots=slots, render_dependencies=False)
            status, value = "ok", out
        except BaseException as e:  # noqa
            status, value = "err", e
            # drop the frames: exception -> traceback -> this frame -> exception is a cycle of the
            # harness's own making and would keep every local alive until the next gc run
            seen = set()
            x = e
            while x is not None and id(x) not in seen:
                seen.add(id(x))
                x.__traceback__ = None
                x = x.__context__ or x.__cause__
        ctx_ok = len(ctx.render_context.dicts) == depth0 and len(ctx.dicts) == dicts0
        ctx_desc = None if ctx_ok else f"render_context depth {depth0}->{len(ctx.render_context.dicts)}, context depth {dicts0}->{len(ctx.dicts)}"
        return status, value, refs, ctx_desc


def add_ticks_page(page):
    # page nodes were labelled without ticks; add them (and s=s) at print time
    return add_ticks(page)


def stacks_problem():
    for r in INSTANCES:
        inst = r()
        if inst is not None and len(inst._metadata_stack):
            return f"{type(inst).__name__}._metadata_stack still holds {len(inst._metadata_stack)} item(s)"
    return None


def live_counts():
    from django.template.context import Context

    from django_components.component import Component, ComponentContext
    from django_components.slots import Slot

    gc.collect()
    c = {"Context": 0, "ComponentContext": 0, "Slot": 0, "Component": 0}
    for o in gc.get_objects():
        if isinstance(o, Context):
            c["Context"] += 1
        elif isinstance(o, ComponentContext):
            c["ComponentContext"] += 1
        elif isinstance(o, Slot):
            c["Slot"] += 1
        elif isinstance(o, Component):
            c["Component"] += 1
    c.update(boot.registries_snapshot())
    return c


def check_program(prog, mode, agg, growth_max_size, payloads, sample=False, side=None):
    from mc.verif_tags import PLAN

    SIDE_MODE[0] = side
    try:
        _check_program(prog, mode, agg, growth_max_size, payloads, sample, side)
    finally:
        SIDE_MODE[0] = None


def _check_program(prog, mode, agg, growth_max_size, payloads, sample, side):
    from mc.verif_tags import PLAN

    stag = "" if not side else "side-%s-%s:" % side
    classes = build_classes(prog)
    size_ = prog_size_noticks(prog)
    hows = ["page"] + (["python"] if python_variant(prog) is not None else [])
    for how in hows:
        r = Runner(prog, classes, how)
        boot.clear_render_registries()
        st, pristine, refs, ctxp = r.render(-1)
        K = PLAN.n
        agg.transitions += 1
        natural_error = st == "err"
        if natural_error:
            pristine_desc = ("err", type(pristine).__name__)
            agg.expected["natural-" + type(pristine).__name__] += 1
            if type(pristine).__name__ != "KeyError":
                # the program is rejected by the library itself (TemplateSyntaxError: duplicate fill ...):
                # not a user-code fault, C01's business
                pristine = None
                boot.clear_render_registries()
                continue
        else:
            pristine_desc = ("ok", norm(pristine))
        pristine = None
        boot.clear_render_registries()

        def fail(clause, what, target, pl):
            agg.fail(f"{mode}:{how}:{stag}{clause}:{core_of(prog)}",
                     f"[{mode}/{how}{(', unrelated %s render inside every on_render_%s' % (side[1], side[0])) if side else ''}] fault at callback #{target} ({pl}): {what}",
                     {"mode": mode, "how": how, "target": target, "payload": pl, "side": list(side) if side else None, "page": prog.page, "comps": {n: c.template for n, c in prog.comps.items() if n not in ('c', 'e')},
                      "program": {"page": r.src, "components": {n: c.source() for n, c in prog.comps.items()}}})

        targets = list(range(1, K + 1)) if not natural_error else [0]
        for target in targets:
            for pi, (pl_name, pl) in enumerate(PAYLOADS[:payloads]):
                if natural_error and pi > 0:
                    break
                if pi > 0 and target not in (1, K) and size_ > 3 and (target % len(PAYLOADS[:payloads])) != pi:
                    # the payload only matters to the error-annotation code: every payload is used at the first and
                    # the last callback and at every callback of the programs with <= 3 nodes; on larger programs the
                    # middle callbacks get the default payload plus one further payload in rotation (deterministic,
                    # every (fault site kind, payload) pair still occurs on every program shape)
                    continue
                boot.clear_render_registries()
                st, val, refs, ctxp = r.render(target if not natural_error else -1, pl)
                agg.transitions += 1
                agg.validated += 1
                site = PLAN.sites[-1] if PLAN.sites else "?"
                agg.expected["fault@" + site] += 1
                if natural_error:
                    if st != "err" or type(val).__name__ != "KeyError":
                        fail("natural-error-class", f"expected KeyError from inject(), got {st} {type(val).__name__}", target, "inject-missing")
                else:
                    if st != "err":
                        fail("swallowed", f"the render returned normally although callback #{target} ({site}) raised", target, pl_name)
                        continue
                    if val is not PLAN.raised:
                        fail("replaced", f"raised {type(PLAN.raised).__name__} at {site}, but {type(val).__name__}: {str(val)[:120]!r} escaped", target, pl_name)
                        continue
                    want_text = PAYLOAD_TEXT.get(pl_name)
                    got_text = str(val.args[0]) if val.args else ""
                    if want_text is not None and not got_text.endswith(want_text):
                        fail("message-altered", f"the exception raised at {site} said {want_text!r}; what escapes says {got_text!r} (the component path may be put in front, nothing may be lost)", target, pl_name)
                agg.observe((site, st, type(val).__name__))
                # (2) registries / stacks / caller context
                snap = {k: v for k, v in boot.registries_snapshot().items() if v}
                if snap:
                    fail("registry-residue", f"registries not empty after the failed render: {snap} (fault site {site})", target, pl_name)
                sp = stacks_problem()
                if sp:
                    fail("metadata-stack", sp + f" (fault site {site})", target, pl_name)
                if ctxp:
                    fail("caller-context", f"caller's Context not restored: {ctxp} (fault site {site})", target, pl_name)
                # (3) sentinels
                val = None
                PLAN.raised = None
                if not snap:
                    alive = [i for i, ref in enumerate(refs) if ref() is not None]
                    if alive:  # not freed by reference counting alone: give the cycle collector its chance
                        for _ in range(3):
                            gc.collect()
                        alive = [i for i, ref in enumerate(refs) if ref() is not None]
                    if alive:
                        fail("sentinel-alive", f"object(s) passed to the failed render are still reachable (sentinel #{alive}; fault site {site})", target, pl_name)
                # (4) follow-up render
                if not natural_error and pi == 0:
                    st2, val2, _, _ = r.render(-1)
                    agg.transitions += 1
                    desc2 = ("ok", norm(val2)) if st2 == "ok" else ("err", type(val2).__name__)
                    if desc2 != pristine_desc:
                        fail("follow-up", f"fault-free render after the failure gives {desc2}, pristine render gave {pristine_desc}", target, pl_name)
                    val2 = None
                # (5) growth
                if pi == 0 and size_ <= growth_max_size:
                    t = target if not natural_error else -1
                    r.render(t, pl)
                    PLAN.raised = None
                    c1 = live_counts()
                    for _ in range(3):
                        r.render(t, pl)
                        PLAN.raised = None
                    c2 = live_counts()
                    agg.transitions += 4
                    if c1 != c2:
                        diff = {k: (c1[k], c2[k]) for k in c1 if c1[k] != c2[k]}
                        fail("growth", f"repeating the failing render 3x grows live objects / registries: {diff}", target, pl_name)
        if sample and how == "page":
            agg.sample({"mode": mode, "page": r.src, "components": {n: c.source() for n, c in prog.comps.items()}, "callbacks": K})
    boot.clear_render_registries()
    unregister(prog)


def worker(w, W, payload):
    pfkw, N, skip, mode, extra = payload
    growth_max_size, payloads, sides = extra
    side_classes()
    boot.set_components_setting(context_behavior=mode)
    gen = Gen(Profile(**pfkw))
    agg = par.Agg()
    gc.collect()
    gc.freeze()  # Django's start-up objects never die: keep them out of every later collection
    i = -1
    for prog in gen.programs(N, make_spec, {}):
        i += 1
        if i % W != w:
            continue
        if skip and prog_size_noticks(prog) <= skip:
            continue
        agg.states += 1
        agg.nontrivial += 1
        check_program(prog, mode, agg, growth_max_size, payloads, sample=(agg.states == 3 and w == 2))
        if prog_size_noticks(prog) <= SIDE_MAX_SIZE:
            for side in sides:
                agg.expected["side:%s:%s" % side] += 1
                check_program(prog, mode, agg, 0, 1, side=side)
    return agg


def prog_size_noticks(prog):
    def sz(nodes):
        s = 0
        for n in nodes:
            if n[0] == "Tick":
                continue
            s += 1
            for part in n[1:]:
                if isinstance(part, tuple) and part and isinstance(part[0], tuple):
                    s += sz(part)
        return s

    return sz(prog.page) + sum(sz(c.template) for n, c in prog.comps.items() if n not in ("c", "e"))


# ------------------------------------------------------------------ histories
HIST = [
    ((("Comp", "a", (), False, (("Fill", "x", None, None, (("Comp", "c", (), False, None),)),)),), {"a": (("Prov", "k", None, (("Slot", "x", "", (), ()),)),)}),
    ((("Prov", "k", None, (("Comp", "c", (), False, None), ("Comp", "a", (), False, None))),), {"a": (("T", None), ("Comp", "c", (), False, None))}),
    ((("Comp", "a", (), False, (("T", None),)),), {"a": (("Slot", "x", "d", (), (("T", None),)), ("Comp", "b", (), False, None)), "b": (("T", None),)}),
    ((("For", "n", "xy", (("Comp", "a", (), False, None),)),), {"a": (("Slot", "x", "", (), (("Comp", "c", (), False, None),)),)}),
]


def hist_program(i):
    page, comps = HIST[i]
    specs = {n: make_spec(n, label(t, n.upper())) for n, t in comps.items()}
    specs["c"] = make_spec("c", None)
    return Program(label(page, "P"), specs, {})


def hist_task(mode):
    from mc.verif_tags import PLAN

    boot.set_components_setting(context_behavior=mode)
    progs = [hist_program(i) for i in range(len(HIST))]
    # distinct component names per program so that all can be registered at once
    runners = []
    for pi, prog in enumerate(progs):
        ren = {n: f"{n}{pi}" for n in prog.comps}

        def rn(nodes):
            out = []
            for n in nodes:
                k = n[0]
                if k == "Comp":
                    n = ("Comp", ren[n[1]], n[2], n[3], None if n[4] is None else rn(n[4]))
                elif k in ("If",):
                    n = (k, n[1], rn(n[2]))
                elif k in ("For", "Prov"):
                    n = n[:3] + (rn(n[3]),)
                elif k in ("Slot", "Fill"):
                    n = n[:4] + (rn(n[4]),)
                out.append(n)
            return tuple(out)

        p2 = Program(rn(prog.page), {ren[n]: CompSpec(ren[n], rn(c.template), c.data, c.probes) for n, c in prog.comps.items()}, {})
        classes = build_classes(p2)
        r = Runner(p2, classes, "page")
        boot.clear_render_registries()
        st, out, _, _ = r.render(-1)
        K = PLAN.n
        assert st == "ok", (st, out)
        runners.append((r, norm(out), K))
    events = []
    for pi, (r, pristine, K) in enumerate(runners):
        events.append((pi, -1))
        events.append((pi, 1))
        events.append((pi, K))
    failures = []
    nseq = ntr = 0
    obs = set()
    for depth in (1, 2, 3):
        for seq_ in itertools.product(range(len(events)), repeat=depth):
            boot.clear_render_registries()
            nseq += 1
            for j, ei in enumerate(seq_):
                pi, target = events[ei]
                r, pristine, K = runners[pi]
                st, val, refs, ctxp = r.render(target)
                ntr += 1
                problem = None
                if target == -1:
                    if st != "ok" or norm(val) != pristine:
                        problem = f"fault-free render of program {pi} gave {(st, norm(val) if st == 'ok' else type(val).__name__)}, pristine {pristine!r}"
                else:
                    if st != "err" or val is not PLAN.raised:
                        problem = f"faulted render of program {pi} at callback {target}: {st} {type(val).__name__}"
                val = None
                PLAN.raised = None
                snap = {k: v for k, v in boot.registries_snapshot().items() if v}
                if not problem and snap:
                    problem = f"registries {snap} after event {j}"
                obs.add((ei, st))
                if problem:
                    if len(failures) < 10:
                        failures.append((f"{mode}:history:{problem.split(' ')[0]}", f"[{mode}] history {[events[k] for k in seq_[:j + 1]]} (program, fault index; -1 = no fault): {problem}",
                                         {"part": "history", "mode": mode, "events": [list(events[k]) for k in seq_[: j + 1]]}))
                    break
    boot.clear_render_registries()
    for r, _, _ in runners:
        unregister(r.prog)
    return mode, nseq, ntr, failures, len(obs), len(events)


# ------------------------------------------------------------------ alias family: the slot's default content handed on through `default=`
# The program profile above has no `default="d"` alias (use_alias=False).  This family places `{{ d }}` in every position of a fill:
# directly, in the implicit body of a nested component, in a fill of a nested component, in both - with a slot default that
# holds a component (under a provider or not).  Oracle: a successful render leaves every registry empty, repeating it does not
# grow anything, and each component of the default content is prepared exactly as often as it is rendered.
ALIAS_DEFAULTS = {"text": "D", "component": "{% component 'al_leaf' / %}", "provided_component": "{% provide 'k' v='x' %}{% component 'al_leaf' / %}{% endprovide %}"}
ALIAS_USES = {
    "direct": "[{{ d }}]",
    "twice": "[{{ d }}{{ d }}]",
    "in_implicit_body": "{% component 'al_wrap' %}{{ d }}{% endcomponent %}",
    "in_nested_fill": "{% component 'al_wrap' %}{% fill 'content' %}{{ d }}{% endfill %}{% endcomponent %}",
    "in_provider_wrap_body": "{% component 'al_pwrap' %}{{ d }}{% endcomponent %}",
    "two_levels": "{% component 'al_wrap' %}{% component 'al_wrap' %}{{ d }}{% endcomponent %}{% endcomponent %}",
    "unused": "[unused]",
}


def alias_task(mode):
    from django.template import Context, Template

    from django_components import Component
    from django_components.component_registry import registry

    boot.set_components_setting(context_behavior=mode)
    agg = par.Agg()
    prepared = [0]

    def leaf_gcd(self, **kw):
        prepared[0] += 1
        o = self.inject("k", 0)
        return {"v": o and o.v}

    for dname, dflt in ALIAS_DEFAULTS.items():
        comps = {
            "al_leaf": ("(leaf{{ v }})", leaf_gcd),
            "al_x": ("<x>{% slot 's' %}" + dflt + "{% endslot %}</x>", None),
            "al_wrap": ("<w>{% slot 'content' default / %}</w>", None),
            "al_pwrap": ("{% provide 'k' v='w' %}<w>{% slot 'content' default / %}</w>{% endprovide %}", None),
        }
        for n, (tpl, gcd) in comps.items():
            if n in registry.all():
                registry.unregister(n)
            attrs = {"template": tpl, "__module__": "verif_c06a"}
            if gcd:
                attrs["get_context_data"] = gcd
            registry.register(n, type("AL_" + n, (Component,), attrs))
        for uname, use in ALIAS_USES.items():
            for outer in ("page", "in_component"):
                page = "{% component 'al_x' %}{% fill 's' default='d' %}" + use + "{% endfill %}{% endcomponent %}"
                if outer == "in_component":
                    page = "{% component 'al_wrap' %}" + page + "{% endcomponent %}"
                t = Template(page)
                boot.clear_render_registries()
                agg.states += 1
                agg.nontrivial += 1 if dname != "text" else 0
                agg.expected[f"{dname}/{uname}"] += 1
                ident = f"{mode}:alias:{dname}:{uname}:{outer}"
                case = {"part": "alias", "mode": mode, "default": dname, "use": uname, "outer": outer, "page": page}
                try:
                    prepared[0] = 0
                    out1 = norm(t.render(Context({})))
                    n_prepared = prepared[0]
                    agg.transitions += 1
                except Exception as e:  # noqa
                    boot.clear_render_registries()
                    agg.fail(ident + ":error", f"[{mode}] page {page!r} (slot default {dflt!r}) raised {type(e).__name__}: {str(e)[:200]}", case)
                    continue
                agg.validated += 1
                agg.observe((dname, uname, out1))
                n_rendered = out1.count("(leaf")
                snap = {k: v for k, v in boot.registries_snapshot().items() if v}
                if snap:
                    agg.fail(ident + ":registry-residue", f"[{mode}] page {page!r} (slot default {dflt!r}) rendered {out1!r}; registries afterwards: {snap}", case)
                    boot.clear_render_registries()
                if n_prepared != n_rendered:
                    agg.fail(ident + ":prepared-not-rendered", f"[{mode}] page {page!r} (slot default {dflt!r}): get_context_data of the default content's component ran "
                             f"{n_prepared} time(s), the output holds it {n_rendered} time(s): {out1!r}", case)
                outs = {norm(t.render(Context({}))) for _ in range(2)}
                agg.transitions += 2
                if outs != {out1}:
                    agg.fail(ident + ":repeat-differs", f"[{mode}] page {page!r}: repeated renders give {sorted(outs)}, the first gave {out1!r}", case)
                boot.clear_render_registries()
        for n in comps:
            registry.unregister(n)
    return mode, agg


def run(ctx):
    ev = ctx.ev
    b = bounds(ctx.tier)
    ev.rule = ("PROG x FAULT: every program of the mixed profile (text, for, slot, component with fills, provide, consumers, hooks) with <= N nodes "
               "x every index of a user-code callback invocation (get_context_data, on_render_before/after, slot functions, {% tick %} tag at every "
               "nodelist position) raising; non-trivial = every program (each has >= 1 callback). SEQ: all ok/fail histories <= 3 over 4 programs")
    from mc.progrun import run_parts

    run_parts(ctx, worker, b["parts"], extra_payload=(b["growth_max_size"], b["payloads"], SIDE_VARIANTS if ctx.tier == "thorough" else SIDE_VARIANTS_QUICK))
    for mode, nseq, ntr, failures, nobs, nevents in par.run_tasks(hist_task, ["django", "isolated"]):
        ev.add_part(f"histories_{mode}", states=nseq, transitions=ntr, validated=ntr, nontrivial=nseq, observed_distinct=nobs,
                    bound={"depth": 3, "events": nevents}, samples=[{"mode": mode, "history": [[0, -1], [1, 1], [0, -1]]}])
        ctx.fnd.merge_reports(failures)
    for mode, agg in par.run_tasks(alias_task, ["django", "isolated"]):
        ev.add_part(f"alias_family_{mode}", states=agg.states, transitions=agg.transitions, validated=agg.validated, nontrivial=agg.nontrivial,
                    observed_distinct=len(agg.observed), expected=agg.expected,
                    bound={"slot_defaults": list(ALIAS_DEFAULTS), "uses_of_the_alias": list(ALIAS_USES), "outer": ["page", "in_component"]},
                    samples=[{"page": "{% component 'al_x' %}{% fill 's' default='d' %}{% component 'al_wrap' %}{{ d }}{% endcomponent %}{% endfill %}{% endcomponent %}"}])
        ctx.fnd.merge_reports(agg.failures)
    ev.assumptions = ["fault sites are the harness's own callbacks (tag at every nodelist position, hooks, get_context_data, slot functions); "
                      "built-in Django tag failures are represented by the {% tick %} tag",
                      "liveness judged by weakref + gc.collect() x3 with the exception object dropped"]


def replay(ctx, case):
    from mc.verif_tags import PLAN

    mode = case["mode"]
    boot.set_components_setting(context_behavior=mode)
    if case.get("part") == "alias":
        _, agg = alias_task(mode)
        for f in agg.failures[:10]:
            print(f[1])
        return not agg.failures
    if case.get("part") == "history":
        _, nseq, ntr, failures, _, _ = hist_task(mode)
        for f in failures:
            print(f[1])
        return not failures
    comps = {n: CompSpec(n, retuple(t), {}, ()) for n, t in case["comps"].items()}
    comps["c"] = make_spec("c", None)
    comps["e"] = make_spec("e", None)
    prog = Program(retuple(case["page"]), comps, {})
    agg = par.Agg()
    print("page:", case["program"]["page"])
    for n, s in case["program"]["components"].items():
        print(f"comp {n}:", s)
    side_classes()
    check_program(prog, mode, agg, 9, 3, side=tuple(case["side"]) if case.get("side") else None)
    for f in agg.failures[:10]:
        print(f[0][:60], "::", f[1])
    return not agg.failures
