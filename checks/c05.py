"""C05 - inject() returns the nearest enclosing {% provide %} of the rendered structure (PROG + SEQ).

Part 1 (PROG): every program of the provide profile with <= N nodes: {% provide k|m %} at page
level, inside component templates, around slots, inside fills, in loops, nested / shadowing,
with consumer components `c` (inject with default; prints k.v, m.v, field names of m and the
template variable `v`, which must stay empty) and `e` (inject without default -> KeyError
outside a provider). Oracle: dynamic-scope provider model of mc/prog.py.
Part 2 (SEQ): all sequences of <= 3 renders over representative programs; each render equals
its solo result and the provide registries are empty between renders.

Excluded: {% provide %} written between a component tag and its {% fill %}.
"""
from __future__ import annotations

import itertools

from mc import boot, par
from mc.prog import CompSpec, Harness, strip_markers
from mc.proggen import Gen, Profile
from mc.progrun import compare_outcome, core_of, model_outcome, prog_from_spec, prog_size, prog_spec, run_parts

PID = "C05"
LEVEL = "model_checking"
DJANGO = {}

C_TPL = (("T", "(c:"), ("V", "kv"), ("T", ":"), ("V", "mv"), ("T", ":"), ("V", "mf"), ("T", ":"), ("V", "v"), ("T", ")"))
E_TPL = (("T", "(e:"), ("V", "kv"), ("T", ")"))


def make_spec(name, template):
    if name == "c":
        return CompSpec("c", C_TPL, {"kv": ("inject", "k", "v", "-"), "mv": ("inject", "m", "v", "-"), "mf": ("inject", "m", None, "-")})
    if name == "e":
        return CompSpec("e", E_TPL, {"kv": ("inject", "k", "v", None)})
    return CompSpec(name, template, {}, ())


BASE = dict(use_if=False, use_alias=False, use_dyn_names=False, use_ws_body=False, fill_text_mix=False)
P1 = dict(BASE, comps=("a",), fixed_comps=("c", "e"), provide_keys=("k", "m"), slot_names=("x",), fill_names=("x", "default"), slot_flags=("", "d"))
P2 = dict(BASE, comps=("a",), fixed_comps=("c",), provide_keys=("k", "m"), slot_names=("x",), fill_names=("x",), slot_flags=("",))
P3 = dict(BASE, comps=("a", "b"), fixed_comps=("c",), provide_keys=("k",), slot_names=("x",), fill_names=("x",), slot_flags=("",))


def bounds(tier):
    if tier == "thorough":
        return [("p1", P1, 5, 0), ("p2", P2, 6, 0), ("p3", P3, 5, 0)]
    return [("p1", P1, 4, 0), ("p2", P2, 5, 0), ("p3", P3, 4, 0)]


def nontrivial(prog):
    s = prog.page_source() + "".join(c.source() for c in prog.comps.values())
    return "{% provide" in s and ('"c"' in s or '"e"' in s)


def residue():
    snap = boot.registries_snapshot()
    return {k: v for k, v in snap.items() if v and k in ("provide_cache", "provide_references", "all_reference_ids")}


def worker(w, W, payload):
    pfkw, N, skip, mode, _ = payload
    boot.set_components_setting(context_behavior=mode)
    gen = Gen(Profile(**pfkw))
    h = Harness()
    agg = par.Agg()
    i = -1
    for prog in gen.programs(N, make_spec, {}):
        i += 1
        if i % W != w:
            continue
        if skip and prog_size(prog) <= skip:
            continue
        agg.states += 1
        exp, _it = model_outcome(prog, mode)
        agg.expected[exp[0] if exp[0] != "err" else "err:" + exp[1]] += 1
        if nontrivial(prog):
            agg.nontrivial += 1
        h.install(prog)
        obs = h.render_page(prog)
        agg.transitions += 1
        agg.validated += 1
        if obs[0] == "ok":
            agg.observe(obs[1])
        bad = compare_outcome(exp, obs)
        res = residue() if (obs[0] == "ok" and not bad) else {}
        boot.clear_render_registries()
        if bad:
            agg.fail(f"{mode}:{bad[0]}:{core_of(prog)}", f"[{mode}] {bad[1]}",
                     {"part": "prog", "mode": mode, "program": prog.to_json(mode), "expected": list(exp), "spec": prog_spec(prog)})
        elif res:
            agg.fail(f"{mode}:residue:{core_of(prog)}", f"[{mode}] provide registries not empty after a successful render: {res}",
                     {"part": "prog", "mode": mode, "program": prog.to_json(mode), "expected": list(exp), "spec": prog_spec(prog)})
        if agg.states <= 1 and w == 3:
            agg.sample({"mode": mode, "page": prog.page_source(), "components": {n: c.source() for n, c in prog.comps.items()}, "expected": list(exp)})
    h.uninstall()
    return agg


# ---------------------------------------------------------------- histories
HIST_PAGES = [
    '{% provide "k" v="K1" %}{% component "c" / %}{% component "c" / %}{% endprovide %}',
    '{% component "c" / %}',
    '{% provide "k" v="K2" %}{% component "e" / %}{% endprovide %}{% component "e" / %}',  # 2nd consumer fails (KeyError)
    '{% provide "k" v="K3" %}{% component "a" %}{% fill "x" %}{% component "c" / %}{% endfill %}{% endcomponent %}{% endprovide %}',
    '{% provide "k" v="K4" %}{% provide "k" v="K5" %}{% component "c" / %}{% endprovide %}{% component "c" / %}{% endprovide %}',
    '{% provide "m" v="M1" w="w" %}T{% endprovide %}{% component "a" / %}',
]
HIST_A = (("T", "(a:"), ("Prov", "m", (("v", "'MA'"), ("w", "'w'")), (("Slot", "x", "", (), (("Comp", "c", (), False, None),)),)), ("T", ")"))


def _render_src(src):
    from django.template import Context, Template

    try:
        return ("ok", strip_markers(Template(src).render(Context({}))))
    except Exception as e:  # noqa
        return ("err", type(e).__name__)


def hist_task(mode):
    from mc.prog import Program

    boot.set_components_setting(context_behavior=mode)
    prog = Program((), {"a": CompSpec("a", HIST_A), "c": make_spec("c", None), "e": make_spec("e", None)}, {})
    h = Harness()
    h.install(prog)
    solo = []
    for src in HIST_PAGES:
        boot.clear_render_registries()
        solo.append(_render_src(src))
    boot.clear_render_registries()
    failures = []
    nseq = ntr = 0
    states = set()
    for depth in (1, 2, 3):
        for seq_ in itertools.product(range(len(HIST_PAGES)), repeat=depth):
            boot.clear_render_registries()
            nseq += 1
            for j, pi in enumerate(seq_):
                out = _render_src(HIST_PAGES[pi])
                ntr += 1
                res = residue()
                states.add(tuple(sorted(res.items())))
                # a *failed* render may leave residue on the pinned design only through C06; the
                # history oracle of C05 is: later renders are unaffected and successful ones leave nothing
                if out != solo[pi]:
                    failures.append((f"{mode}:history:{pi}", f"[{mode}] render #{j} of page {HIST_PAGES[pi]!r} after {[HIST_PAGES[k] for k in seq_[:j]]} gave {out}, solo gives {solo[pi]}",
                                     {"part": "history", "mode": mode, "sequence": list(seq_)}))
                    break
                if res and out[0] == "ok" and all(solo[k][0] == "ok" for k in seq_[: j + 1]):
                    failures.append((f"{mode}:history-residue", f"[{mode}] provide registries {res} after successful renders {list(seq_[:j+1])}",
                                     {"part": "history", "mode": mode, "sequence": list(seq_)}))
                    break
    boot.clear_render_registries()
    h.uninstall()
    return mode, nseq, ntr, failures[:10], len(states), solo


def run(ctx):
    ev = ctx.ev
    ev.rule = ("PROG: every program over text, for, slot, component(fills), provide(k|m) and consumer components with total node count <= N; "
               "non-trivial = has a provider and a consumer. SEQ: all sequences <= 3 over 6 representative pages")
    run_parts(ctx, worker, bounds(ctx.tier))
    for mode, nseq, ntr, failures, nstates, solo in par.run_tasks(hist_task, ["django", "isolated"]):
        ev.add_part(f"histories_{mode}", states=nseq, transitions=ntr, validated=ntr, nontrivial=nseq - len(HIST_PAGES),
                    observed_distinct=len(set(solo)), bound={"depth": 3, "pages": len(HIST_PAGES)},
                    samples=[{"mode": mode, "history": [HIST_PAGES[0], HIST_PAGES[2], HIST_PAGES[1]]}])
        ctx.fnd.merge_reports(failures)
    ev.assumptions = ["provide tags between a component tag and its fill are outside the profile",
                      "provider chain = render nesting (page -> component template -> slot -> fill content)"]


def replay(ctx, case):
    mode = case["mode"]
    boot.set_components_setting(context_behavior=mode)
    if case.get("part") == "history":
        _, nseq, ntr, failures, _, solo = hist_task(mode)
        for f in failures:
            print(f[1])
        return not failures
    prog = prog_from_spec(case["spec"], make_spec)
    h = Harness()
    h.install(prog)
    exp, _ = model_outcome(prog, mode)
    obs = h.render_page(prog)
    res = residue()
    boot.clear_render_registries()
    h.uninstall()
    print("page:     ", prog.page_source())
    for n, c in prog.comps.items():
        print(f"comp {n}:   ", c.source())
    print("expected: ", exp)
    print("observed: ", (obs[0], strip_markers(obs[1])) if obs[0] == "ok" else obs, "residue:", res)
    return compare_outcome(exp, obs) is None and not (obs[0] == "ok" and res)
