"""C05 - inject() returns the nearest enclosing {% provide %} of the rendered structure (PROG + SEQ).

Part 1 (PROG): every program of the provide profile with <= N nodes: {% provide k|m %} at page
level, inside component templates, around slots, inside fills, in loops, nested / shadowing,
with consumer components `c` (inject with default; prints k.v, m.v, field names of m and the
template variable `v`, which must stay empty) and `e` (inject without default -> KeyError
outside a provider). Oracle: dynamic-scope provider model of mc/prog.py.
Structured family (page -> a -> b, providers x consumers at five positions each) - also rendered with
unrelated Python-API renders (own provide; succeeding / failing and caught) inside every component's
on_render_before / on_render_after hook (mc/prog.py side_attrs): inject results and registries must not change.
Part 2 (SEQ): all sequences of <= 3 renders over representative programs; each render equals
its solo result and the provide registries are empty between renders.

Excluded: {% provide %} written between a component tag and its {% fill %}.
"""
from __future__ import annotations

import itertools

from mc import boot, par
from mc.prog import SIDE_KINDS, SIDE_POS, CompSpec, Harness, side_attrs, strip_markers
from mc.proggen import Gen, Profile
from mc.progrun import compare_outcome, core_of, model_outcome, prog_from_spec, prog_size, prog_spec, run_parts

PID = "C05"
LEVEL = "model_checking"
DJANGO = {}

C_TPL = (("T", "(c:"), ("V", "kv"), ("T", ":"), ("V", "mv"), ("T", ":"), ("V", "mf"), ("T", ":"), ("V", "v"), ("T", ")"))
E_TPL = (("T", "(e:"), ("V", "kv"), ("T", ")"))


def make_spec(name, template):
    if name == "c":
        # defaults: a string, the falsy number 0 and the empty tuple - "outside every provider it returns the given default"
        return CompSpec("c", C_TPL, {"kv": ("inject", "k", "v", "-"), "mv": ("inject", "m", "v", 0), "mf": ("inject", "m", None, ())})
    if name == "e":
        return CompSpec("e", E_TPL, {"kv": ("inject", "k", "v", None)})
    return CompSpec(name, template, {}, ())


BASE = dict(use_if=False, use_alias=False, use_dyn_names=False, use_ws_body=False, fill_text_mix=False)
P1 = dict(BASE, comps=("a",), fixed_comps=("c", "e"), provide_keys=("k", "m"), slot_names=("x",), fill_names=("x", "default"), slot_flags=("", "d"))
P2 = dict(BASE, comps=("a",), fixed_comps=("c",), provide_keys=("k", "m"), slot_names=("x",), fill_names=("x",), slot_flags=("",))
P3 = dict(BASE, comps=("a", "b"), fixed_comps=("c",), provide_keys=("k",), slot_names=("x",), fill_names=("x",), slot_flags=("",))


def bounds(tier):
    if tier == "thorough":
        return [("p1", P1, 5, 0), ("p2", P2, 6, 0), ("p3", P3, 5, 0)]
    return [("p1", P1, 4, 0), ("p2", P2, 5, 0), ("p3", P3, 4, 0)]


def nontrivial(prog):
    s = prog.page_source() + "".join(c.source() for c in prog.comps.values())
    return "{% provide" in s and ('"c"' in s or '"e"' in s)


def residue():
    snap = boot.registries_snapshot()
    return {k: v for k, v in snap.items() if v and k in ("provide_cache", "provide_references", "all_reference_ids")}


def worker(w, W, payload):
    pfkw, N, skip, mode, _ = payload
    boot.set_components_setting(context_behavior=mode)
    gen = Gen(Profile(**pfkw))
    h = Harness()
    agg = par.Agg()
    i = -1
    for prog in gen.programs(N, make_spec, {}):
        i += 1
        if i % W != w:
            continue
        if skip and prog_size(prog) <= skip:
            continue
        agg.states += 1
        exp, _it = model_outcome(prog, mode)
        agg.expected[exp[0] if exp[0] != "err" else "err:" + exp[1]] += 1
        if nontrivial(prog):
            agg.nontrivial += 1
        h.install(prog)
        obs = h.render_page(prog)
        agg.transitions += 1
        agg.validated += 1
        if obs[0] == "ok":
            agg.observe(obs[1])
        bad = compare_outcome(exp, obs)
        res = residue() if (obs[0] == "ok" and not bad) else {}
        boot.clear_render_registries()
        if bad:
            agg.fail(f"{mode}:{bad[0]}:{core_of(prog)}", f"[{mode}] {bad[1]}",
                     {"part": "prog", "mode": mode, "program": prog.to_json(mode), "expected": list(exp), "spec": prog_spec(prog)})
        elif res:
            agg.fail(f"{mode}:residue:{core_of(prog)}", f"[{mode}] provide registries not empty after a successful render: {res}",
                     {"part": "prog", "mode": mode, "program": prog.to_json(mode), "expected": list(exp), "spec": prog_spec(prog)})
        if agg.states <= 1 and w == 3:
            agg.sample({"mode": mode, "page": prog.page_source(), "components": {n: c.source() for n, c in prog.comps.items()}, "expected": list(exp)})
    h.uninstall()
    return agg


# ---------------------------------------------------------------- structured family
# page -> a -> b with providers at five positions and consumers at five positions: larger than the
# node-bounded enumeration reaches (6-9 nodes), but exactly the shapes the statement talks about
# (siblings sharing a provider, providers around slots / inside fills / around nested tags, shadowing).
PROVIDER_OPTS = (None, ("k",), ("m",), ("k", "m"), ("m", "k"), ("k", "k"))


SIDE_VARIANTS = tuple((pos, kind) for pos in SIDE_POS for kind in SIDE_KINDS)
SIDE_VARIANTS_QUICK = (("before", "fail_child"), ("after", "fail"))


def wrap_prov(keys, nodes):
    nodes = tuple(nodes)
    for key in reversed(keys or ()):
        nodes = (("Prov", key, None, nodes),)
    return nodes


def consumers(n):
    return tuple(("Comp", "c", (), False, None) for _ in range(n))


def family_cases(tier):
    """(providers at 5 positions, consumer counts at 5 positions); counts sum <= 2 (quick) / 3 (thorough)"""
    maxc = 3 if tier == "thorough" else 2
    count_cfgs = [c for c in itertools.product((0, 1, 2), repeat=5) if 0 < sum(c) <= maxc]
    popts = PROVIDER_OPTS if tier == "thorough" else PROVIDER_OPTS[:5]
    for provs in itertools.product(popts, repeat=5):
        if sum(1 for p in provs if p) > 3:
            continue
        for counts in count_cfgs:
            yield provs, counts


def family_program(provs, counts):
    """positions: 0 page around a's tag / after it; 1 in a's template around its slot x; 2 in a's template around b's tag;
    3 inside the page-level fill for a's slot x; 4 in b's template.  consumers: 0 page after the tag, 1 inside the page-level
    fill, 2 a's template, 3 b's template, 4 the fill written in a for b's slot y"""
    from mc.prog import Program, label

    p_page, p_slot, p_btag, p_fill, p_b = provs
    c_page, c_fill, c_a, c_b, c_bfill = counts
    b_tpl = (("T", None),) + wrap_prov(p_b, (("Slot", "y", "", (), ()),) + consumers(c_b))
    b_tag = ("Comp", "b", (), False, (("Fill", "y", None, None, (("T", None),) + consumers(c_bfill)),))
    a_tpl = (("T", None),) + wrap_prov(p_slot, (("Slot", "x", "", (), (("T", None),)),)) + wrap_prov(p_btag, (b_tag,)) + consumers(c_a)
    a_tag = ("Comp", "a", (), False, (("Fill", "x", None, None, wrap_prov(p_fill, (("T", None),) + consumers(c_fill))),))
    page = wrap_prov(p_page, (a_tag,) + consumers(c_page))
    comps = {"a": make_spec("a", label(a_tpl, "A")), "b": make_spec("b", label(b_tpl, "B")), "c": make_spec("c", None)}
    return Program(label(page, "P"), comps, {})


def family_worker(w, W, payload):
    tier, mode = payload
    boot.set_components_setting(context_behavior=mode)
    h = Harness()
    agg = par.Agg()
    installed = False
    for i, (provs, counts) in enumerate(family_cases(tier)):
        if i % W != w:
            continue
        prog = family_program(provs, counts)
        agg.states += 1
        if any(provs):
            agg.nontrivial += 1
        exp, _it = model_outcome(prog, mode)
        agg.expected[exp[0]] += 1
        h.install(prog)
        obs = h.render_page(prog)
        agg.transitions += 1
        agg.validated += 1
        if obs[0] == "ok":
            agg.observe(obs[1])
        bad = compare_outcome(exp, obs)
        res = residue() if (obs[0] == "ok" and not bad) else {}
        boot.clear_render_registries()
        if bad or res:
            what = bad[1] if bad else f"provide registries not empty after a successful render: {res}"
            agg.fail(f"{mode}:family:{'output' if bad else 'residue'}:providers={provs}:consumers={counts}", f"[{mode}] {what}",
                     {"part": "family", "mode": mode, "providers": [list(p) if p else None for p in provs], "consumers": list(counts),
                      "page": prog.page_source(), "components": {n: c.source() for n, c in prog.comps.items()}})
        if agg.states == 9 and w == 6:
            agg.sample({"mode": mode, "page": prog.page_source(), "components": {n: c.source() for n, c in prog.comps.items()}, "expected": list(exp)})
        if bad or res:
            continue
        # interference: unrelated Python-API renders (with their own provide, succeeding or failing and caught) inside
        # every component's hooks must change neither what inject() returns nor what is left in the registries
        for pos, kind in (SIDE_VARIANTS if tier == "thorough" else SIDE_VARIANTS_QUICK):
            h.install(prog, extra_attrs=side_attrs(prog, pos, kind))
            obs2 = h.render_page(prog)
            agg.transitions += 1
            agg.validated += 1
            agg.expected["side:%s:%s" % (pos, kind)] += 1
            bad2 = compare_outcome(exp, obs2)
            res2 = residue() if (obs2[0] == "ok" and not bad2) else {}
            boot.clear_render_registries()
            if bad2 or res2:
                what = bad2[1] if bad2 else f"provide registries not empty after a successful render: {res2}"
                agg.fail(f"{mode}:family:side-{pos}-{kind}:{'output' if bad2 else 'residue'}:providers={provs}:consumers={counts}",
                         f"[{mode}, unrelated {kind} render inside every on_render_{pos}] {what}",
                         {"part": "family", "mode": mode, "providers": [list(p) if p else None for p in provs], "consumers": list(counts),
                          "side": [pos, kind], "page": prog.page_source(), "components": {n: c.source() for n, c in prog.comps.items()}})
            h.install(prog)
    h.uninstall()
    return agg


# ---------------------------------------------------------------- histories
HIST_PAGES = [
    '{% provide "k" v="K1" %}{% component "c" / %}{% component "c" / %}{% endprovide %}',
    '{% component "c" / %}',
    '{% provide "k" v="K2" %}{% component "e" / %}{% endprovide %}{% component "e" / %}',  # 2nd consumer fails (KeyError)
    '{% provide "k" v="K3" %}{% component "a" %}{% fill "x" %}{% component "c" / %}{% endfill %}{% endcomponent %}{% endprovide %}',
    '{% provide "k" v="K4" %}{% provide "k" v="K5" %}{% component "c" / %}{% endprovide %}{% component "c" / %}{% endprovide %}',
    '{% provide "m" v="M1" w="w" %}T{% endprovide %}{% component "a" / %}',
]
HIST_A = (("T", "(a:"), ("Prov", "m", (("v", "'MA'"), ("w", "'w'")), (("Slot", "x", "", (), (("Comp", "c", (), False, None),)),)), ("T", ")"))


def _render_src(src):
    from django.template import Context, Template

    try:
        return ("ok", strip_markers(Template(src).render(Context({}))))
    except Exception as e:  # noqa
        return ("err", type(e).__name__)


def hist_task(mode):
    from mc.prog import Program

    boot.set_components_setting(context_behavior=mode)
    prog = Program((), {"a": CompSpec("a", HIST_A), "c": make_spec("c", None), "e": make_spec("e", None)}, {})
    h = Harness()
    h.install(prog)
    solo = []
    for src in HIST_PAGES:
        boot.clear_render_registries()
        solo.append(_render_src(src))
    boot.clear_render_registries()
    failures = []
    nseq = ntr = 0
    states = set()
    for depth in (1, 2, 3):
        for seq_ in itertools.product(range(len(HIST_PAGES)), repeat=depth):
            boot.clear_render_registries()
            nseq += 1
            for j, pi in enumerate(seq_):
                out = _render_src(HIST_PAGES[pi])
                ntr += 1
                res = residue()
                states.add(tuple(sorted(res.items())))
                # a *failed* render may leave residue on the pinned design only through C06; the
                # history oracle of C05 is: later renders are unaffected and successful ones leave nothing
                if out != solo[pi]:
                    failures.append((f"{mode}:history:{pi}", f"[{mode}] render #{j} of page {HIST_PAGES[pi]!r} after {[HIST_PAGES[k] for k in seq_[:j]]} gave {out}, solo gives {solo[pi]}",
                                     {"part": "history", "mode": mode, "sequence": list(seq_)}))
                    break
                if res and out[0] == "ok" and all(solo[k][0] == "ok" for k in seq_[: j + 1]):
                    failures.append((f"{mode}:history-residue", f"[{mode}] provide registries {res} after successful renders {list(seq_[:j+1])}",
                                     {"part": "history", "mode": mode, "sequence": list(seq_)}))
                    break
    boot.clear_render_registries()
    h.uninstall()
    return mode, nseq, ntr, failures[:10], len(states), solo


# ------------------------------------------------------------------ part: forms of the provider's kwargs / of the consumer's render
_NO_PROVIDER = object()
FORM_DICTS = ({"a": 1, "b": 2}, {"b": 3, "a": 4}, {"c": 5}, {"a": 6}, {})


def _fmt(d):
    return "(" + ",".join("%s=%s" % kv for kv in sorted(d.items())) + ")"


def forms_task(mode):
    """(1) `{% provide "k" ...item %}`: the injected object carries exactly THIS provider's keyword arguments - every sequence of
    <= 3 items over 5 dicts (same names in another order, other names, fewer names, none) in one loop, and as successive renders
    of one Template object; at page level and inside a component's template.  (2) a component rendered through the Python API
    from a slot function, with the Context the function receives, below a provider that lives in a component's template."""
    from django.template import Context, Template
    from django.utils.safestring import mark_safe

    from django_components import Component
    from django_components.component_registry import registry

    boot.set_components_setting(context_behavior=mode)

    def dump_gcd(self, **kw):
        o = self.inject("k", _NO_PROVIDER)  # NB: a default of None means "no default" to inject()
        return {"f": _fmt(o._asdict()) if o is not _NO_PROVIDER else "-"}

    classes = {
        "c05dump": type("C05Dump", (Component,), {"__module__": "verif_c05f", "template": "{{ f }}", "get_context_data": dump_gcd}),
        "c05loop": type("C05Loop", (Component,), {"__module__": "verif_c05f", "get_context_data": lambda self, items=(), **kw: {"items": items},
                                                   "template": '{% for item in items %}{% provide "k" ...item %}{% component "c05dump" / %}{% endprovide %}{% endfor %}'}),
        "c05panel": type("C05Panel", (Component,), {"__module__": "verif_c05f", "template": '<p>{% component "c05dump" / %}</p>'}),
        "c05host": type("C05Host", (Component,), {"__module__": "verif_c05f", "template": '[{% provide "k" v="H" %}{% slot "x" / %}{% endprovide %}|{% component "c05dump" / %}]'}),
    }
    for n, c in classes.items():
        if n in registry.all():
            registry.unregister(n)
        registry.register(n, c)
    agg = par.Agg()
    page_loop = Template('{% for item in items %}{% provide "k" ...item %}{% component "c05dump" / %}{% endprovide %}{% endfor %}')
    page_comp = Template('{% component "c05loop" items=items / %}')
    one = Template('{% provide "k" ...item %}{% component "c05dump" / %}{% endprovide %}')

    def run1(label, fn, want, case):
        agg.states += 1
        agg.transitions += 1
        agg.validated += 1
        agg.nontrivial += 1
        agg.expected[label] += 1
        try:
            got = strip_markers(fn())
        except Exception as e:  # noqa
            got = "%s: %s" % (type(e).__name__, str(e)[:150])
            boot.clear_render_registries()
        agg.observe((label, got))
        if got != want:
            agg.fail(f"{mode}:forms:{label}:{case.get('key', '')}", f"[{mode}] {label} {case}: expected {want!r}, got {got!r}", dict(case, part="forms", mode=mode))
        res = residue()
        if res:
            agg.fail(f"{mode}:forms-residue:{label}", f"[{mode}] {label} {case}: provide registries {res} after the render", dict(case, part="forms", mode=mode))
            boot.clear_render_registries()

    for L in (1, 2, 3):
        for seq_ in itertools.product(range(len(FORM_DICTS)), repeat=L):
            items = [dict(FORM_DICTS[i]) for i in seq_]
            want = "".join(_fmt(d) for d in items)
            key = "-".join(map(str, seq_))
            run1("spread-in-loop/page", lambda: page_loop.render(Context({"items": items})), want, {"items": items, "key": key})
            run1("spread-in-loop/component", lambda: page_comp.render(Context({"items": items})), want, {"items": items, "key": key})
            # the same Template object rendered once per item (history over one `{% provide %}` node)
            outs = []
            run1("spread-successive-renders", lambda: "".join(one.render(Context({"item": d})) for d in items), want, {"items": items, "key": key})
    # (2) Python-API render from a slot function below a provider of a component template
    Panel, Host = classes["c05panel"], classes["c05host"]
    for how in ("slot-fn-renders-component", "slot-fn-renders-component-twice", "fill-tag-control"):
        if how == "fill-tag-control":
            fn = lambda: Template('{% component "c05host" %}{% fill "x" %}{% component "c05panel" / %}{% endfill %}{% endcomponent %}').render(Context({}))  # noqa: E731
            want = "[<p>(v=H)</p>|-]"
        elif how == "slot-fn-renders-component":
            fn = lambda: Host.render(slots={"x": lambda ctx, data, ref: Panel.render(context=ctx, render_dependencies=False)}, render_dependencies=False)  # noqa: E731
            want = "[<p>(v=H)</p>|-]"
        else:
            fn = lambda: Host.render(slots={"x": lambda ctx, data, ref: mark_safe(Panel.render(context=ctx, render_dependencies=False) + Panel.render(context=ctx, render_dependencies=False))}, render_dependencies=False)  # noqa: E731
            want = "[<p>(v=H)</p><p>(v=H)</p>|-]"
        run1("python-render-below-provider", fn, want, {"key": how})
    boot.clear_render_registries()
    for n in classes:
        registry.unregister(n)
    return mode, agg


def run(ctx):
    ev = ctx.ev
    ev.rule = ("PROG: every program over text, for, slot, component(fills), provide(k|m) and consumer components with total node count <= N; "
               "non-trivial = has a provider and a consumer. SEQ: all sequences <= 3 over 6 representative pages")
    run_parts(ctx, worker, bounds(ctx.tier))
    for mode in ("django", "isolated"):
        agg = par.run_sharded(family_worker, (ctx.tier, mode))
        ev.add_part(f"family_{mode}", states=agg.states, transitions=agg.transitions, validated=agg.validated, nontrivial=agg.nontrivial,
                    observed_distinct=len(agg.observed), expected=agg.expected,
                    bound={"provider_positions": 5, "consumer_positions": 5, "tier": ctx.tier}, samples=agg.samples[:1])
        ctx.fnd.merge_reports(sorted(agg.failures, key=lambda f: (len(f[2]["page"]), f[0])))
    boot.set_components_setting(context_behavior="django")
    for mode, nseq, ntr, failures, nstates, solo in par.run_tasks(hist_task, ["django", "isolated"]):
        ev.add_part(f"histories_{mode}", states=nseq, transitions=ntr, validated=ntr, nontrivial=nseq - len(HIST_PAGES),
                    observed_distinct=len(set(solo)), bound={"depth": 3, "pages": len(HIST_PAGES)},
                    samples=[{"mode": mode, "history": [HIST_PAGES[0], HIST_PAGES[2], HIST_PAGES[1]]}])
        ctx.fnd.merge_reports(failures)
    for mode, agg in par.run_tasks(forms_task, ["django", "isolated"]):
        ev.add_part(f"forms_{mode}", states=agg.states, transitions=agg.transitions, validated=agg.validated, nontrivial=agg.nontrivial,
                    observed_distinct=len(agg.observed), expected=agg.expected,
                    bound={"spread_dicts": [_fmt(d) for d in FORM_DICTS], "sequence_len": 3, "routes": ["loop on the page", "loop in a component", "successive renders of one Template"],
                           "python_render_below_provider": ["slot function renders a component with the Context it receives", "twice", "fill tag (control)"]},
                    samples=[{"items": [{"a": 1, "b": 2}, {"b": 3, "a": 4}], "expect": "(a=1,b=2)(a=4,b=3)"}])
        ctx.fnd.merge_reports(agg.failures[:20])
    ev.assumptions = ["provide tags between a component tag and its fill are outside the profile",
                      "provider chain = render nesting (page -> component template -> slot -> fill content)"]


def replay(ctx, case):
    mode = case["mode"]
    boot.set_components_setting(context_behavior=mode)
    if case.get("part") == "family":
        provs = tuple(tuple(p) if p else None for p in case["providers"])
        prog = family_program(provs, tuple(case["consumers"]))
        h = Harness()
        h.install(prog, extra_attrs=side_attrs(prog, *case["side"]) if case.get("side") else None)
        exp, _ = model_outcome(prog, mode)
        obs = h.render_page(prog)
        res = residue()
        boot.clear_render_registries()
        h.uninstall()
        if case.get("side"):
            print("side:      unrelated %s render inside every on_render_%s hook" % (case["side"][1], case["side"][0]))
        print("page:     ", prog.page_source())
        for n, c in prog.comps.items():
            print(f"comp {n}:   ", c.source())
        print("expected: ", exp)
        print("observed: ", (obs[0], strip_markers(obs[1])) if obs[0] == "ok" else obs, "residue:", res)
        return compare_outcome(exp, obs) is None and not (obs[0] == "ok" and res)
    if case.get("part") == "forms":
        _, agg = forms_task(mode)
        for f in agg.failures[:8]:
            print(f[1])
        return not agg.failures
    if case.get("part") == "history":
        _, nseq, ntr, failures, _, solo = hist_task(mode)
        for f in failures:
            print(f[1])
        return not failures
    prog = prog_from_spec(case["spec"], make_spec)
    h = Harness()
    h.install(prog)
    exp, _ = model_outcome(prog, mode)
    obs = h.render_page(prog)
    res = residue()
    boot.clear_render_registries()
    h.uninstall()
    print("page:     ", prog.page_source())
    for n, c in prog.comps.items():
        print(f"comp {n}:   ", c.source())
    print("expected: ", exp)
    print("observed: ", (obs[0], strip_markers(obs[1])) if obs[0] == "ok" else obs, "residue:", res)
    return compare_outcome(exp, obs) is None and not (obs[0] == "ok" and res)
