"""C03 - variable scoping follows the configured context behaviour (PROG, scoping family).

Unit of enumeration: page -> outer component -> inner component with a slot, i.e. the smallest
structure in which every scoping rule of the statement is observable.  Enumerated exhaustively:
  * for each variable *role* (page variable, `with` around the outer tag, outer data, `with`
    around the inner tag, inner data, binding between inner tag and fill (for / with), slot data,
    `with` around the slot) which of the names {x, y} it binds or none  -> all colliding and
    non-colliding assignments;
  * kwargs passing (k=x evaluated in the caller's scope) on either tag, the `only` flag on
    either tag, body kind of the inner tag (none / implicit / fill with optional data= and
    default= aliases), placement of the unit (outer on the page, or the unit one level deeper);
  * two page contexts that differ only in values (2-run non-interference);
every position (outer template, inner template, fill, slot default) reads every name; each
value encodes the role that bound it, so a mismatch names the precedence pair that is wrong.
Oracle: the reference interpreter of mc/prog.py, which implements exactly the statement
(isolated/only: own data only, fills lexically scoped + enclosing loops + aliases; django: own
data over surroundings, fills see aliases > inner data > between-bindings > outer variables),
plus: the caller's Context (dicts, flatten(), render_context depth) is unchanged by the render.

Loop-state family: fills generated inside 1-3 nested loops between the tag and the fill (dynamic fill names), the
tag inside 0-2 further loops; every fill prints its loop variables and the whole forloop / parentloop counter chain -
the state of the enclosing loops *at the position of the fill* - against plain Python loops.

Assign family: the binding between tag and fill is made by a tag that assigns into the current layer (`firstof .. as`,
`cycle .. as .. silent`) - directly in the body, inside `{% if %}` / `{% for %}`, colliding with a page variable or an
outer `with` - and must behave like the `with` spelling.

Agnostic corners kept out of every verdict (DESIGN C03 i-vi): loop variables around a component
tag (only `with` is used there); `with` between tag and fill in isolated mode when its name
collides; fills of a component called with `only` in django mode; bindings around the slot are
read only by the slot's own content (name z); slot content re-emitted through default= reads only
z; alias objects are read by key only.
"""
from __future__ import annotations

import itertools

from mc import boot, par
from mc.prog import CompSpec, Harness, Program, strip_markers
from mc.progrun import compare_outcome, model_outcome

PID = "C03"
LEVEL = "model_checking"
DJANGO = {}

NAMES = ("x", "y")
BIND = (None, "x", "y")


def val(role, name):
    return role.upper() if name == "x" else role.lower()


def reads(tag, extra=(), skip=()):
    nodes = [("T", "[%s " % tag)]
    for n in tuple(n for n in ("x", "y", "z", "k") if n not in skip) + tuple(extra):
        nodes += [("T", n + "="), ("V", n), ("T", ";")]
    nodes.append(("T", "]"))
    return tuple(nodes)


def wrap_with(name, value, nodes):
    if name is None:
        return tuple(nodes)
    return (("With", name, "'%s'" % value, tuple(nodes)),)


def data_spec(role, bound, passes):
    d = {}
    if bound:
        d[bound] = ("const", val(role, bound))
    if passes:
        d["k"] = ("kwarg", "k", "nok")
    return d


class Case:
    """one member of the family; fields are the enumerated choices"""

    __slots__ = ("p", "w", "o", "v", "i", "b", "bkind", "s", "n", "pass_o", "pass_i", "only_o", "only_i", "body", "data_alias", "default_alias", "deep", "loop", "vloop", "alias_x")

    def key(self):
        return tuple(getattr(self, f) for f in self.__slots__)

    def describe(self):
        return {f: getattr(self, f) for f in self.__slots__}


def build(case, ctxvals):
    """-> Program"""
    c = case
    # inner template: reads, then [with z around] slot with optional slot data
    slot_data = (("sx", "'%s'" % val("s", c.s)),) if c.s else ()
    if c.body == "fill" and c.default_alias:
        default_body = (("T", "[default z="), ("V", "z"), ("T", ";]"))
    else:
        default_body = reads("default")
    slot = ("Slot", "s", "", slot_data, default_body)
    vloop = getattr(c, "vloop", None)
    # agnostic corner (i): the variable of a loop around a component tag is (deliberately) visible inside the
    # isolated component; the inner template therefore does not read that name
    inner_tpl = reads("inner", skip=(vloop,) if vloop else ()) + wrap_with("z" if c.n else None, "N", [slot])
    inner = CompSpec("inner", inner_tpl, data_spec("i", c.i, c.pass_i))
    # inner tag inside the outer template
    if c.body == "none":
        body = None
    elif c.body == "implicit":
        body = reads("fill")
    else:
        # alias_x: the data= alias is called `x` (resp. the default= alias `y`) - a name that other roles bind too;
        # the aliases sit on top of everything else in both modes
        ax = getattr(c, "alias_x", False)
        dname = "x" if (ax and c.data_alias) else "d"
        dfname = "y" if (ax and c.default_alias) else "df"
        skip = tuple(n for n, used in (("x", ax and c.data_alias), ("y", ax and c.default_alias)) if used)
        fill_nodes = list(reads("fill", skip=skip))
        if c.data_alias:
            fill_nodes += [("T", "d.sx="), ("V", dname + ".sx"), ("T", ";")]
        if c.default_alias:
            fill_nodes += [("D", dfname)]
        fill = ("Fill", "s", dname if c.data_alias else None, dfname if c.default_alias else None, tuple(fill_nodes))
        if c.b is None:
            body = (fill,)
        elif c.bkind == "for":
            body = (("For", c.b, val("b", c.b), (fill,)),)
        elif c.bkind == "for>with":  # loop outside, with inside: the with is nearer
            body = (("For", c.b, val("b", c.b), (("With", c.b, "'%s'" % val("c", c.b), (fill,)),)),)
        elif c.bkind == "with>for":
            body = (("With", c.b, "'%s'" % val("c", c.b), (("For", c.b, val("b", c.b), (fill,)),)),)
        else:
            body = (("With", c.b, "'%s'" % val("b", c.b), (fill,)),)
    inner_tag = ("Comp", "inner", ((("k", "x"),) if c.pass_i else ()), c.only_i, body)
    around_inner = wrap_with(c.v, val("v", c.v) if c.v else None, [inner_tag])
    if vloop:  # a loop around the (with around the) inner tag, binding a name that fills read
        around_inner = (("For", vloop, val("l", vloop), tuple(around_inner)),)
    outer_tpl = reads("outer") + tuple(around_inner)
    outer = CompSpec("outer", outer_tpl, data_spec("o", c.o, c.pass_o))
    outer_tag = ("Comp", "outer", ((("k", "x"),) if c.pass_o else ()), c.only_o, None)
    page_nodes = wrap_with(c.w, val("w", c.w) if c.w else None, [outer_tag])
    if getattr(c, "loop", False):
        # an enclosing loop whose variable nobody reads (agnostic corner i): only its *presence* matters
        page_nodes = (("For", "u", "1", tuple(page_nodes)),)
        if c.loop in NAMES:
            # two nested loops: the OUTER one binds a name everybody reads.  Only the innermost loop's layer is the
            # agnostic corner (i); a farther loop's variable is an ordinary surrounding variable
            page_nodes = (("For", c.loop, val("m", c.loop), tuple(page_nodes)),)
    comps = {"outer": outer, "inner": inner}
    if c.deep:
        # one level deeper: the page renders `top`, whose template holds the unit
        top = CompSpec("top", reads("top") + tuple(page_nodes), {"x": ("const", "T"), "q": ("const", "tq")} if c.deep == "data" else {})
        comps["top"] = top
        page_nodes = (("Comp", "top", (), False, None),)
    ctx = {}
    if c.p:
        ctx[c.p] = ctxvals[0] if c.p == "x" else ctxvals[1]
    ctx["q"] = ctxvals[2]
    return Program(tuple(page_nodes), comps, ctx)


def cases(tier, mode):
    """deterministic enumeration of the family for one mode"""
    thorough = tier == "thorough"
    for body in ("none", "implicit", "fill"):
        for only_i in (False, True):
            if mode == "django" and only_i and body != "none":
                continue  # agnostic (iii)
            for only_o in (False, True):
                for deep in ((None, "plain", "data") if thorough else (None, "data")):
                    for pass_o, pass_i in (((False, False), (True, False), (False, True), (True, True)) if thorough else ((False, False), (True, True))):
                        for p, o, i in itertools.product(BIND, BIND, BIND):
                            for w, v in (itertools.product(BIND, BIND) if thorough else ((None, None), ("x", None), (None, "x"), ("y", "x"))):
                                b_opts = [(None, None)]
                                alias_opts = [(False, False)]
                                s_opts = [None]
                                if body == "fill":
                                    b_opts = [(None, None), ("x", "for"), ("y", "for")]
                                    for nm in NAMES:
                                        # agnostic (ii): `with` between tag and fill in isolated mode only when it collides with nothing
                                        collides = nm in (p, o, i, w, v)
                                        if mode == "django" or not collides:
                                            b_opts.append((nm, "with"))
                                    if mode == "django" or not any(nm in (p, o, i, w, v) for nm in ("x",)):
                                        b_opts += [("x", "for>with"), ("x", "with>for")]
                                    alias_opts = [(False, False), (True, False), (False, True), (True, True)]
                                    s_opts = [None, "x"]
                                for (b, bkind), (da, dfa), s in itertools.product(b_opts, alias_opts, s_opts):
                                    if s and not da:
                                        continue
                                    for n in ((False, True) if (thorough or (b is None and not da)) else (False,)):
                                        c = Case()
                                        c.p, c.w, c.o, c.v, c.i, c.b, c.bkind, c.s, c.n = p, w, o, v, i, b, bkind, s, n
                                        c.pass_o, c.pass_i, c.only_o, c.only_i = pass_o, pass_i, only_o, only_i
                                        c.body, c.data_alias, c.default_alias, c.deep = body, da, dfa, deep
                                        c.loop = False
                                        c.vloop = None
                                        c.alias_x = False
                                        yield c
                                        if (da or dfa) and (thorough or (deep is None and not pass_o)):
                                            c4 = Case()
                                            for f in Case.__slots__:
                                                setattr(c4, f, getattr(c, f))
                                            c4.alias_x = True
                                            yield c4
                                        if body == "fill" and not only_i and (thorough or (not da and not dfa and not pass_o and not pass_i and deep is None)):
                                            # a loop around the inner tag (outside the with around it) binding a name the fill reads
                                            for vl in (("x", "y") if thorough else ("x",)):
                                                c3 = Case()
                                                for f in Case.__slots__:
                                                    setattr(c3, f, getattr(c, f))
                                                c3.vloop = vl
                                                c3.alias_x = False
                                                yield c3
                                        if (thorough or (not da and not dfa and b is None)) and (w or o):
                                            # the same unit inside a {% for %}: with-bindings and enclosing component data
                                            # sit right above the loop layer
                                            c2 = Case()
                                            for f in Case.__slots__:
                                                setattr(c2, f, getattr(c, f))
                                            c2.loop = True
                                            c2.vloop = None
                                            c2.alias_x = False
                                            yield c2
                                        if thorough or (not da and not dfa and b is None and not pass_o):
                                            for nl in (("x", "y") if thorough else ("x",)):
                                                c5 = Case()
                                                for f in Case.__slots__:
                                                    setattr(c5, f, getattr(c, f))
                                                c5.loop = nl
                                                c5.vloop = None
                                                c5.alias_x = False
                                                yield c5


# ------------------------------------------------------------------ pass-through family
class PCase:
    """page -> outer(A) -> inner(B); A renders its own slot `t` inside the fill it hands to B's slot `s`,
    and the page fills `t` with a binding between A's tag and the fill: the owner of slot `t` (A) appears
    twice in the render nesting."""

    __slots__ = ("p", "o", "i", "b", "bkind", "data_alias", "only_o", "deep", "v")

    def describe(self):
        d = {f: getattr(self, f) for f in self.__slots__}
        d["family"] = "passthrough"
        return d


def build_passthrough(c, ctxvals):
    slot_t = ("Slot", "t", "", ((("sx", "'S'"),) if c.data_alias else ()), reads("tdefault"))
    fill_s = ("Fill", "s", None, None, reads("sfill") + (slot_t,))
    inner = CompSpec("inner", reads("inner") + (("Slot", "s", "", (), reads("sdefault")),), data_spec("i", c.i, False))
    inner_tag = ("Comp", "inner", (), False, (fill_s,))
    outer = CompSpec("outer", reads("outer") + wrap_with(c.v, val("v", c.v) if c.v else None, [inner_tag]), data_spec("o", c.o, False))
    fill_nodes = list(reads("tfill"))
    if c.data_alias:
        fill_nodes += [("T", "d.sx="), ("V", "d.sx"), ("T", ";")]
    fill_t = ("Fill", "t", "d" if c.data_alias else None, None, tuple(fill_nodes))
    if c.b is None:
        body = (fill_t,)
    elif c.bkind == "for":
        body = (("For", c.b, val("b", c.b), (fill_t,)),)
    else:
        body = (("With", c.b, "'%s'" % val("b", c.b), (fill_t,)),)
    page_nodes = (("Comp", "outer", (), c.only_o, body),)
    comps = {"outer": outer, "inner": inner}
    if c.deep:
        comps["top"] = CompSpec("top", reads("top") + tuple(page_nodes), {"x": ("const", "T")})
        page_nodes = (("Comp", "top", (), False, None),)
    ctx = {}
    if c.p:
        ctx[c.p] = ctxvals[0] if c.p == "x" else ctxvals[1]
    ctx["q"] = ctxvals[2]
    return Program(tuple(page_nodes), comps, ctx)


def passthrough_cases(tier, mode):
    for p, o, i, v in itertools.product(BIND, BIND, BIND, BIND):
        for only_o in (False, True):
            if mode == "django" and only_o:
                continue  # agnostic (iii)
            for deep in (None, "data"):
                b_opts = [(None, None), ("x", "for"), ("y", "for")]
                for nm in NAMES:
                    collides = nm in (p, o, i, v)
                    if mode == "django" or not collides:
                        b_opts.append((nm, "with"))
                for (b, bkind), da in itertools.product(b_opts, (False, True)):
                    c = PCase()
                    c.p, c.o, c.i, c.v, c.b, c.bkind, c.data_alias, c.only_o, c.deep = p, o, i, v, b, bkind, da, only_o, deep
                    yield c


def classify(exp_out, got_out):
    """identity of a mismatch: first differing read -> position, name, expected role value, observed"""
    import re

    pe = re.findall(r"\[(\w+) ([^\]]*)\]", exp_out)
    pg = re.findall(r"\[(\w+) ([^\]]*)\]", got_out)
    if len(pe) != len(pg):
        return "structure"
    for (te, be), (tg, bg) in zip(pe, pg):
        if te != tg:
            return "structure"
        if be != bg:
            fe = dict(kv.split("=", 1) for kv in be.split(";") if "=" in kv)
            fg = dict(kv.split("=", 1) for kv in bg.split(";") if "=" in kv)
            for k in fe:
                if fe.get(k) != fg.get(k):
                    return f"{te}:{k}:expected={fe.get(k) or 'empty'}:got={fg.get(k) or 'empty'}"
    return "other"


def context_probe(prog, h):
    """render with an explicit Context and report any change to it"""
    from django.template import Context, Template

    ctx = Context(dict(prog.ctx))
    before = (len(ctx.dicts), ctx.flatten(), len(ctx.render_context.dicts))
    Template(prog.page_source()).render(ctx)
    after = (len(ctx.dicts), ctx.flatten(), len(ctx.render_context.dicts))
    if before != after:
        return f"caller Context changed: dicts {before[0]}->{after[0]}, render_context {before[2]}->{after[2]}, flatten equal={before[1] == after[1]}"
    return None


def build_any(case, ctxvals):
    return build_passthrough(case, ctxvals) if isinstance(case, PCase) else build(case, ctxvals)


def worker(w, W, payload):
    tier, mode = payload
    boot.set_components_setting(context_behavior=mode)
    h = Harness()
    agg = par.Agg()
    i = -1
    for case in itertools.chain(cases(tier, mode), passthrough_cases(tier, mode)):
        i += 1
        if i % W != w:
            continue
        agg.states += 1
        roles = (case.p, getattr(case, "w", None), case.o, case.v, case.i, case.b)
        collide = len([r for r in roles if r == "x"]) > 1 or len([r for r in roles if r == "y"]) > 1
        if collide:
            agg.nontrivial += 1
        for run, ctxvals in enumerate((("P", "p", "q1"), ("R", "r", "q2"))):
            prog = build_any(case, ctxvals)
            exp, _ = model_outcome(prog, mode)
            if run == 0:
                h.install(prog)
                agg.expected[exp[0]] += 1
            obs = h.render_page(prog)
            agg.transitions += 1
            agg.validated += 1
            if obs[0] == "ok":
                agg.observe(obs[1])
            bad = compare_outcome(exp, obs)
            if bad:
                got = strip_markers(obs[1]) if obs[0] == "ok" else repr(obs)
                ident = classify(exp[1], got) if (exp[0] == "ok" and obs[0] == "ok") else f"error:{obs[1] if obs[0] == 'err' else obs[0]}"
                agg.fail(f"{mode}:{ident}", f"[{mode}] {bad[1]}", {"mode": mode, "case": case.describe(), "ctxvals": list(ctxvals),
                                                                    "page": prog.page_source(), "components": {n: c.source() for n, c in prog.comps.items()}})
                break
        else:
            if agg.states % 7 == 0:
                prob = context_probe(build_any(case, ("P", "p", "q1")), h)
                agg.transitions += 1
                if prob:
                    agg.fail(f"{mode}:caller-context", f"[{mode}] {prob}", {"mode": mode, "case": case.describe(), "ctxvals": ["P", "p", "q1"]})
        boot.clear_render_registries()
        if agg.states == 11 and w == 3:
            prog = build_any(case, ("P", "p", "q1"))
            agg.sample({"mode": mode, "case": case.describe(), "page": prog.page_source(), "components": {n: c.source() for n, c in prog.comps.items()}})
    h.uninstall()
    return agg


# ------------------------------------------------------------------ loop-state family
# "fill content ... evaluates as it would at the position of the {% component %} tag, extended only by its enclosing
# loops": the *state* of those loops (loop variable, forloop.counter, forloop.parentloop...counter) is part of that.
# Fills are generated inside d_in (0-3) nested loops written between the component tag and the fill (dynamic fill names),
# the tag itself sits inside d_out loops; every fill prints the whole counter chain it sees.  The component's template
# prints its slots in reverse order, optionally from inside a loop of its own, optionally the component is nested in
# another component (deferred render).  Expected text is computed with plain Python loops.
LS_ITEMS = ("a", "b")


def loopstate_cases(tier):
    thorough = tier == "thorough"
    for d_in in (0, 1, 2, 3):
        for d_out in (0, 1, 2, 3):
            if d_in + d_out > (4 if thorough else 3) or d_in + d_out == 0:
                continue
            for with_between in (False, True):
                for slot_in_loop in (False, True):
                    for nested in (False, True):
                        for only in (False, True):
                            for top in (False, True):
                                # top: the whole page is the template of a component, so every loop runs inside a (deferred)
                                # component render and the inner components are rendered after the loops have finished
                                yield {"d_in": d_in, "d_out": d_out, "with_between": with_between, "slot_in_loop": slot_in_loop,
                                       "nested": nested, "only": only, "top": top}


def loopstate_build(c):
    """-> (page source, {component name: template}, expected output)"""
    d_in, d_out = c["d_in"], c["d_out"]
    depth = d_in + d_out
    chain = "/".join("{{ forloop." + "parentloop." * k + "counter }}" for k in range(depth))
    names_in = ["i%d" % k for k in range(d_in)]
    # d_in == 0: one statically named fill directly in the body; it reads the state of the loops AROUND the tag only
    name_expr = (names_in[0] + "".join("|add:" + n for n in names_in[1:])) if d_in else "'z'"
    wsrc = names_in[-1] if d_in else "'z'"
    body = "{% fill name=" + name_expr + " %}<" + ("".join("{{ %s }}" % n for n in names_in) or "z") + ":" + chain + ("+{{ w }}" if c["with_between"] else "") + ">{% endfill %}"
    if c["with_between"]:
        body = "{% with w=" + wsrc + " %}" + body + "{% endwith %}"
    for n in reversed(names_in):
        body = "{% for " + n + " in items %}" + body + "{% endfor %}"
    tag = "{% component 'ls_c' " + ("only " if c["only"] else "") + "%}" + body + "{% endcomponent %}"
    if c["nested"]:
        tag = "{% component 'ls_wrap' %}" + tag + "{% endcomponent %}"
    page = "{{ o0 }}" .replace("{{ o0 }}", "") + tag
    for k in range(d_out):
        page = "{% for o" + str(k) + " in items %}" + page + "{% endfor %}"
    # component template: slots in reverse lexicographic order
    slot_names = ["".join(t) for t in itertools.product(LS_ITEMS, repeat=d_in)] if d_in else ["z"]
    if c["slot_in_loop"]:
        tpl = "{% for sn in slot_names %}{% slot sn / %}{% endfor %}"
    else:
        tpl = "".join("{% slot '" + n + "' / %}" for n in reversed(slot_names))
    comps = {"ls_c": tpl, "ls_wrap": "(W{% slot 'default' default / %})"}
    if c.get("top"):
        comps["ls_top"] = page
        page = "{% component 'ls_top' / %}"

    def counters(idx_in, idx_out):
        # innermost first: inner loops reversed, then the loops around the tag reversed
        seq_ = list(reversed(idx_in)) + list(reversed(idx_out))
        return "/".join(str(i + 1) for i in seq_)

    out = []
    for idx_out in itertools.product(range(len(LS_ITEMS)), repeat=d_out):
        piece = []
        for name in reversed(slot_names):
            idx_in = [LS_ITEMS.index(ch) for ch in name] if d_in else []
            piece.append("<" + name + ":" + counters(idx_in, idx_out) + ("+" + name[-1] if c["with_between"] else "") + ">")
        txt = "".join(piece)
        out.append("(W" + txt + ")" if c["nested"] else txt)
    return page, comps, "".join(out)


def loopstate_run(c, mode):
    from django.template import Context, Template

    from django_components import Component
    from django_components.component_registry import registry

    page, comps, want = loopstate_build(c)
    slot_names = ["".join(t) for t in itertools.product(LS_ITEMS, repeat=c["d_in"])] if c["d_in"] else ["z"]

    def gcd(self, **kw):
        return {"slot_names": list(reversed(slot_names)), "items": list(LS_ITEMS)}

    for name, tpl in comps.items():
        if name in registry.all():
            registry.unregister(name)
        registry.register(name, type("LS_" + name, (Component,), {"template": tpl, "get_context_data": gcd, "__module__": "verif_c03"}))
    try:
        got = ("ok", strip_markers(Template(page).render(Context({"items": list(LS_ITEMS)}))))
    except Exception as e:  # noqa
        got = ("err", type(e).__name__, str(e)[:200])
    boot.clear_render_registries()
    for name in comps:
        registry.unregister(name)
    return page, comps, want, got


def loopstate_worker(w, W, payload):
    tier, mode = payload
    boot.set_components_setting(context_behavior=mode)
    agg = par.Agg()
    for i, c in enumerate(loopstate_cases(tier)):
        if i % W != w:
            continue
        if mode == "django" and c["only"]:
            continue  # agnostic (iii): fills of a component called with `only` in django mode
        if mode == "django" and c["slot_in_loop"]:
            continue  # agnostic (iv): a loop around the slot inside the component's template binds `forloop` too
        agg.states += 1
        agg.transitions += 1
        page, comps, want, got = loopstate_run(c, mode)
        agg.validated += 1
        if c["d_in"] + c["d_out"] >= 2:
            agg.nontrivial += 1
        agg.expected["depth_in=%d,out=%d" % (c["d_in"], c["d_out"])] += 1
        agg.observe(got)
        if got != ("ok", want):
            agg.fail(f"{mode}:loop-state:in={c['d_in']},out={c['d_out']}" + (",with" if c["with_between"] else "") + (",nested" if c["nested"] else "") + (",top" if c.get("top") else ""),
                     f"[{mode}] page {page!r} with ls_c = {comps['ls_c']!r}: expected {want!r}, got {got!r}",
                     {"mode": mode, "family": "loopstate", "case": c, "page": page})
    return agg


# ------------------------------------------------------------------ assign family
# Variables bound between the component tag and the fill by tags that ASSIGN into the current layer (`{% firstof .. as x %}`,
# `{% cycle .. as x silent %}`) instead of pushing one (`{% with %}`): the fill must see them exactly like the `with` spelling.
AS_KINDS = {"firstof_as": "{% firstof 'A' as x %}", "cycle_as": "{% cycle 'A' 'B' as x silent %}", "with": None}
AS_WRAPS = {"direct": ("", ""), "in_if": ("{% if 1 %}", "{% endif %}"), "in_for": ("{% for q in one %}", "{% endfor %}")}
AS_COLLIDE = (None, "page", "outer_with")


def assign_cases():
    for kind in AS_KINDS:
        for wrap in AS_WRAPS:
            for collide in AS_COLLIDE:
                for nested in (False, True):
                    yield {"kind": kind, "wrap": wrap, "collide": collide, "nested": nested}


def assign_run(c, mode):
    from django.template import Context, Template

    from django_components import Component
    from django_components.component_registry import registry

    fill = "{% fill 's' %}[{{ x }}]{% endfill %}"
    inner = ("{% with x='A' %}" + fill + "{% endwith %}") if c["kind"] == "with" else AS_KINDS[c["kind"]] + fill
    pre, post = AS_WRAPS[c["wrap"]]
    tag = "{% component 'as_c' %}" + pre + inner + post + "{% endcomponent %}"
    if c["collide"] == "outer_with":
        tag = "{% with x='W' %}" + tag + "{% endwith %}"
    if c["nested"]:
        tag = "{% component 'as_wrap' %}" + tag + "{% endcomponent %}"
    want = "(W<[A]>)" if c["nested"] else "<[A]>"
    comps = {"as_c": "<{% slot 's' / %}>", "as_wrap": "(W{% slot 'default' default / %})"}
    for name, tpl in comps.items():
        if name in registry.all():
            registry.unregister(name)
        registry.register(name, type("AS_" + name, (Component,), {"template": tpl, "__module__": "verif_c03"}))
    ctx = {"one": [1]}
    if c["collide"] == "page":
        ctx["x"] = "P"
    try:
        got = ("ok", strip_markers(Template(tag).render(Context(ctx))))
    except Exception as e:  # noqa
        got = ("err", type(e).__name__, str(e)[:200])
    boot.clear_render_registries()
    for name in comps:
        registry.unregister(name)
    return tag, want, got


def assign_task(mode):
    boot.set_components_setting(context_behavior=mode)
    agg = par.Agg()
    for c in assign_cases():
        agg.states += 1
        agg.transitions += 1
        tag, want, got = assign_run(c, mode)
        agg.validated += 1
        if c["kind"] != "with":
            agg.nontrivial += 1
        agg.expected[c["kind"]] += 1
        agg.observe((c["kind"], got))
        if got != ("ok", want):
            agg.fail(f"{mode}:assign:{c['kind']}:{c['wrap']}" + (":collide=" + c["collide"] if c["collide"] else "") + (":nested" if c["nested"] else ""),
                     f"[{mode}] page {tag!r}: expected {want!r}, got {got!r}", {"mode": mode, "family": "assign", "case": c, "page": tag})
    return mode, agg


# ------------------------------------------------------------------ assign-after family
# An in-place assignment written AFTER a component tag (in the same template) must not reach that component or its fill: both
# are evaluated as at the position of the tag, although a nested component is rendered later (deferred).  Control: the same
# assignment written BEFORE the tag is seen.
AFTER_KINDS = {"none": "", "firstof_as": "{% firstof 'L' as z %}", "cycle_as": "{% cycle 'L' 'M' as z silent %}", "with_block": "{% with z='L' %}{% endwith %}"}
AFTER_ROUTES = ("host", "page", "wrapped_host", "host_in_loop")


def after_cases():
    for kind in AFTER_KINDS:
        for pos in ("after", "before"):
            for route in AFTER_ROUTES:
                for body in ("fill", "implicit"):
                    yield {"kind": kind, "pos": pos, "route": route, "body": body}


def after_run(c, mode):
    from django.template import Context, Template

    from django_components import Component
    from django_components.component_registry import registry

    body = "{% fill 's' %}[{{ z }}]{% endfill %}" if c["body"] == "fill" else "[{{ z }}]"
    tag = "{% component 'af_c' %}" + body + "{% endcomponent %}"
    assign = AFTER_KINDS[c["kind"]]
    host_tpl = (tag + assign) if c["pos"] == "after" else (assign + tag)
    seen = "L" if (c["pos"] == "before" and c["kind"] in ("firstof_as", "cycle_as")) else "h"
    inner_sees = seen if mode == "django" else ""
    one = "<%s|[%s]>" % (inner_sees, seen)
    comps = {"af_c": ("<{{ z }}|{% slot 's' default / %}>", None), "af_host": (host_tpl, {"z": "h"}), "af_wrap": ("(W{% slot 'default' default / %})", None)}
    for name, (tpl, data) in comps.items():
        if name in registry.all():
            registry.unregister(name)
        attrs = {"template": tpl, "__module__": "verif_c03"}
        if data is not None:
            attrs["get_context_data"] = lambda self, _d=data, **kw: dict(_d)
        registry.register(name, type("AF_" + name, (Component,), attrs))
    if c["route"] == "host":
        page, ctx, want = "{% component 'af_host' / %}", {}, one
    elif c["route"] == "page":
        page, ctx, want = host_tpl, {"z": "h"}, one
    elif c["route"] == "wrapped_host":
        page, ctx, want = "{% component 'af_wrap' %}{% component 'af_host' / %}{% endcomponent %}", {}, "(W" + one + ")"
    else:
        page, ctx, want = "{% for q in two %}{% component 'af_host' / %}{% endfor %}", {"two": [1, 2]}, one + one
    try:
        got = ("ok", strip_markers(Template(page).render(Context(ctx))))
    except Exception as e:  # noqa
        got = ("err", type(e).__name__, str(e)[:200])
    boot.clear_render_registries()
    for name in comps:
        registry.unregister(name)
    return page + "  with host template " + repr(host_tpl), want, got


def after_task(mode):
    boot.set_components_setting(context_behavior=mode)
    agg = par.Agg()
    for c in after_cases():
        agg.states += 1
        agg.transitions += 1
        page, want, got = after_run(c, mode)
        agg.validated += 1
        if c["kind"] in ("firstof_as", "cycle_as"):
            agg.nontrivial += 1
        agg.expected[c["kind"] + "/" + c["pos"]] += 1
        agg.observe((c["kind"], c["pos"], got))
        if got != ("ok", want):
            agg.fail(f"{mode}:assign-after:{c['kind']}:{c['pos']}:{c['route']}:{c['body']}",
                     f"[{mode}] page {page}: expected {want!r}, got {got!r}", {"mode": mode, "family": "assign_after", "case": c, "page": page})
    return mode, agg


def run(ctx):
    ev = ctx.ev
    ev.rule = ("scoping family page -> outer -> inner(slot): all assignments of the names {x,y} to 8 binding roles x kwargs passing x only flags x body kinds x "
               "aliases x placement x 2 page contexts; non-trivial = at least two roles bind the same name")
    for mode in ("django", "isolated"):
        agg = par.run_sharded(worker, (ctx.tier, mode))
        ev.add_part(f"family_{mode}", states=agg.states, transitions=agg.transitions, validated=agg.validated, nontrivial=agg.nontrivial,
                    observed_distinct=len(agg.observed), expected=agg.expected, bound={"names": 2, "roles": 8, "tier": ctx.tier}, samples=agg.samples[:1])
        ctx.fnd.merge_reports(sorted(agg.failures, key=lambda f: (len(f[2].get("page", "")), f[0])))
    for mode in ("django", "isolated"):
        agg = par.run_sharded(loopstate_worker, (ctx.tier, mode))
        ev.add_part(f"loop_state_{mode}", states=agg.states, transitions=agg.transitions, validated=agg.validated, nontrivial=agg.nontrivial,
                    observed_distinct=len(agg.observed), expected=agg.expected,
                    bound={"loops_between_tag_and_fill": "1..3", "loops_around_tag": "0..2", "total_depth": 4 if ctx.tier == "thorough" else 3,
                           "with_between": 2, "slot_in_loop": 2, "nested_in_component": 2, "only": 2, "items_per_loop": len(LS_ITEMS)},
                    samples=[{"page": loopstate_build({"d_in": 2, "d_out": 0, "with_between": False, "slot_in_loop": False, "nested": False, "only": False})[0]}])
        ctx.fnd.merge_reports(sorted(agg.failures, key=lambda f: (len(f[2].get("page", "")), f[0])))
    for mode, agg in par.run_tasks(after_task, ["django", "isolated"]):
        ev.add_part(f"assign_after_{mode}", states=agg.states, transitions=agg.transitions, validated=agg.validated, nontrivial=agg.nontrivial,
                    observed_distinct=len(agg.observed), expected=agg.expected,
                    bound={"assignments": list(AFTER_KINDS), "position": ["after", "before"], "routes": list(AFTER_ROUTES), "bodies": ["fill", "implicit"]},
                    samples=[{"host": "{% component 'af_c' %}{% fill 's' %}[{{ z }}]{% endfill %}{% endcomponent %}{% firstof 'L' as z %}", "expect": "<h|[h]>"}])
        ctx.fnd.merge_reports(agg.failures)
    for mode, agg in par.run_tasks(assign_task, ["django", "isolated"]):
        ev.add_part(f"assign_between_{mode}", states=agg.states, transitions=agg.transitions, validated=agg.validated, nontrivial=agg.nontrivial,
                    observed_distinct=len(agg.observed), expected=agg.expected,
                    bound={"kinds": list(AS_KINDS), "wraps": list(AS_WRAPS), "collisions": [str(x) for x in AS_COLLIDE], "nested": 2})
        ctx.fnd.merge_reports(sorted(agg.failures, key=lambda f: (len(f[2].get("page", "")), f[0])))
    boot.set_components_setting(context_behavior="django")
    ev.assumptions = ["the six agnostic corners of DESIGN C03 are kept out of the generator", "two names, one slot, nesting depth 2-3"]


def replay(ctx, case):
    mode = case["mode"]
    boot.set_components_setting(context_behavior=mode)
    if case.get("family") == "assign_after":
        page, want, got = after_run(case["case"], mode)
        print("page:", page)
        print("expected:", want, " got:", got)
        return got == ("ok", want)
    if case.get("family") == "assign":
        tag, want, got = assign_run(case["case"], mode)
        print("page:    ", tag)
        print("expected:", want)
        print("observed:", got)
        return got == ("ok", want)
    if case.get("family") == "loopstate":
        page, comps, want, got = loopstate_run(case["case"], mode)
        print("page:    ", page)
        print("ls_c:    ", comps["ls_c"])
        print("expected:", want)
        print("observed:", got)
        return got == ("ok", want)
    c = PCase() if case["case"].get("family") == "passthrough" else Case()
    for k, v in case["case"].items():
        if k != "family":
            setattr(c, k, v)
    prog = build_any(c, tuple(case["ctxvals"]))
    h = Harness()
    h.install(prog)
    exp, _ = model_outcome(prog, mode)
    obs = h.render_page(prog)
    boot.clear_render_registries()
    h.uninstall()
    print("context:  ", prog.ctx)
    print("page:     ", prog.page_source())
    for n, cs in prog.comps.items():
        print(f"comp {n}:", cs.source())
    print("expected: ", exp)
    print("observed: ", (obs[0], strip_markers(obs[1])) if obs[0] == "ok" else obs)
    return compare_outcome(exp, obs) is None
