"""C04 - exactly the JS/CSS of the rendered components is delivered, once, in order (PROG).

Space A: every program of the asset profile (text, for, slot, component tags with fills;
2 generated components + a third, never rendered, asset-bearing component) with <= N nodes
x asset assignments x page wrapper (none / html+head+body / explicit placeholders)
x {document, fragment}.
Space B: programs with <= 2 nodes x all 5x5 asset assignments x all class-name pairs
(Plain, with_underscore9, non-ASCII names, the same __name__ in two modules).
Space P: every program with <= 3 (thorough 4) nodes with every component tag that is a direct child of a template moved into a
non-element position (HTML comment, attribute value, <textarea>) - the nested component is rendered there all the
same, so its assets are due.
Delivery paths: Template.render + render_dependencies(html, type); the middleware on an
HttpResponse (document); Component.render(type=...) for single-component pages - they must
agree.

Oracle (set/sequence model from the reference interpreter's instance order):
 document - inline <script>js</script> of every rendered class with js exactly once, in order
   of first appearance; same for <style>css</style>; every Media file of the rendered classes
   (own + inherited) exactly once as <script src> / <link href media>; nothing of unrendered
   classes; with no </head>/</body>/placeholder nothing is inserted;
 fragment - the base64 lists of the data-djc JSON script declare the same files plus the
   cache URLs of the inline JS/CSS, nothing inlined;
 no `_RENDERED` comment, no <template djc-render-id>, no placeholder element survives.
Excluded: two live classes with the same import path; get_js_data/get_css_data.
"""
from __future__ import annotations

import base64
import json
import re

from mc import boot, par
from mc.prog import CompSpec, Harness, Interp, strip_markers
from mc.proggen import Gen, Profile
from mc.progrun import core_of, model_outcome, prog_from_spec, prog_size, prog_spec, run_parts

PID = "C04"
LEVEL = "model_checking"
DJANGO = {}

B = dict(use_if=False, use_alias=False, use_dyn_names=False, use_ws_body=False, fill_text_mix=False,
         slot_names=("x",), fill_names=("x",), slot_flags=("",))

# asset specs: (js, css, media_js, media_css{medium:[files]}, inherits_base)
ASSETS = {
    0: dict(js=False, css=False, mjs=(), mcss={}, base=False),
    1: dict(js=True, css=False, mjs=(), mcss={}, base=False),
    2: dict(js=False, css=True, mjs=(), mcss={}, base=False),
    3: dict(js=True, css=True, mjs=("own", "shared.js"), mcss={"all": ("own",), "print": ("p.css",)}, base=False),
    4: dict(js=True, css=False, mjs=("shared.js",), mcss={"all": ("shared.css",)}, base=True, css_form="str"),
    # the shared JS file declared in another *form*: a pre-formatted, safe <script> tag (documented Media usage)
    5: dict(js=False, css=True, mjs=("shared.js", "own"), mcss={}, base=False, js_form="safetag"),
    # the class has no Media of its own: it inherits the Media of an intermediate parent that says extend=False
    # (so the grandparent's base.js is NOT part of it, the parent's own files are)
    6: dict(js=True, css=False, mjs=("own",), mcss={"all": ("own",)}, base=False, via_parent=True),
    # the class overrides only ONE member of an inline pair of its parent: own js, the parent's css (the parent's js is not delivered)
    7: dict(js=True, css=False, mjs=(), mcss={}, base=False, inline_parent=True),
}
BASE_MEDIA_JS = ("base.js",)
NAMES = [("Plain", "Other"), ("with_underscore9", "Plain"), ("Größe", "Plain"), ("Plain", "名前"), ("Same", "Same"),
         ("Größe", "Grüße"), ("按钮", "表格")]  # related names: equal length, differing only in non-ASCII letters
SAME_MODULE = {("Größe", "Grüße"), ("按钮", "表格")}  # these pairs live in ONE module (import paths differ in the class name only)
COMBOS_A = [(3, 0), (0, 3), (1, 2), (3, 4), (4, 3), (1, 1), (3, 5), (5, 4), (6, 3), (7, 2)]
WRAPPERS = ("none", "html", "placeholders", "html+css_placeholder", "html+js_placeholder")


def bounds(tier):
    if tier == "thorough":
        return {"A": [("assets", B, 5, 0)], "A_iso": [("assets", B, 4, 0)], "B_N": 3, "P_N": 4}
    return {"A": [("assets", B, 4, 0)], "A_iso": [("assets", B, 3, 0)], "B_N": 2, "P_N": 3}


def make_spec(name, template):
    return CompSpec(name, template or (), {}, ())


def class_assets(letter, spec_id):
    """expected asset content of a generated class"""
    a = ASSETS[spec_id]
    js = f"J_{letter}();" if a["js"] else None
    css = f".C_{letter}{{}}" if a["css"] else None
    mjs = tuple((f"{letter}.js" if f == "own" else f) for f in a["mjs"])
    mcss = {m: tuple((f"{letter}.css" if f == "own" else f) for f in fs) for m, fs in a["mcss"].items()}
    if a["base"]:
        mjs = mjs + BASE_MEDIA_JS
    if a.get("inline_parent"):
        css = f".C_par_{letter}{{}}"
    return js, css, mjs, mcss


def build_classes(prog, combo, names):
    """real classes for a, b (+ unrendered u) carrying the assets of `combo`"""
    from django_components import Component
    from django_components.component_registry import registry

    import sys
    import types

    for mn in ("verif_c04", "verif_c04_m0", "verif_c04_m1", "verif_c04_m2"):
        if mn not in sys.modules:
            sys.modules[mn] = types.ModuleType(mn)
            sys.modules[mn].__file__ = None  # "defined interactively": media paths are taken as written
    base = type("AssetBase", (Component,), {"template": "", "__module__": "verif_c04",
                                             "Media": type("Media", (), {"js": list(BASE_MEDIA_JS)})})
    classes = {}
    letters = sorted(prog.comps)
    for i, letter in enumerate(letters):
        spec_id = combo[i] if i < len(combo) else 0
        a = ASSETS[spec_id]
        js, css, _, _ = class_assets(letter, spec_id)
        attrs = {"template": prog.comps[letter].source(), "__module__": "verif_c04_m%d" % (0 if tuple(names[:2]) in SAME_MODULE else i)}
        if js:
            attrs["js"] = js
        if css and not a.get("inline_parent"):  # spec 7: the css is the PARENT's, the class itself defines js only
            attrs["css"] = css
        if a["mjs"] or a["mcss"]:
            m = {}
            if a["mjs"]:
                m["js"] = [(f"{letter}.js" if f == "own" else f) for f in a["mjs"]]
                if a.get("js_form") == "safetag":
                    from django.utils.safestring import mark_safe

                    # the second file (if any) in the other documented spelling: single-quoted attribute, a data-src attribute first
                    m["js"] = [mark_safe(('<script src="/static/%s" defer></script>' if i % 2 == 0 else "<script data-src=\"x\" src='/static/%s'></script>") % f)
                               for i, f in enumerate(m["js"])]
            if a["mcss"]:
                if a.get("css_form") == "str":
                    m["css"] = a["mcss"]["all"][0] if a["mcss"]["all"][0] != "own" else f"{letter}.css"
                else:
                    m["css"] = {k: [(f"{letter}.css" if f == "own" else f) for f in fs] for k, fs in a["mcss"].items()}
            attrs["Media"] = type("Media", (), m)
        parent = base if a["base"] else Component
        if a.get("inline_parent"):
            parent = type("Par_" + letter, (Component,), {"template": "", "__module__": "verif_c04_m%d" % i,
                                                          "js": f"J_par_{letter}();", "css": f".C_par_{letter}{{}}"})
        if a.get("via_parent"):
            parent = type("Mid_" + letter, (base,), {"template": "", "__module__": "verif_c04_m%d" % i,
                                                     "Media": type("Media", (), dict({k: v for k, v in attrs.pop("Media").__dict__.items() if not k.startswith("__")}, extend=False))})
        cls = type(names[i] if i < len(names) else "Third", (parent,), attrs)
        if letter in registry.all():
            registry.unregister(letter)
        registry.register(letter, cls)
        classes[letter] = cls
    # never rendered, asset bearing
    u = type("Unrendered", (Component,), {"template": "<u>u</u>", "js": "J_unrendered();", "css": ".C_unrendered{}", "__module__": "verif_c04",
                                           "Media": type("Media", (), {"js": ["unrendered.js"], "css": ["unrendered.css"]})})
    if "u" in registry.all():
        registry.unregister("u")
    registry.register("u", u)
    classes["u"] = u
    return classes, base


def unregister_all(classes):
    from django_components.component_registry import registry

    for n in classes:
        if n in registry.all():
            registry.unregister(n)


def wrap(page_src, wrapper):
    if wrapper == "html":
        return "<html><head><title>t</title></head><body>" + page_src + "</body></html>"
    if wrapper == "placeholders":
        return "{% component_css_dependencies %}<main>" + page_src + "</main>{% component_js_dependencies %}"
    if wrapper == "html+css_placeholder":  # only one kind of placeholder: the other kind goes to its default location
        return "<html><head>{% component_css_dependencies %}<title>t</title></head><body>" + page_src + "</body></html>"
    if wrapper == "html+js_placeholder":
        return "<html><head><title>t</title></head><body>{% component_js_dependencies %}" + page_src + "</body></html>"
    return page_src


INLINE_JS = re.compile(r"<script>(.*?)</script>", re.S)
INLINE_CSS = re.compile(r"<style>(.*?)</style>", re.S)
_SRC_JS = re.compile(r"""<script\b[^>]*?(?<![\w-])src=(?:"([^"]*)"|'([^']*)')""")


class _SrcJs:
    """URL of every <script ... src=...> tag, whichever quote kind the (user-written, pre-formatted) tag uses"""

    @staticmethod
    def findall(html):
        return [a or b for a, b in _SRC_JS.findall(html)]


SRC_JS = _SrcJs
LINK_CSS = re.compile(r'<link href="([^"]*)" media="([^"]*)"')
JSON_SCRIPT = re.compile(r'<script type="application/json" data-djc>(.*?)</script>', re.S)
MARKERS = ("_RENDERED", "<template djc-render-id", 'name="CSS_PLACEHOLDER"', 'name="JS_PLACEHOLDER"')
CORE_JS = "django_components/django_components.min.js"


def expected(prog, mode, combo):
    exp, it = model_outcome(prog, mode)
    if exp[0] != "ok":
        return None
    letters = sorted(prog.comps)
    order = []
    for inst in it.instances:
        if inst.spec.name not in order:
            order.append(inst.spec.name)
    e = {"js": [], "css": [], "mjs": [], "mcss": [], "order": order, "cache_js": [], "cache_css": []}
    for letter in order:
        spec_id = combo[letters.index(letter)] if letters.index(letter) < len(combo) else 0
        js, css, mjs, mcss = class_assets(letter, spec_id)
        if js:
            e["js"].append(js)
        if css:
            e["css"].append(css)
        for f in mjs:
            if f not in e["mjs"]:
                e["mjs"].append(f)
        for m, fs in mcss.items():
            for f in fs:
                if (f, m) not in e["mcss"]:
                    e["mcss"].append((f, m))
    return e


def check_document(html, e, inserted, classes):
    probs = []
    for m in MARKERS:
        if m in html:
            probs.append(("marker", f"bookkeeping marker {m!r} survives in the output"))
    inline_js = [s for s in INLINE_JS.findall(html)]
    inline_css = INLINE_CSS.findall(html)
    src = [s for s in SRC_JS.findall(html) if not s.endswith(CORE_JS)]
    links = LINK_CSS.findall(html)
    if not inserted:
        if inline_js or inline_css or src or links:
            probs.append(("inserted-nowhere", f"no </head>, </body> or placeholder in the page, yet tags were inserted: {inline_js + inline_css + src}"))
        return probs
    if inline_js != e["js"]:
        probs.append(("inline-js", f"inline JS expected {e['js']} (first-appearance order of {e['order']}), got {inline_js}"))
    if inline_css != e["css"]:
        probs.append(("inline-css", f"inline CSS expected {e['css']}, got {inline_css}"))
    want_src = sorted("/static/" + f for f in e["mjs"])
    if sorted(src) != want_src:
        probs.append(("media-js", f"Media JS files expected once each {want_src}, got {sorted(src)}"))
    want_links = sorted(("/static/" + f, m) for f, m in e["mcss"])
    if sorted(links) != want_links:
        probs.append(("media-css", f"Media CSS files expected once each {want_links}, got {sorted(links)}"))
    return probs


def check_fragment(html, e, classes):
    probs = []
    for m in MARKERS:
        if m in html:
            probs.append(("marker", f"bookkeeping marker {m!r} survives in the output"))
    if INLINE_JS.findall(html) or INLINE_CSS.findall(html):
        probs.append(("fragment-inlined", "fragment mode inlined JS/CSS"))
    blobs = JSON_SCRIPT.findall(html)
    if len(blobs) > 1:
        probs.append(("fragment-json", f"expected at most one data-djc JSON script, found {len(blobs)}"))
        return probs
    # nothing to declare -> the script may be omitted altogether
    data = json.loads(blobs[0]) if blobs else {"toLoadJsTags": [], "toLoadCssTags": []}
    js_tags = [base64.b64decode(t).decode() for t in data["toLoadJsTags"]]
    css_tags = [base64.b64decode(t).decode() for t in data["toLoadCssTags"]]
    got_js = sorted(SRC_JS.findall("".join(js_tags)))
    got_css = sorted(re.findall(r'href="([^"]*)"', "".join(css_tags)))
    letters = e["order"]
    cache_js = ["/components/cache/%s.js" % classes[l]._class_hash for l in letters if getattr(classes[l], "js", None)]
    cache_css = ["/components/cache/%s.css" % classes[l]._class_hash for l in letters if getattr(classes[l], "css", None)]
    from urllib.parse import quote

    want_js = sorted(["/static/" + f for f in e["mjs"]] + cache_js)
    want_css = sorted(["/static/" + f for f, _ in e["mcss"]] + cache_css)
    norm = lambda xs: sorted(quote(x, safe="/:%") for x in xs)  # noqa: E731
    if norm(got_js) != norm(want_js):
        probs.append(("fragment-js", f"fragment should declare JS {want_js}, declares {got_js}"))
    if norm(got_css) != norm(want_css):
        probs.append(("fragment-css", f"fragment should declare CSS {want_css}, declares {got_css}"))
    if len(cache_js) != len(e["js"]) or len(cache_css) != len(e["css"]):
        probs.append(("harness", "class js/css attributes disagree with the asset spec"))
    return probs


_ID = re.compile(boot.ID_PATTERN)


def run_case(prog, mode, combo, names, agg, h):
    from django.http import HttpResponse
    from django.template import Context, Template

    from django_components import cache as djc_cache
    from django_components.dependencies import render_dependencies
    from django_components.middleware import ComponentDependencyMiddleware

    e = expected(prog, mode, combo)
    if e is None:
        return
    if djc_cache.component_media_cache is not None:
        djc_cache.component_media_cache.clear()
    classes, base = build_classes(prog, combo, names)
    page_src = prog.page_source()
    for wrapper in WRAPPERS:
        src = wrap(page_src, wrapper)
        try:
            boot.ID_SEAM.reset()
            raw = Template(src).render(Context({}))
        except Exception as ex:  # noqa
            boot.clear_render_registries()
            agg.fail(f"{mode}:render-error:{type(ex).__name__}:{core_of(prog)}", f"[{mode}] render raised {type(ex).__name__}: {str(ex)[:200]}",
                     case_of(prog, mode, combo, names, wrapper))
            continue
        agg.transitions += 1
        for typ in ("document", "fragment"):
            try:
                out = render_dependencies(raw, typ)
            except Exception as ex:  # noqa
                agg.fail(f"{mode}:{typ}:deps-error:{type(ex).__name__}:{names}", f"[{mode}/{wrapper}/{typ}] render_dependencies raised {type(ex).__name__}: {str(ex)[:200]}",
                         case_of(prog, mode, combo, names, wrapper))
                continue
            agg.transitions += 1
            agg.validated += 1
            agg.observe(_ID.sub("ID", out))
            if typ == "document":
                probs = check_document(out, e, wrapper != "none", classes)
            else:
                probs = check_fragment(out, e, classes)
            for clause, text in probs[:2]:
                agg.fail(f"{mode}:{typ}:{clause}:{'+'.join(names)}:{combo}:{core_of(prog)}", f"[{mode}/{wrapper}/{typ}, classes {names}, assets {combo}] {text}",
                         case_of(prog, mode, combo, names, wrapper))
            if typ == "document":
                # middleware path must agree with render_dependencies()
                resp = HttpResponse(raw)
                mw = ComponentDependencyMiddleware(get_response=lambda r, _resp=resp: _resp)
                out2 = mw(None).content.decode()
                agg.transitions += 1
                if out2 != out:
                    agg.fail(f"{mode}:middleware-differs:{core_of(prog)}", f"[{mode}/{wrapper}] middleware output differs from render_dependencies(): {out2[:200]!r} vs {out[:200]!r}",
                             case_of(prog, mode, combo, names, wrapper))
        # Component.render(type=...) for single self-closing component pages
        if wrapper == "none" and len(prog.page) == 1 and prog.page[0][0] == "Comp" and prog.page[0][4] is None:
            cname = prog.page[0][1]
            for typ in ("document", "fragment"):
                boot.ID_SEAM.reset()
                try:
                    out3 = classes[cname].render(type=typ)
                except Exception as ex:  # noqa
                    boot.clear_render_registries()
                    agg.fail(f"{mode}:python-error:{type(ex).__name__}", f"[{mode}] Component.render(type={typ}) raised {type(ex).__name__}: {str(ex)[:200]}",
                             case_of(prog, mode, combo, names, wrapper))
                    continue
                agg.transitions += 1
                want = render_dependencies(raw, typ)
                if _ID.sub("ID", out3) != _ID.sub("ID", want):
                    agg.fail(f"{mode}:python-differs:{typ}:{core_of(prog)}", f"[{mode}] Component.render(type={typ}) gives {out3[:300]!r}, template tag + render_dependencies gives {want[:300]!r}",
                             case_of(prog, mode, combo, names, wrapper))
    boot.clear_render_registries()
    unregister_all(classes)


# positions in which a `{% component %}` tag is NOT an element child: the nested component is rendered all the same, so its assets are due
POSITIONS = {"comment": ("<!-- ", " -->"), "attr": ('<i title="', '"></i>'), "textarea": ("<textarea>", "</textarea>")}


def reposition(prog, pos):
    """every component tag that is a direct child of a template (page or component) is wrapped in the text of a non-element position"""
    from mc.prog import Program

    pre, post = POSITIONS[pos]

    def wrap_top(nodes):
        out = []
        for n in nodes:
            if n[0] == "Comp":
                out += [("T", pre), n, ("T", post)]
            else:
                out.append(n)
        return tuple(out)

    comps = {name: make_spec(name, wrap_top(c.template) if c.template else c.template) for name, c in prog.comps.items()}
    return Program(wrap_top(prog.page), comps, dict(prog.ctx))


def case_of(prog, mode, combo, names, wrapper):
    return {"mode": mode, "combo": list(combo), "names": list(names), "wrapper": wrapper, "program": prog.to_json(mode), "spec": prog_spec(prog)}


def worker(w, W, payload):
    pfkw, N, skip, mode, extra = payload
    space = extra
    boot.set_components_setting(context_behavior=mode)
    gen = Gen(Profile(**pfkw))
    h = Harness()
    agg = par.Agg()
    i = -1
    for prog in gen.programs(N, make_spec, {}):
        i += 1
        if i % W != w:
            continue
        if space == "P":
            # component tags inside an HTML comment / an attribute value / a <textarea>
            if not any(n[0] == "Comp" for t in [prog.page] + [c.template or () for c in prog.comps.values()] for n in t):
                continue
            for pos in POSITIONS:
                agg.states += 1
                prog2 = reposition(prog, pos)
                for combo in ((3, 1), (1, 3), (2, 4)):
                    agg.nontrivial += 1
                    agg.expected["position:%s" % pos] += 1
                    run_case(prog2, mode, combo, NAMES[0], agg, h)
            continue
        agg.states += 1
        if space == "A":
            cases = [(c, NAMES[0]) for c in COMBOS_A]
        else:
            cases = [((x, y), nm) for x in ASSETS for y in ASSETS for nm in NAMES]
        for combo, names in cases:
            if len(prog.comps) < 2 and combo[1] != 0 and space == "A" and combo[0] == 0:
                continue
            agg.nontrivial += 1 if any(combo) else 0
            agg.expected["assets:%s" % (combo,)] += 1
            run_case(prog, mode, combo, names, agg, h)
        if agg.states == 5 and w == 1:
            agg.sample({"mode": mode, "page": prog.page_source(), "components": {n: c.source() for n, c in prog.comps.items()}, "space": space})
    return agg


def run(ctx):
    ev = ctx.ev
    b = bounds(ctx.tier)
    ev.rule = ("PROG: every program of the asset profile with <= N nodes x asset assignments x wrappers x document/fragment x delivery paths; "
               "non-trivial = cases in which at least one class carries assets")
    run_parts(ctx, worker, b["A"], modes=("django",), extra_payload="A")
    run_parts(ctx, worker, b["A_iso"], modes=("isolated",), extra_payload="A")
    run_parts(ctx, worker, [("names", B, b["B_N"], 0)], modes=("django",), extra_payload="B")
    run_parts(ctx, worker, [("positions", B, b["P_N"], 0)], modes=("django", "isolated"), extra_payload="P")
    ev.assumptions = ["static URLs are /static/<file> (STATIC_URL='static/', no manifest storage)",
                      "media cache cleared between cases because generated classes reuse import paths (two live classes with one import path are excluded)"]


def replay(ctx, case):
    mode = case["mode"]
    boot.set_components_setting(context_behavior=mode)
    prog = prog_from_spec(case["spec"], make_spec)
    agg = par.Agg()
    run_case(prog, mode, tuple(case["combo"]), tuple(case["names"]), agg, Harness())
    print("page:", prog.page_source())
    for n, c in prog.comps.items():
        print(f"comp {n}:", c.source())
    for f in agg.failures[:6]:
        print(f[1][:500])
    return not agg.failures
