"""C20 - autodiscovery selects exactly the public modules, with the right import paths (ENUM engine).

Part A (membership + dotted path).  One private tree holds the whole path product
`part* / file` (parts: package, `_private`, `.hidden`, dotted `v1.2`, plain, namespace dir;
depth <= 2 quick / <= 3 thorough; files: modules, `_private.py`, `__init__.py`,
`__main__.py`, hidden, multi-dot, non-Python, look-alike suffixes) plus *directories* named
like files (`d.py/`, `e.js/`).  The same product is placed under several component
directories (inside the project root, two levels below it, a directory whose own name
starts with `_`, a directory whose name contains glob metacharacters next to a decoy that
the unescaped name would match) and under the `components/` / `ui/widgets/` directories
of two generated apps (one a nested package).  For every element of the product
  COMPONENTS.dirs {unset, [], [A], [A,B], [Path(A)], [(prefix,B)], [unnormalised A, A], [B, missing], [_under], [comp[1]], [A written with a `..` segment]}
  x STATICFILES_DIRS {[], [A], [(prefix,A), B]}  x INSTALLED_APPS {no app, one app, two apps incl. the nested one}
  x COMPONENTS.app_dirs {default, ["components","ui/widgets"], []}  x BASE_DIR as {str, Path}  x COMPONENTS as {dict, ComponentsSettings object}
(the effective directories follow the documented rule: dirs if set, else non-empty
STATICFILES_DIRS, else BASE_DIR/components, plus `<app>/<app_dir>` where it exists) and every
requested suffix, `get_component_files(suffix)` is called on the real code and compared,
as a multiset, with the reference filter of the statement applied to an `os.walk` of the
configured directories:

    regular file  and  name ends with the suffix (None/"" = every file)
    and no directory part starts with `_`  and  (name does not start with `_` or name == "__init__.py")
    and no part starts with `.`

For `.py` entries whose parts contain no inner dot, Python's own import system is the twin:
`importlib.util.find_spec(entry.dot_path).origin == str(entry.filepath)` with the project
root and the apps' parent directory on `sys.path`.

Part B (autodiscover end-to-end).  On import-clean trees (every module appends
`(__name__, __file__)` to a log when executed) `autodiscover()` is run for the layouts
dirs-only / apps-only / both: the returned list equals the expected dotted paths, every
expected file was executed exactly once under exactly that module name, and no private /
hidden / non-module file was executed.

Agnostic / excluded corners
  * dotted path of files or directories with an inner dot (`my.comp.py`, `v1.2/`, `d.py/j.py`)
    and of non-`.py` files: membership only.
  * component directories that are nested in each other, that coincide with an app's
    directory, that lie outside BASE_DIR, or whose own path below BASE_DIR has a hidden or
    dotted part: not generated ("each once" / "importable from the project root" are not
    defined there).  Symlinks, names containing `..`, control characters: not generated.
  * requested suffixes containing glob metacharacters: not generated.
  * `app_dirs = ["components"]` also selects django_components' own `components/`
    directory; it is judged by the same reference filter over a live walk.
  * order of the returned entries is not asserted.
"""
from __future__ import annotations

import importlib
import importlib.util
import itertools
import os
import shutil
import sys
import tempfile
from collections import Counter
from pathlib import Path

from mc import par

PID = "C20"
LEVEL = "model_checking"
DJANGO = {}

PARTS_QUICK = ["pkg", "_priv", ".hid", "v1.2", "init"]
PARTS_THOROUGH = PARTS_QUICK + ["__pycache__", "x_y", "my-dir"]
FILES = ["a.py", "_b.py", "__init__.py", "__main__.py", ".g.py", "my.comp.py", "a_b.py", "x.js", "_c.js", "__init__.js",
         "t.html", "a.pyi", "a.pyc", "ab.PY", "apy", "noext"]
SUFFIXES = [".py", ".js", ".html", ".pyi", ".comp.py", None, ""]
TOP_MODULES = ["components", "other", "_under", "comp1", "comp[1]", "c20app", "c20outer", "c20b_proj", "c20bapp", "c20bouter"]


# --------------------------------------------------------------------------- tree
def _touch(path, content=""):
    os.makedirs(os.path.dirname(path), exist_ok=True)
    with open(path, "w") as f:
        f.write(content)


def product_dirs(parts, depth):
    out = [""]
    for d in range(1, depth + 1):
        for combo in itertools.product(parts, repeat=d):
            out.append("/".join(combo))
    return out


def put_product(root, parts, depth, files=FILES):
    for d in product_dirs(parts, depth):
        for f in files:
            _touch(os.path.join(root, d, f))
    # a namespace package (no __init__.py) with a module and a nested namespace
    _touch(os.path.join(root, "ns", "n.py"))
    _touch(os.path.join(root, "ns", "deeper", "m.py"))
    _touch(os.path.join(root, "pkg", "ns2", "n.py"))
    # directories that look like files
    _touch(os.path.join(root, "d.py", "j.py"))
    _touch(os.path.join(root, "init", "d.py", "j.py"))
    _touch(os.path.join(root, "e.js", "k.js"))
    os.makedirs(os.path.join(root, "empty.py"), exist_ok=True)
    os.makedirs(os.path.join(root, "pkg", "__init__.py.d"), exist_ok=True)


def build_tree(tier):
    thorough = tier == "thorough"
    parts = PARTS_THOROUGH if thorough else PARTS_QUICK
    depth = 3 if thorough else 2
    tmp = tempfile.mkdtemp(prefix="c20-")
    # the whole world lives below ancestors whose names start with `_` and `.`: the rules about `_` / `.` parts speak of the
    # path BELOW the component directory, never of where the project happens to be checked out
    top = os.path.join(tmp, "_work", ".cache")
    os.makedirs(top)
    proj = os.path.join(top, "proj")
    roots = {
        "A": os.path.join(proj, "components"),
        "B": os.path.join(proj, "other", "comps"),
        "C": os.path.join(proj, "_under"),
        "D": os.path.join(proj, "comp[1]"),
    }
    put_product(roots["A"], parts, depth)
    put_product(roots["B"], PARTS_QUICK, 1)
    put_product(roots["C"], PARTS_QUICK, 1, files=FILES[:6])
    put_product(roots["D"], PARTS_QUICK[:2], 1, files=FILES[:4])
    put_product(os.path.join(proj, "comp1"), PARTS_QUICK[:2], 1, files=["decoy.py", "__init__.py"])
    _touch(os.path.join(proj, "outside.py"))
    apps = os.path.join(top, "apps")
    _touch(os.path.join(apps, "c20app", "__init__.py"))
    put_product(os.path.join(apps, "c20app", "components"), PARTS_QUICK, 2 if thorough else 1)
    put_product(os.path.join(apps, "c20app", "ui", "widgets"), PARTS_QUICK[:3], 1, files=FILES[:8])
    _touch(os.path.join(apps, "c20app", "views.py"))
    _touch(os.path.join(apps, "c20outer", "__init__.py"))
    _touch(os.path.join(apps, "c20outer", "inner", "__init__.py"))
    put_product(os.path.join(apps, "c20outer", "inner", "components"), PARTS_QUICK, 1)
    return {"top": tmp, "proj": proj, "roots": roots, "apps": apps, "tier": tier}


# --------------------------------------------------------------------------- configurations
DIRS_OPTS = ["unset", "empty", "A_str", "A_B", "A_pathobj", "B_tuple", "A_unnormalised_twice", "B_and_missing", "C_underscore", "D_globmeta", "A_dotdot"]
LEGACY_OPTS = ["none", "A_str", "A_tuple_and_B"]
APPS_OPTS = ["none", "one", "two_nested"]
APP_DIRS_OPTS = ["default", "custom", "empty"]
BASE_OPTS = ["str", "Path"]
FORM_OPTS = ["dict", "settings_object"]  # COMPONENTS = {...} / COMPONENTS = ComponentsSettings(...)


def config_names():
    return ["/".join(c) for c in itertools.product(DIRS_OPTS, LEGACY_OPTS, APPS_OPTS, APP_DIRS_OPTS, BASE_OPTS, FORM_OPTS)]


def make_config(tree, name):
    """-> (override_settings kwargs, expected roots [(fs root, module root dir, module prefix)]) from the documented rules:
    COMPONENTS.dirs if set (also when empty), else non-empty STATICFILES_DIRS, else BASE_DIR/components; entries may be
    str / Path / (prefix, path); missing directories are ignored; plus <app>/<app_dir> of every installed app where it exists."""
    d_opt, l_opt, a_opt, ad_opt, b_opt, f_opt = (name.split("/") + ["dict"])[:6]
    r, proj, apps = tree["roots"], tree["proj"], tree["apps"]
    comp = {"autodiscover": False}
    st = {"COMPONENTS": comp, "BASE_DIR": Path(proj) if b_opt == "Path" else proj}
    dirs_val = {
        "unset": None, "empty": [], "A_str": [r["A"]], "A_B": [r["A"], r["B"]], "A_pathobj": [Path(r["A"])], "B_tuple": [("pfx", r["B"])],
        "A_unnormalised_twice": [os.path.join(proj, "other", "..", "components") + "/", r["A"]],
        "B_and_missing": [r["B"], os.path.join(proj, "does_not_exist")], "C_underscore": [r["C"]], "D_globmeta": [r["D"]],
        # the only entry is an absolute path with a `..` segment (Path(__file__).parent / "../components" in a settings module)
        "A_dotdot": [os.path.join(proj, "other", "..", "components")],
    }[d_opt]
    dirs_roots = {"unset": None, "empty": [], "A_str": ["A"], "A_B": ["A", "B"], "A_pathobj": ["A"], "B_tuple": ["B"], "A_unnormalised_twice": ["A"],
                  "B_and_missing": ["B"], "C_underscore": ["C"], "D_globmeta": ["D"], "A_dotdot": ["A"]}[d_opt]
    if dirs_val is not None:
        comp["dirs"] = dirs_val
    legacy_val = {"none": [], "A_str": [r["A"]], "A_tuple_and_B": [("pfx", r["A"]), r["B"]]}[l_opt]
    legacy_roots = {"none": [], "A_str": ["A"], "A_tuple_and_B": ["A", "B"]}[l_opt]
    st["STATICFILES_DIRS"] = legacy_val
    if dirs_roots is None:
        dirs_roots = legacy_roots if legacy_val else ["A"]  # default: BASE_DIR / "components"
    roots = [(r[k], proj, None) for k in dirs_roots]
    installed = {"none": ["django_components"], "one": ["django_components", "c20app"],
                 "two_nested": ["c20app", "django_components", "c20outer.inner"]}[a_opt]
    st["INSTALLED_APPS"] = installed
    app_dirs = {"default": None, "custom": ["components", "ui/widgets"], "empty": []}[ad_opt]
    if app_dirs is not None:
        comp["app_dirs"] = app_dirs
    app_path = {"django_components": os.path.dirname(_djc_components_dir()), "c20app": os.path.join(apps, "c20app"),
                "c20outer.inner": os.path.join(apps, "c20outer", "inner")}
    for app in installed:
        for ad in (app_dirs if app_dirs is not None else ["components"]):
            cand = os.path.join(app_path[app], *ad.split("/"))
            if os.path.isdir(cand):
                roots.append((cand, app_path[app], app))
    if f_opt == "settings_object":
        from django_components.app_settings import ComponentsSettings

        st["COMPONENTS"] = ComponentsSettings(**comp)
    return st, roots


# --------------------------------------------------------------------------- reference
def wanted(relparts, suffix, is_file):
    name = relparts[-1]
    if not is_file:
        return False
    if suffix and not name.endswith(suffix):
        return False
    if any(p.startswith("_") for p in relparts[:-1]):
        return False
    if name.startswith("_") and name != "__init__.py":
        return False
    if any(p.startswith(".") for p in relparts):
        return False
    return True


def walk(root):
    """Every path below root as (relparts, is_file)."""
    out = []
    for dirpath, dirnames, filenames in os.walk(root):
        dirnames.sort()
        rel = os.path.relpath(dirpath, root)
        base = () if rel == "." else tuple(rel.split(os.sep))
        for d in dirnames:
            out.append((base + (d,), False))
        for f in sorted(filenames):
            out.append((base + (f,), True))
    return out


def model_dot_path(relparts, module_root_rel, prefix):
    """Dotted path for dot-free entries: what `import` would call the file."""
    parts = list(module_root_rel) + list(relparts)
    parts[-1] = parts[-1][: -len(".py")]
    if parts[-1] == "__init__":
        parts.pop()
    return ".".join(([prefix] if prefix else []) + parts)


def purge_modules():
    for k in list(sys.modules):
        if k.split(".")[0] in TOP_MODULES:
            del sys.modules[k]
    importlib.invalidate_caches()


class SysPath:
    def __init__(self, *paths):
        self.paths = list(paths)

    def __enter__(self):
        for p in self.paths:
            sys.path.insert(0, p)
        purge_modules()

    def __exit__(self, *a):
        for p in self.paths:
            if p in sys.path:
                sys.path.remove(p)
        purge_modules()


# --------------------------------------------------------------------------- part A
def _djc_components_dir():
    import django_components

    return os.path.join(os.path.dirname(django_components.__file__), "components")


def run_root_config(tree, name, st, dirs, suffixes=SUFFIXES):
    """Returns dict(calls, judged, nontrivial, dot_checked, problems=[(clause, key, what)], observed)."""
    from django.test import override_settings

    from django_components.util.loader import get_component_files

    out = {"calls": 0, "judged": 0, "nontrivial": 0, "dot_checked": 0, "problems": [], "observed": [], "expected": Counter()}
    with SysPath(tree["proj"], tree["apps"]), override_settings(**st):
        universe = []  # (abs path, relparts, is_file, fs_root, module_root, prefix)
        for fs_root, module_root, prefix in dirs:
            for relparts, is_file in walk(fs_root):
                universe.append((os.path.join(fs_root, *relparts), relparts, is_file, fs_root, module_root, prefix))
        for suffix in suffixes:
            out["calls"] += 1
            try:
                entries = get_component_files(suffix)
            except Exception as e:  # noqa
                import traceback

                tb = traceback.extract_tb(e.__traceback__)
                site = next((f"{os.path.basename(fr.filename)}:{fr.name}" for fr in reversed(tb) if "django_components" in fr.filename), "?")
                out["problems"].append((f"crash:{type(e).__name__}@{site}", suffix, "", f"get_component_files({suffix!r}) raised {type(e).__name__}: {e}"))
                continue
            got = Counter(str(e.filepath) for e in entries)
            dot_of = {}
            for e in entries:
                dot_of.setdefault(str(e.filepath), e.dot_path)
            n_want = 0
            for path, relparts, is_file, fs_root, module_root, prefix in universe:
                w = wanted(relparts, suffix, is_file)
                n = got.pop(path, 0)
                out["judged"] += 1
                out["expected"]["selected" if w else ("not a file" if not is_file else "filtered")] += 1
                rel = "/".join(relparts)
                n_want += w
                if w and n == 0:
                    out["problems"].append(("missing", suffix, rel, f"get_component_files({suffix!r}) omits {rel} (under {os.path.relpath(fs_root, tree['top'])})"))
                elif not w and n:
                    kind = "directory" if not is_file else "file"
                    why = "is a directory" if not is_file else "is private / hidden / has another suffix"
                    out["problems"].append((f"extra-{kind}", suffix, rel if is_file else "",
                                            f"get_component_files({suffix!r}) returns {rel} (under {os.path.relpath(fs_root, tree['top'])}), which {why}"))
                elif n > 1:
                    out["problems"].append(("duplicate", suffix, rel, f"get_component_files({suffix!r}) returns {rel} {n} times"))
                out["observed"].append((suffix, rel, n))
                # dotted path: Python's import system as the twin
                if w and n and suffix == ".py" and not any("." in p for p in relparts[:-1]) and "." not in relparts[-1][:-3]:
                    dp = dot_of[path]
                    out["dot_checked"] += 1
                    mrel = tuple(os.path.relpath(fs_root, module_root).split(os.sep))
                    exp = model_dot_path(relparts, mrel, prefix)
                    origin = None
                    try:
                        spec = importlib.util.find_spec(dp)
                        origin = spec.origin if spec else None
                    except Exception as e:  # noqa
                        origin = f"<{type(e).__name__}: {e}>"
                    if origin is None or not os.path.exists(origin) or not os.path.samefile(origin, path):
                        out["problems"].append(("dotpath", suffix, rel, f"{rel}: dot_path {dp!r} imports {origin!r}, not the file (expected {exp!r})"))
                    elif dp != exp:
                        out["problems"].append(("dotpath", suffix, rel, f"{rel}: dot_path {dp!r}, expected {exp!r}"))
            for path, n in got.items():
                shown = os.path.relpath(path, tree["top"])
                out["problems"].append(("foreign", suffix, "", f"get_component_files({suffix!r}) returns {shown}, which is not below a configured directory"))
            if n_want and n_want < len(universe):
                out["nontrivial"] += 1
    return out


def _a_worker(w, W, tree):
    agg = par.Agg()
    seen_ids = set()
    for i, name in enumerate(config_names()):
        if i % W != w:
            continue
        st, dirs = make_config(tree, name)
        r = run_root_config(tree, name, st, dirs)
        agg.states += r["judged"]
        agg.transitions += r["calls"] + r["dot_checked"]
        agg.validated += r["judged"]
        agg.nontrivial += r["nontrivial"]
        agg.extra["dot_checked"] += r["dot_checked"]
        agg.extra["configs"] += 1
        agg.expected.update(r["expected"])
        agg.observe(tuple(r["observed"]))
        seen = Counter((p[0], p[1]) for p in r["problems"])
        done = set()
        for clause, suffix, rel, what in sorted(r["problems"], key=lambda p: (p[0], repr(p[1]), len(p[2]), p[2])):
            if (clause, suffix) in done:
                continue
            done.add((clause, suffix))
            ident = f"{clause}:suffix={suffix!r}:{rel}"
            if ident in seen_ids:  # keep the first configuration per identity and worker
                continue
            seen_ids.add(ident)
            agg.fail(ident, f"[{name}] {what} ({seen[(clause, suffix)]} such paths in this configuration)",
                     {"part": "files", "config": name, "clause": clause, "suffix": suffix})
    return agg


# --------------------------------------------------------------------------- part B
LOG_LINE = "import builtins\nbuiltins._c20_log.append((__name__, __file__))\n"


def build_b(top, variant):
    """Import-clean project; returns (settings, expected {dot_path: file}, never-executed files)."""
    proj = os.path.join(top, f"c20b_{variant}", "c20b_proj")
    apps = os.path.join(top, f"c20b_{variant}", "apps")
    base = os.path.dirname(proj)
    expected, forbidden = {}, []

    def mod(root, rel, dot):
        p = os.path.join(root, rel)
        _touch(p, LOG_LINE)
        if dot is None:
            forbidden.append(p)
        else:
            expected[dot] = p

    comps = os.path.join(proj, "comps")
    use_dirs = variant in ("dirs", "both")
    use_apps = variant in ("apps", "both")
    if use_dirs:
        pre = "c20b_proj.comps"
        mod(comps, "__init__.py", pre)
        mod(comps, "a.py", pre + ".a")
        mod(comps, "_b.py", None)
        mod(comps, "__main__.py", None)
        mod(comps, ".g.py", None)
        mod(comps, "pkg/__init__.py", pre + ".pkg")
        mod(comps, "pkg/a.py", pre + ".pkg.a")
        mod(comps, "pkg/_p.py", None)
        mod(comps, "pkg/deep/__init__.py", pre + ".pkg.deep")
        mod(comps, "pkg/deep/m_1.py", pre + ".pkg.deep.m_1")
        mod(comps, "ns/n.py", pre + ".ns.n")
        mod(comps, "ns/_q/z.py", None)
        mod(comps, "_priv/__init__.py", None)
        mod(comps, "_priv/z.py", None)
        mod(comps, ".hid/h.py", None)
        mod(comps, "init/__init__.py", pre + ".init")
        mod(comps, "init/__main__.py", None)
        mod(comps, "init/x.js", None)
        mod(comps, "init/t.html", None)
        mod(comps, "init/y.pyi", None)
        _touch(os.path.join(proj, "__init__.py"))
        os.makedirs(os.path.join(comps, "assets.py"))  # a directory, not a module
        os.makedirs(os.path.join(comps, "pkg", "deep", "d.py"))
    if use_apps:
        _touch(os.path.join(apps, "c20bapp", "__init__.py"))
        ac = os.path.join(apps, "c20bapp", "components")
        mod(ac, "__init__.py", "c20bapp.components")
        mod(ac, "c.py", "c20bapp.components.c")
        mod(ac, "_d.py", None)
        mod(ac, "pkg/__init__.py", "c20bapp.components.pkg")
        mod(ac, "pkg/e.py", "c20bapp.components.pkg.e")
        mod(ac, "_pp/__init__.py", None)
        mod(ac, "_pp/f.py", None)
        mod(ac, ".hh/g.py", None)
        _touch(os.path.join(apps, "c20bouter", "__init__.py"))
        _touch(os.path.join(apps, "c20bouter", "inner", "__init__.py"))
        ic = os.path.join(apps, "c20bouter", "inner", "components")
        mod(ic, "f.py", "c20bouter.inner.components.f")
        mod(ic, "init/g.py", "c20bouter.inner.components.init.g")
        mod(ic, "init/__main__.py", None)
        os.makedirs(os.path.join(ic, "init", "assets.py"))
    st = {
        "BASE_DIR": base,
        "COMPONENTS": {"autodiscover": False, "dirs": [comps] if use_dirs else [], "app_dirs": ["components"] if use_apps else []},
    }
    if use_apps:
        st["INSTALLED_APPS"] = ["c20bapp", "c20bouter.inner"]
    return st, expected, forbidden, [base, apps]


def _b_task(arg):
    top, variant = arg
    import builtins

    from django.test import override_settings

    from django_components.autodiscovery import autodiscover

    problems = []
    st, expected, forbidden, paths = build_b(top, variant)
    builtins._c20_log = []
    try:
        with SysPath(*paths), override_settings(**st):
            try:
                returned = autodiscover()
            except Exception as e:  # noqa
                problems.append((f"crash:{type(e).__name__}", variant, f"autodiscover() raised {type(e).__name__}: {e}"))
                returned = None
            log = list(builtins._c20_log)
            if returned is not None:
                if Counter(returned) != Counter(expected.keys()):
                    extra = sorted((Counter(returned) - Counter(expected.keys())).elements())
                    missing = sorted((Counter(expected.keys()) - Counter(returned)).elements())
                    problems.append(("autodiscover-list", variant, f"autodiscover() returned extra {extra} / misses {missing}"))
                ran = Counter((n, os.path.realpath(f)) for n, f in log)
                for dot, f in expected.items():
                    n = ran.pop((dot, os.path.realpath(f)), 0)
                    if n != 1:
                        problems.append(("autodiscover-exec", dot, f"{os.path.relpath(f, top)} executed {n} times as {dot!r} (all executions of it: "
                                         f"{[k for k in ran if k[1] == os.path.realpath(f)]})"))
                for (n_, f), c in ran.items():
                    problems.append(("autodiscover-exec-extra", os.path.relpath(f, top), f"{os.path.relpath(f, top)} executed under the module name {n_!r}, which is not the import path of a selected public module"))
    finally:
        del builtins._c20_log
    return variant, len(expected), len(forbidden), problems, len(log)


# --------------------------------------------------------------------------- entry points
def run(ctx):
    ev, fnd = ctx.ev, ctx.fnd
    tree = build_tree(ctx.tier)
    try:
        names = config_names()
        npaths = sum(len(walk(r)) for r in tree["roots"].values())
        print(f"C20: {len(names)} directory configurations x {len(SUFFIXES)} suffixes over {npaths} generated paths under dirs (+ app dirs)", flush=True)
        ev.rule = (
            "ENUM: a case is one (directory configuration, requested suffix, path of the generated tree) decided by get_component_files on the "
            "real code and by the reference filter of the statement; non-trivial = (configuration, suffix) pairs for which the reference "
            "selects some but not all paths; dotted paths are validated with importlib.util.find_spec"
        )
        # determinism self-test (DESIGN 1.3)
        for probe in (names[0], "A_B/A_str/two_nested/custom/Path"):
            st, dirs = make_config(tree, probe)
            o1 = run_root_config(tree, probe, st, dirs)["observed"]
            o2 = run_root_config(tree, probe, st, dirs)["observed"]
            if o1 != o2 or not o1:
                raise par.HarnessError("get_component_files observations are not reproducible within one process")
        agg = par.run_sharded(_a_worker, tree)
        if agg.extra["configs"] != len(names):
            raise par.HarnessError(f"{agg.extra['configs']} configurations run, {len(names)} generated")
        order = {n: i for i, n in enumerate(names)}
        fnd.merge_reports(sorted(agg.failures, key=lambda f: (order[f[2]["config"]], f[0])))
        if agg.failures_dropped:
            ev.caps_hit.append(f"{agg.failures_dropped} failure reports dropped")
        dots = agg.extra["dot_checked"]
        ev.add_part(
            "get_component_files", states=agg.states, transitions=agg.transitions, validated=agg.validated, nontrivial=agg.nontrivial,
            observed_distinct=len(agg.observed), expected=agg.expected,
            bound={"configurations": len(names), "dirs": DIRS_OPTS, "legacy_staticfiles_dirs": LEGACY_OPTS, "apps": APPS_OPTS, "app_dirs": APP_DIRS_OPTS,
                   "base_dir_type": BASE_OPTS, "components_setting_form": FORM_OPTS, "suffixes": [repr(x) for x in SUFFIXES], "paths_under_dirs": npaths,
                   "parts": PARTS_THOROUGH if ctx.tier == "thorough" else PARTS_QUICK, "depth": 3 if ctx.tier == "thorough" else 2,
                   "files": FILES, "dot_paths_checked_with_find_spec": dots},
            samples=[{"config": "A_B/none/none/empty/str", "suffix": ".py", "selected": ["components/pkg/a.py -> components.pkg.a"],
                      "filtered": ["components/_priv/a.py", "components/.hid/a.py", "components/d.py/ (directory)"]}],
        )
        bres = par.run_tasks(_b_task, [(tree["top"], v) for v in ("dirs", "apps", "both")])
        nexp = nforb = nlog = 0
        for variant, ne, nf, problems, nl in bres:
            nexp += ne
            nforb += nf
            nlog += nl
            for clause, key, what in problems:
                fnd.report(f"{clause}:{key}", f"[autodiscover/{variant}] {what}", {"part": "autodiscover", "variant": variant})
        ev.add_part("autodiscover_imports", states=nexp + nforb, transitions=nlog + 3, validated=nexp + nforb, nontrivial=3,
                    observed_distinct=nlog, expected={"imported": nexp, "never imported": nforb}, bound={"layouts": ["dirs", "apps", "both"]})
        ev.assumptions = [
            "POSIX file system, no symlinks; component directories are disjoint and lie below BASE_DIR",
            "dotted path asserted only for .py entries without inner dots (find_spec twin)",
            "CPython 3.12 import system",
        ]
    finally:
        shutil.rmtree(tree["top"], ignore_errors=True)
        purge_modules()


def replay(ctx, case):
    tree = build_tree(ctx.tier)
    try:
        if case.get("part") == "autodiscover":
            variant, ne, nf, problems, nl = _b_task((tree["top"], case["variant"]))
            for p in problems:
                print(p)
            return not problems
        if case["config"] in config_names():
            st, dirs = make_config(tree, case["config"])
            r = run_root_config(tree, case["config"], st, dirs)
            bad = [p for p in r["problems"] if p[0] == case.get("clause", p[0]) and p[1] == case.get("suffix", p[1])]
            for p in bad[:20]:
                print(p)
            print(f"{len(bad)} failing paths of {r['judged']}")
            return not bad
        raise ValueError(case)
    finally:
        shutil.rmtree(tree["top"], ignore_errors=True)
        purge_modules()
