"""C11 - a tag accepts its arguments exactly when the equivalent Python call would (ENUM engine).

What is enumerated
  signatures  every legal parameter list of length <= n over {positional-only, positional-or-keyword,
              *args, keyword-only, **kwargs}, each non-variadic parameter with / without a default
              (43 / 149 / 427 / 1085 signatures for n <= 2 / 3 / 4 / 5).  Parameter i is called p<i>,
              its default is -(i+1).  Each signature is compiled with exec into a real
              `def render(self, context, ...)` probe that logs its bindings (locals() minus self/context).
  calls       every sequence of length <= L over the tokens
                 V           positional literal
                 p<i>=V      keyword for every declared parameter name (incl. the names of *args/**kwargs)
                 zz=V        unknown keyword            data-x=V  non-identifier key      class=V  Python keyword key
                 ...[V1, V2] list spread                ...{"p1": V} / ...{"data-y": V}   dict spreads
              V is derived from the position of the token so that every binding is observable.
  seams       A  `NodeCls(params=parse_tag(text)).render(Context())` on a fresh BaseNode subclass, i.e.
                 wrapper_render -> resolve_params -> validate_params -> render, once with a plain function
                 (fast path, _validate_params_with_code) and once with the same function wrapped in a
                 callable object without __code__ (fallback path, _validate_params_with_signature);
              B  the same signatures declared with @template_tag and invoked through a compiled
                 `Template("{% tag ... %}")` (real lexer, parser, BaseNode.parse, NodeList.render);
              C  probes carrying the *signatures and tag names of the built-in nodes* of the working tree
                 (component, slot, fill, provide, html_attrs, component_*_dependencies), both paths.
  names       D  parts A-C call every parameter p<i>.  Part D repeats seam A (both paths) and seam B on the small
                 signatures with *unusual but legal* parameter names: every shape of length <= n (quick 2, thorough 3)
                 with every injective assignment of names from UNUSUAL_NAMES - Python soft keywords (`type`, `match`,
                 `_`; thorough also `case`) and a non-ASCII identifier (`größe`) - crossed with every call of length <= 3
                 over  V | <name>=V for EVERY unusual name (a name the signature does not declare is an unknown key) |
                 data-x=V | class=V | ...[V1, V2] | ...{"<name>": V} for every unusual name.
                 Such names are ordinary identifiers: Python writes them as plain `f(type=1)` keywords, so they must
                 bind declared parameters and must not be handled like `class` / `data-x`.  (Seam B of part D: the
                 same product for n <= 1 / 2 (quick / thorough) and calls of length <= 2.)
  operands    E  seam A (both paths) on the signatures of <= 2 (thorough 3) parameters x every call of <= 2 tokens with at
                 least one `...var` spread whose operand is a *variable*: a mapping holding one key (p0 / p1 / zz /
                 data-y) of every type of MAP_TYPES (dict, OrderedDict, MappingProxyType, UserDict, ChainMap, a bare
                 collections.abc.Mapping) or an iterable of two values of every type of ITER_TYPES (list, tuple, range,
                 dict_keys, a bare re-iterable object); the twin is Python's f(**m) / f(*it) on the same object.

Oracle (Python itself)
  The call is written as Python source `f(None, None, 10, *[21, 22], p0=30, **{"data-x": 40}, **{"p1": 57})`
  (keys that are not identifiers or are keywords can only be written as `**{...}`), compiled once per call
  and applied to the very same probe function.  Python accepts -> the tag must call the function exactly once
  with equal bindings (defaults, *args tuple and **kwargs dict included).  Python raises SyntaxError (at
  compile time: positional after keyword, repeated keyword) or TypeError -> the tag must raise TypeError
  (SyntaxError is accepted as well when, in the flattened argument sequence, a positional argument follows a
  keyword one) and must not enter the function.  Fast and fallback path must end in the same outcome.

Excluded / agnostic corners (nothing below decides a verdict)
  * A *list spread after a plain keyword* (`a=1 ...[1, 2]`): Python allows `f(a=1, *[1, 2])`, the tag expands
    spreads in place and therefore sees "positional after keyword".  Either outcome (error, or Python's
    binding) is accepted; the two paths must still agree.
  * Order of the entries inside **kwargs is not compared (the implementation passes non-identifier keys last).
  * Which of TypeError / SyntaxError is raised for positional-after-keyword; exception messages.
  * html_attrs merges repeated keys by documented design (`merge_repeated_kwargs`): in part C calls with a
    repeated key are not judged for that tag.
  * Aggregate keys (`attrs:key=`) and value syntax (filters, nested literals, translations) belong to C02;
    flags and end tags are not arguments.  Spreads of non-iterables (ValueError by design) are not generated.
  * Part D names are restricted to identifiers for which "the equivalent Python call" is unambiguous: NFKC-stable
    (Python normalises identifiers in source, `f(ﬁ=1)` binds `fi`, `f(**{"ﬁ": 1})` does not), not `__debug__`
    (`f(__debug__=1)` is a SyntaxError although `f(**{"__debug__": 1})` is accepted) and not `self` / `context`.
"""
from __future__ import annotations

import inspect
import itertools
import keyword
import sys
import unicodedata

from mc import par

PID = "C11"
LEVEL = "model_checking"
DJANGO = {}

# ----------------------------------------------------------------------------- signatures
# kind: O positional-only, K positional-or-keyword, A *args, W keyword-only, X **kwargs
# a signature is a tuple of (kind, has_default, name)


def enum_shapes(maxn):
    """All legal (kind, has_default) lists of length <= maxn, shortest first (deterministic order)."""
    out = []

    def rec(prefix, stage, seen_default):
        out.append(tuple(prefix))
        if len(prefix) >= maxn:
            return
        if stage <= 0:
            for d in (0, 1):
                if not (seen_default and not d):
                    rec(prefix + [("O", d)], 0, seen_default or d)
        if stage <= 1:
            for d in (0, 1):
                if not (seen_default and not d):
                    rec(prefix + [("K", d)], 1, seen_default or d)
            rec(prefix + [("A", 0)], 2, seen_default)
        if stage <= 2:
            for d in (0, 1):
                rec(prefix + [("W", d)], 2, seen_default)
            rec(prefix + [("X", 0)], 3, seen_default)

    rec([], 0, 0)
    out.sort(key=lambda s: (len(s), s))
    return out


def enum_signatures(maxn):
    return [tuple((k, d, f"p{i}") for i, (k, d) in enumerate(shape)) for shape in enum_shapes(maxn)]


def sig_source(sig):
    """Parameter list source after `self, context`."""
    parts = []
    kinds = [k for k, _, _ in sig]
    n_posonly = kinds.count("O")
    star_done = "A" in kinds
    for idx, (k, d, name) in enumerate(sig):
        dflt = f"=-{idx + 1}" if d else ""
        if k == "O":
            parts.append(name + dflt)
            if idx == n_posonly - 1:
                parts.append("/")
        elif k == "K":
            parts.append(name + dflt)
        elif k == "A":
            parts.append("*" + name)
        elif k == "W":
            if not star_done:
                parts.append("*")
                star_done = True
            parts.append(name + dflt)
        elif k == "X":
            parts.append("**" + name)
    return ", ".join(parts)


def sig_text(sig):
    s = sig_source(sig)
    return "def render(self, context" + (", " + s if s else "") + ")"


LOG: list = []  # bindings logged by the probes (shared by every probe of this process)


def make_probe(sig):
    src = (
        sig_text(sig) + ":\n"
        "    _c11_d = locals()\n"
        "    del _c11_d['self'], _c11_d['context']\n"
        "    _c11_log.append(_c11_d)\n"
        "    return 'R'\n"
    )
    ns = {"_c11_log": LOG}
    exec(src, ns)
    return ns["render"]


class CallableProbe:
    """Callable without __code__: makes validate_params() take the inspect.Signature fallback."""

    def __init__(self, fn):
        self.fn = fn
        self.__signature__ = inspect.signature(fn)
        self.__name__ = "render"

    def __call__(self, *a, **k):
        return self.fn(*a, **k)


_CLS_CACHE: dict = {}
_CLS_COUNT = [0]


def node_classes(sig, tag="c11"):
    """(probe fn, fast-path node class, fallback-path node class) for a signature."""
    key = (sig, tag)
    got = _CLS_CACHE.get(key)
    if got is None:
        from django_components.node import BaseNode

        fn = make_probe(sig)
        _CLS_COUNT[0] += 1
        n = _CLS_COUNT[0]
        fast = type(f"C11Fast{n}", (BaseNode,), {"tag": tag, "render": fn, "__module__": "verif_c11"})
        cp = CallableProbe(fn)
        if hasattr(cp, "__code__"):
            raise par.HarnessError("fallback probe unexpectedly has __code__")
        slow = type(f"C11Slow{n}", (BaseNode,), {"tag": tag, "render": cp, "__module__": "verif_c11"})
        # a node class that INHERITS its render() from a plain (non-node) mixin - the idiom for sharing one render between tags
        mixin = type(f"C11Mixin{n}", (), {"render": fn, "__module__": "verif_c11"})
        inherited = type(f"C11Inh{n}", (mixin, BaseNode), {"tag": tag, "__module__": "verif_c11"})
        got = _CLS_CACHE[key] = (fn, fast, slow, inherited)
    return got


# ----------------------------------------------------------------------------- calls
# token: ("P",) | ("K", key) | ("L",) | ("D", key)


def is_plain_name(key):
    return key.isidentifier() and not keyword.iskeyword(key)


def alphabet(names, spread_name="p1"):
    return (
        [("P",)]
        + [("K", n) for n in names]
        + [("K", "zz"), ("K", "data-x"), ("K", "class"), ("L",), ("D", spread_name), ("D", "data-y")]
    )


MAP_TYPES = ("dict", "OrderedDict", "MappingProxyType", "UserDict", "ChainMap", "Mapping")
ITER_TYPES = ("list", "tuple", "range", "dict_keys", "Iterable")


def make_operand(typ, payload):
    """A spread operand of the given type: payload is a dict (mapping types) or a list of two ints (iterables)."""
    import collections
    import types

    if typ == "dict":
        return dict(payload)
    if typ == "OrderedDict":
        return collections.OrderedDict(payload)
    if typ == "MappingProxyType":
        return types.MappingProxyType(dict(payload))
    if typ == "UserDict":
        return collections.UserDict(payload)
    if typ == "ChainMap":
        return collections.ChainMap({}, dict(payload))
    if typ == "Mapping":
        class M(collections.abc.Mapping):  # a Mapping that is no dict subclass and has nothing but the ABC's methods
            def __init__(self, d):
                self._d = d

            def __getitem__(self, k):
                return self._d[k]

            def __iter__(self):
                return iter(self._d)

            def __len__(self):
                return len(self._d)

        return M(dict(payload))
    if typ == "list":
        return list(payload)
    if typ == "tuple":
        return tuple(payload)
    if typ == "range":
        return range(payload[0], payload[0] + len(payload))
    if typ == "dict_keys":
        return dict.fromkeys(payload).keys()
    if typ == "Iterable":
        class It:  # re-iterable, neither list nor tuple
            def __init__(self, xs):
                self._xs = xs

            def __iter__(self):
                return iter(self._xs)

        return It(list(payload))
    raise AssertionError(typ)


class Call:
    """One call shape: tag text, compiled Python twin, flattened key sequence."""

    __slots__ = ("toks", "text", "pysrc", "py", "flat", "pos_after_kw", "has_dup", "attrs", "vars")

    def __init__(self, toks, voff=0):
        self.toks = tuple(tuple(t) for t in toks)
        self.vars = {}
        tag_parts, py_parts, flat = [], [], []
        for j, t in enumerate(self.toks):
            b = voff + 10 * (j + 1)
            if t[0] == "P":
                tag_parts.append(f"{b}")
                py_parts.append(f"{b}")
                flat.append(None)
            elif t[0] == "K":
                tag_parts.append(f"{t[1]}={b}")
                py_parts.append(f"{t[1]}={b}" if is_plain_name(t[1]) else f'**{{"{t[1]}": {b}}}')
                flat.append(t[1])
            elif t[0] == "L":
                tag_parts.append(f"...[{b + 1}, {b + 2}]")
                py_parts.append(f"*[{b + 1}, {b + 2}]")
                flat += [None, None]
            elif t[0] == "D":
                tag_parts.append(f'...{{"{t[1]}": {b + 7}}}')
                py_parts.append(f'**{{"{t[1]}": {b + 7}}}')
                flat.append(t[1])
            elif t[0] == "DV":  # `...var` where var is a mapping of type t[2] holding {t[1]: value}
                self.vars[f"v{j}"] = make_operand(t[2], {t[1]: b + 7})
                tag_parts.append(f"...v{j}")
                py_parts.append(f'**V["v{j}"]')
                flat.append(t[1])
            elif t[0] == "LV":  # `...var` where var is an iterable of type t[1] holding two values
                self.vars[f"v{j}"] = make_operand(t[1], [b + 1, b + 2])
                tag_parts.append(f"...v{j}")
                py_parts.append(f'*V["v{j}"]')
                flat += [None, None]
            else:
                raise AssertionError(t)
        self.text = " ".join(tag_parts)
        self.pysrc = "f(None, None" + "".join(", " + p for p in py_parts) + ")"
        try:
            self.py = eval(compile("lambda f: " + self.pysrc, "<c11-call>", "eval"), {"V": self.vars})
        except SyntaxError:
            self.py = None
        self.flat = flat
        seen_kw = False
        self.pos_after_kw = False
        for k in flat:
            if k is None:
                if seen_kw:
                    self.pos_after_kw = True
            else:
                seen_kw = True
        keys = [k for k in flat if k is not None]
        self.has_dup = len(keys) != len(set(keys))
        self.attrs = None

    def parse(self):
        if self.attrs is None:
            from django_components.util.tag_parser import parse_tag

            _, attrs = parse_tag("c11 " + self.text if self.text else "c11", None)
            self.attrs = attrs[1:]
        return self.attrs


def expected(call, fn):
    """('ok', binding) | ('err',) - what Python itself does with the literal call on the same function."""
    if call.py is None:
        return ("err",)
    del LOG[:]
    try:
        call.py(fn)
    except TypeError:
        return ("err",)
    return ("ok", LOG[-1])


def observe_node(cls, call, ctx):
    del LOG[:]
    if call.vars:
        from django.template import Context

        ctx = Context(dict(call.vars))
    try:
        cls(params=call.parse(), node_id="c11").render(ctx)
    except TypeError:
        kind = "TypeError"
    except SyntaxError:
        kind = "SyntaxError"
    except Exception as e:  # noqa
        kind = "exc:" + type(e).__name__
    else:
        kind = "ok"
    return kind, list(LOG)


def judge(exp, call, kind, log):
    """None when the observation satisfies the property, else (clause, explanation)."""
    err_ok = kind == "TypeError" or (kind == "SyntaxError" and call.pos_after_kw)
    if kind != "ok" and log:
        return "called-then-raised", f"function was entered with {log[0]} and the tag then raised {kind}"
    if kind.startswith("exc:") or (kind == "SyntaxError" and not call.pos_after_kw):
        return "exception-class", f"raised {kind.replace('exc:', '')}, only TypeError is allowed here"
    if exp[0] == "err":
        if err_ok:
            return None
        return "accepts-what-python-rejects", f"Python rejects the call, the tag called render with {log[0] if log else '?'}"
    # Python accepts
    if kind == "ok":
        if len(log) != 1:
            return "call-count", f"render entered {len(log)} times"
        if log[0] == exp[1]:
            return None
        return "binds-differently", f"Python binds {exp[1]}, the tag bound {log[0]}"
    if call.pos_after_kw:  # agnostic corner: list spread after a plain keyword
        return None
    return "rejects-what-python-accepts", f"Python binds {exp[1]}, the tag raised {kind}"


def outcome_key(kind, log):
    if kind == "ok":
        return ("ok", repr(sorted((k, repr(v) if not isinstance(v, dict) else repr(sorted(v.items()))) for k, v in log[0].items())) if log else "")
    return ("err",)


def check_pair(sig, call, ctx, tag="c11", judge_dups=True, seam="node"):
    """Runs one (signature, call) on both paths. Returns (exp, [(path, kind, log, problem)], paths_problem)."""
    if seam == "template":
        tagname, fn = template_tag_for(sig)
        exp = expected(call, fn)
        kind, log = observe_template(tagname, call)
        return exp, [("template", kind, log, judge(exp, call, kind, log))], None
    fn, fast, slow, inherited = node_classes(sig, tag)
    exp = expected(call, fn)
    res = []
    # (the inherited-render class goes through the same fast path: it is run for the small signatures only)
    for path, cls in (("fast", fast), ("fallback", slow)) + ((("inherited", inherited),) if len(sig) <= 2 else ()):
        kind, log = observe_node(cls, call, ctx)
        problem = judge(exp, call, kind, log) if (judge_dups or not call.has_dup) else None
        res.append((path, kind, log, problem))
    paths_problem = None
    a, b = res[0], res[1]
    if outcome_key(a[1], a[2]) != outcome_key(b[1], b[2]):
        paths_problem = ("paths-disagree", f"fast path: {a[1]} {a[2]}, fallback path: {b[1]} {b[2]}")
    return exp, res, paths_problem


# ----------------------------------------------------------------------------- shrinking / identities
MAX_SHRINKS_PER_WORKER = 4000


_FAILS_MEMO: dict = {}


def _fails(sig, toks, path, clause, voff, tag, judge_dups, ctx, seam="node"):
    """Does (sig, call) still fail `clause` on `path`?  Memoised: shrinks of neighbouring failures share most candidates."""
    key = (sig, toks, voff, tag, judge_dups, seam)
    got = _FAILS_MEMO.get(key)
    if got is None:
        if len(_FAILS_MEMO) > 200000:
            _FAILS_MEMO.clear()
        exp, res, pp = check_pair(sig, Call(toks, voff), ctx, tag, judge_dups, seam)
        got = _FAILS_MEMO[key] = {"both": pp[0] if pp else None, **{p: (problem[0] if problem else None) for p, kind, log, problem in res}}
    return got.get(path) == clause


def sig_is_legal(sig):
    order = {"O": 0, "K": 1, "A": 2, "W": 3, "X": 4}
    last, seen_default = 0, False
    names = [p[2] for p in sig]
    if len(set(names)) != len(names):
        return False
    for k, d, _ in sig:
        o = order[k]
        if o < last or (o == last and k in "AX"):
            return False
        last = o
        if k in "OK":
            if seen_default and not d:
                return False
            seen_default = seen_default or bool(d)
    return True


def _simpler_tokens(t):
    """Candidate replacements of one token by a simpler one (tried in this order)."""
    if t[0] == "L":
        return [[("P",)], [("P",), ("P",)]]
    if t[0] == "D":
        return [[("K", t[1])]]
    if t[0] == "DV":
        return [[("D", t[1])]] + ([[("DV", t[1], "dict")]] if t[2] != "dict" else [])
    if t[0] == "LV":
        return [[("L",)]] + ([[("LV", "list")]] if t[1] != "list" else [])
    if t[0] == "K" and t[1] in ("class", "data-y"):
        return [[("K", "data-x")]]
    return []


UNKNOWN_NAMES = ["zz", "zy", "zx", "zw", "zv", "zu"]


def _rename(sig, toks):
    """First-use renaming: declared names -> p<position>, other plain identifiers -> zz, zy, ..."""
    m = {p[2]: f"p{i}" for i, p in enumerate(sig)}
    unk = iter(UNKNOWN_NAMES)
    out = []
    for t in toks:
        if t[0] in "KD" and is_plain_name(t[1]):
            if t[1] not in m:
                m[t[1]] = next(unk)
            out.append((t[0], m[t[1]]))
        else:
            out.append(t)
    return tuple((k, d, m[n]) for k, d, n in sig), tuple(out)


def _plain_names(sig, toks):
    """Declared names, then plain-identifier keys of the call, in first-use order."""
    out = [p[2] for p in sig]
    for t in toks:
        if t[0] in "KD" and is_plain_name(t[1]) and t[1] not in out:
            out.append(t[1])
    return out


def shrink(sig, toks, path, clause, voff, tag, judge_dups, ctx, rename=True, seam="node"):
    """Greedy delta: drop arguments / parameters / defaults, simplify tokens, rename - while the same clause still fails."""
    sig, toks = tuple(sig), tuple(toks)

    def fails(s, t):
        return sig_is_legal(s) and _fails(s, t, path, clause, voff, tag, judge_dups, ctx, seam)

    changed = True
    while changed:
        changed = False
        for i in range(len(toks)):
            cand = toks[:i] + toks[i + 1:]
            if fails(sig, cand):
                toks, changed = cand, True
                break
        if changed:
            continue
        for i in range(len(sig)):
            cand = sig[:i] + sig[i + 1:]
            if fails(cand, toks):
                sig, changed = cand, True
                break
        if changed:
            continue
        for i in range(len(sig)):  # a parameter together with one argument
            for j in range(len(toks)):
                cs, ct = sig[:i] + sig[i + 1:], toks[:j] + toks[j + 1:]
                if fails(cs, ct):
                    sig, toks, changed = cs, ct, True
                    break
            if changed:
                break
        if changed:
            continue
        for i in range(len(sig)):
            if sig[i][1]:
                cand = sig[:i] + ((sig[i][0], 0, sig[i][2]),) + sig[i + 1:]
                if fails(cand, toks):
                    sig, changed = cand, True
                    break
        if changed:
            continue
        for k in ("class", "data-y"):  # all occurrences of a special key at once
            if any(t[0] in "KD" and t[1] == k for t in toks):
                cand = tuple(("K", "data-x") if (t[0] in "KD" and t[1] == k) else t for t in toks)
                if fails(sig, cand):
                    toks, changed = cand, True
                    break
        if changed:
            continue
        for i in range(len(toks)):
            for rep in _simpler_tokens(toks[i]):
                cand = toks[:i] + tuple(rep) + toks[i + 1:]
                if fails(sig, cand):
                    toks, changed = cand, True
                    break
            if changed:
                break
    if rename:
        try:
            rsig, rtoks = _rename(sig, toks)
            if (rsig, rtoks) != (sig, toks) and fails(rsig, rtoks):
                sig, toks = rsig, rtoks
            elif rename == "each":
                # part D: the failure needs some of the unusual names - keep those, canonicalise the others one by one
                for old in _plain_names(sig, toks):
                    used = set(_plain_names(sig, toks))
                    decl = [p[2] for p in sig]
                    new = f"p{decl.index(old)}" if old in decl else next((u for u in UNKNOWN_NAMES if u not in used), None)
                    if new is None or new == old or new in used:
                        continue
                    csig = tuple((k, d, new if n == old else n) for k, d, n in sig)
                    ctoks = tuple((t[0], new) if (t[0] in "KD" and t[1] == old) else t for t in toks)
                    if fails(csig, ctoks):
                        sig, toks = csig, ctoks
        except StopIteration:
            pass
    return sig, toks


def repro_script(sig, call, path):
    """Stand-alone reproduction (plain Django + django-components, no framework)."""
    lines = [
        "# PYTHONPATH=/repo/src /venv/bin/python repro.py",
        "import django, inspect",
        "from django.conf import settings",
        "settings.configure(INSTALLED_APPS=['django_components'], COMPONENTS={'autodiscover': False, 'dirs': []},",
        "                   TEMPLATES=[{'BACKEND': 'django.template.backends.django.DjangoTemplates'}])",
        "django.setup()",
        "from django.template import Context",
        "from django_components import BaseNode",
        "from django_components.util.tag_parser import parse_tag",
        sig_text(sig) + ":",
        "    d = locals(); del d['self'], d['context']; print('  render called with', d); return ''",
        "f = render",
    ]
    if path == "fallback":
        lines += [
            "class Wrapped:  # a callable without __code__ -> validate_params() uses the inspect.Signature fallback",
            "    def __init__(self, fn): self.fn = fn; self.__signature__ = inspect.signature(fn)",
            "    def __call__(self, *a, **k): return self.fn(*a, **k)",
            "render = Wrapped(render)",
        ]
    lines.append("T = type('T', (BaseNode,), {'tag': 't', 'render': render})")
    if call.py is None:
        lines.append(f"print('python: SyntaxError, does not compile:', {call.pysrc!r})")
    else:
        lines += ["print('python:')", f"try: {call.pysrc}", "except TypeError as e: print('  TypeError:', e)"]
    lines += [
        "print('tag:')",
        f"try: T(params=parse_tag({('t ' + call.text).strip()!r}, None)[1][1:]).render(Context())",
        "except Exception as e: print('  ' + type(e).__name__ + ':', e)",
    ]
    return "\n".join(lines)


def report_failure(agg, state, part, sig, call, path, clause, text, voff, tag, judge_dups, ctx, seam="node"):
    if state["shrinks"] >= MAX_SHRINKS_PER_WORKER:
        agg.failures_dropped += 1  # still executed, judged and counted - only not shrunk to an identity of its own
        return
    state["shrinks"] += 1
    rename = False if part == "C" else ("each" if part == "D" else True)
    ssig, stoks = shrink(sig, call.toks, path, clause, voff, tag, judge_dups, ctx, rename=rename, seam=seam)
    scall = Call(stoks, voff)
    if path in ("fast", "fallback"):
        other = "fallback" if path == "fast" else "fast"
        if _fails(ssig, stoks, other, clause, voff, tag, judge_dups, ctx):
            path = "fast+fallback"
    ident = f"{part}|{clause}|{path}|{sig_text(ssig)}|{{% {tag} {Call(stoks, 0).text} %}}"  # independent of the seed
    if ident in state["idents"]:
        agg.extra["failures_same_identity"] += 1
        return
    state["idents"].add(ident)
    # explanation recomputed on the shrunk case
    exp, res, pp = check_pair(ssig, scall, ctx, tag, judge_dups, seam)
    if path == "both":
        why = pp[1] if pp else text
    else:
        why = next((r[3][1] for r in res if r[0] in path and r[3]), text)
    what = f"{sig_text(ssig)} with {{% {tag} {scall.text} %}} [{path} path] vs Python `{scall.pysrc}`: {why}"
    case = {
        "part": part, "sig": [list(p) for p in ssig], "call": [list(t) for t in stoks], "path": path, "clause": clause,
        "voff": voff, "tag": tag, "judge_dups": judge_dups, "seam": seam,
        "found_on": {"sig": sig_text(sig), "call": call.text},
        "repro": repro_script(ssig, Call(stoks, 0), "fallback" if path == "fallback" else "fast"),
    }
    agg.fail(ident, what, case)


# ----------------------------------------------------------------------------- part A
def call_stream(max_names, max_len):
    """Deterministic stream of (index, token tuple, names_needed) over the full alphabet, shortest first."""
    names = [f"p{i}" for i in range(max_names)]
    alpha = alphabet(names)
    need = {t: (int(t[1][1:]) + 1 if t[0] == "K" and t[1] in names else 0) for t in alpha}
    i = 0
    for L in range(0, max_len + 1):
        for toks in itertools.product(alpha, repeat=L):
            m = 0
            for t in toks:
                if need[t] > m:
                    m = need[t]
            yield i, toks, m
            i += 1


def _new_state():
    return {"shrinks": 0, "idents": set()}


def _part_a_worker(w, W, payload):
    from django.template import Context

    maxlen_by_n, voff, selftest = payload["maxlen_by_n"], payload["voff"], payload.get("selftest", 0)
    max_n = max(maxlen_by_n)
    sigs = enum_signatures(max_n)
    by_n = {}
    for s in sigs:
        by_n.setdefault(len(s), []).append(s)
    ctx = Context()
    agg = par.Agg()
    state = _new_state()
    digest = []
    for i, toks, m in call_stream(max_n, max(maxlen_by_n.values())):
        if selftest:
            if i >= selftest:
                break
        elif i % W != w:
            continue
        L = len(toks)
        ns = [n for n in range(m, max_n + 1) if maxlen_by_n.get(n, -1) >= L]
        if not ns:
            continue
        call = Call(toks, voff)
        agg.extra["calls"] += 1
        for n in ns:
            for sig in by_n[n]:
                exp, res, pp = check_pair(sig, call, ctx)
                agg.states += 1
                agg.transitions += 2
                agg.validated += 2
                if exp[0] == "ok":
                    cls_ = "agnostic_spread_after_keyword" if call.pos_after_kw else "python_accepts"
                    if not call.pos_after_kw:
                        agg.nontrivial += 1
                elif call.py is None:
                    cls_ = "python_syntax_error"
                else:
                    cls_ = "python_type_error"
                agg.expected[cls_] += 1
                for path, kind, log, problem in res:
                    agg.observe((path,) + outcome_key(kind, log))
                    agg.extra[f"{path}:{kind}"] += 1
                    if selftest:
                        digest.append((i, sig_text(sig), path, kind, repr(log)))
                    if problem:
                        report_failure(agg, state, "A", sig, call, path, problem[0], problem[1], voff, "c11", True, ctx)
                if pp and not (res[0][3] or res[1][3]):
                    # both individually acceptable (agnostic corner) but different: the paths must agree
                    report_failure(agg, state, "A", sig, call, "both", pp[0], pp[1], voff, "c11", True, ctx)
                elif pp:
                    agg.extra["paths_disagree_on_failing_pair"] += 1
                if exp[0] == "ok" and not call.pos_after_kw and len(agg.samples) < 2 and L >= 2 and len(sig) >= 2:
                    agg.sample({"signature": sig_text(sig), "tag": "{% c11 " + call.text + " %}", "python": call.pysrc, "binding": repr(exp[1])})
    if selftest:
        agg.extra_digest = digest  # type: ignore[attr-defined]
    return agg


# ----------------------------------------------------------------------------- part B (template_tag + Template)
_B_LIB = None
_B_TAGS: dict = {}  # signature -> (tag name, probe function)


def _part_b_setup():
    """A Library that the default engine treats as builtin; tags are added to it lazily (one per signature)."""
    global _B_LIB
    from django.template import Library
    from django.template.engine import Engine

    if _B_LIB is None:
        _B_LIB = Library()
        Engine.get_default().template_builtins.append(_B_LIB)


def _part_b_teardown():
    global _B_LIB
    from django.template.engine import Engine

    b = Engine.get_default().template_builtins
    if _B_LIB in b:
        b.remove(_B_LIB)
    _B_LIB = None
    _B_TAGS.clear()


def template_tag_for(sig):
    got = _B_TAGS.get(sig)
    if got is None:
        from django_components import template_tag

        _part_b_setup()
        name = f"c11b{len(_B_TAGS)}"
        fn = make_probe(sig)
        fn.__name__ = name
        template_tag(_B_LIB, tag=name)(fn)
        got = _B_TAGS[sig] = (name, fn)
    return got


def observe_template(tagname, call):
    from django.template import Context, Template

    del LOG[:]
    try:
        Template("{% " + tagname + (" " + call.text if call.text else "") + " %}").render(Context())
    except TypeError:
        kind = "TypeError"
    except SyntaxError:
        kind = "SyntaxError"
    except Exception as e:  # noqa
        kind = "exc:" + type(e).__name__
    else:
        kind = "ok"
    return kind, list(LOG)


def _part_b_worker(w, W, payload):
    max_n, max_len, voff = payload["max_n"], payload["max_len"], payload["voff"]
    sigs = enum_signatures(max_n)
    agg = par.Agg()
    state = _new_state()
    for i, toks, m in call_stream(max_n, max_len):
        if i % W != w:
            continue
        call = Call(toks, voff)
        for sig in sigs:
            if len(sig) < m:
                continue
            exp, res, _ = check_pair(sig, call, None, seam="template")
            _, kind, log, problem = res[0]
            agg.states += 1
            agg.transitions += 1
            agg.validated += 1
            if exp[0] == "ok" and not call.pos_after_kw:
                agg.nontrivial += 1
            agg.expected["python_accepts" if exp[0] == "ok" else "python_rejects"] += 1
            agg.observe(outcome_key(kind, log))
            if problem:
                report_failure(agg, state, "B", sig, call, "template", problem[0], problem[1], voff, "t", True, None, seam="template")
    return agg


# ----------------------------------------------------------------------------- part C (built-in signatures)
def builtin_signatures():
    """(tag, signature tuple) for every BaseNode subclass defined inside django_components."""
    import django_components  # noqa  (imports every built-in node module)
    from django_components.node import BaseNode

    found = []
    todo = list(BaseNode.__subclasses__())
    seen = set()
    while todo:
        c = todo.pop()
        if c in seen:
            continue
        seen.add(c)
        todo.extend(c.__subclasses__())
        if not c.__module__.startswith("django_components.") or not isinstance(getattr(c, "tag", None), str):
            continue
        if getattr(sys.modules.get(c.__module__), c.__name__, None) is not c:
            continue  # created at run time (e.g. by @template_tag), not a built-in
        kindmap = {
            inspect.Parameter.POSITIONAL_ONLY: "O", inspect.Parameter.POSITIONAL_OR_KEYWORD: "K",
            inspect.Parameter.VAR_POSITIONAL: "A", inspect.Parameter.KEYWORD_ONLY: "W", inspect.Parameter.VAR_KEYWORD: "X",
        }
        sig = tuple((kindmap[p.kind], 0 if p.default is inspect.Parameter.empty else 1, p.name) for p in c._signature.parameters.values())
        found.append((c.tag, c.__module__ + "." + c.__qualname__, sig))
    found.sort()
    return found


def _part_c_task(arg):
    from django.template import Context

    tag, qual, sig, max_len, voff = arg
    sig = tuple(tuple(p) for p in sig)
    names = [p[2] for p in sig]
    alpha = alphabet(names, spread_name=names[1] if len(names) > 1 else (names[0] if names else "p1"))
    ctx = Context()
    agg = par.Agg()
    state = _new_state()
    judge_dups = tag != "html_attrs"
    for L in range(0, max_len + 1):
        for toks in itertools.product(alpha, repeat=L):
            call = Call(toks, voff)
            exp, res, pp = check_pair(sig, call, ctx, tag, judge_dups)
            agg.states += 1
            agg.transitions += 2
            judged = judge_dups or not call.has_dup
            if judged:
                agg.validated += 2
                if exp[0] == "ok" and not call.pos_after_kw:
                    agg.nontrivial += 1
            agg.expected["python_accepts" if exp[0] == "ok" else "python_rejects"] += 1
            for path, kind, log, problem in res:
                agg.observe((tag, path) + outcome_key(kind, log))
                if problem:
                    report_failure(agg, state, "C", sig, call, path, problem[0], problem[1], voff, tag, judge_dups, ctx)
            if pp and judged and not (res[0][3] or res[1][3]):
                report_failure(agg, state, "C", sig, call, "both", pp[0], pp[1], voff, tag, judge_dups, ctx)
    return tag, qual, sig_text(sig), agg


# ----------------------------------------------------------------------------- part D (unusual but legal names)
# Soft keywords (keyword.softkwlist of 3.10-3.12: `_`, `case`, `match`, `type`) and a non-ASCII identifier.  All of them
# are plain identifiers on every supported Python; the list is fixed so that the space does not depend on the interpreter.
UNUSUAL_NAMES = {
    "quick": ("type", "match", "_", "größe"),
    "thorough": ("type", "match", "_", "größe", "case"),
}


def check_unusual_names(names):
    for n in names:
        ok = (
            n.isidentifier() and not keyword.iskeyword(n) and unicodedata.normalize("NFKC", n) == n
            and n not in ("self", "context", "__debug__") and not n.startswith("_c11")
        )
        if not ok:
            raise par.HarnessError(f"part D name {n!r} is not an unambiguous plain identifier on this interpreter")
    if len(set(names)) != len(names):
        raise par.HarnessError("part D names repeat")


def enum_named_signatures(maxn, names):
    """Every shape of length <= maxn with every injective assignment of `names` to its parameters."""
    return [
        tuple((k, d, nm) for (k, d), nm in zip(shape, pick))
        for shape in enum_shapes(maxn)
        for pick in itertools.permutations(names, len(shape))
    ]


def alphabet_d(names):
    return [("P",)] + [("K", n) for n in names] + [("K", "data-x"), ("K", "class"), ("L",)] + [("D", n) for n in names]


def _count_d(names, max_n, max_len):
    per_n = {}
    for shape in enum_shapes(max_n):
        per_n[len(shape)] = per_n.get(len(shape), 0) + 1
    nsig = 0
    for n, c in per_n.items():
        a = 1
        for j in range(n):
            a *= len(names) - j
        nsig += c * a
    ncalls = sum(len(alphabet_d(names)) ** L for L in range(0, max_len + 1))
    return nsig, ncalls


def _part_d_worker(w, W, payload):
    from django.template import Context

    names, max_n, max_len, voff, seam = payload["names"], payload["max_n"], payload["max_len"], payload["voff"], payload["seam"]
    sigs = enum_named_signatures(max_n, names)
    alpha = alphabet_d(names)
    nameset = set(names)
    # per signature: the names a keyword argument can bind to a *declared* parameter
    kw_bindable = {sig: {n for k, _, n in sig if k in "KW"} for sig in sigs}
    ctx = Context() if seam == "node" else None
    tag = "c11" if seam == "node" else "t"
    agg = par.Agg()
    state = _new_state()
    i = -1
    for L in range(0, max_len + 1):
        for toks in itertools.product(alpha, repeat=L):
            i += 1
            if i % W != w:
                continue
            call = Call(toks, voff)
            agg.extra["calls"] += 1
            keys = {k for k in call.flat if k in nameset}
            for sig in sigs:
                exp, res, pp = check_pair(sig, call, ctx, seam=seam)
                agg.states += 1
                agg.transitions += len(res)
                agg.validated += len(res)
                if exp[0] == "ok":
                    if call.pos_after_kw:
                        cls_ = "agnostic_spread_after_keyword"
                    elif keys & kw_bindable[sig]:
                        cls_ = "python_binds_declared_unusual_name_by_keyword"
                        agg.nontrivial += 1
                    elif keys:
                        cls_ = "python_puts_unusual_name_into_kwargs"
                        agg.nontrivial += 1
                    else:
                        cls_ = "python_accepts_without_unusual_keyword"
                elif call.py is None:
                    cls_ = "python_syntax_error"
                else:
                    cls_ = "python_type_error"
                agg.expected[cls_] += 1
                for path, kind, log, problem in res:
                    agg.observe((path,) + outcome_key(kind, log))
                    agg.extra[f"{path}:{kind}"] += 1
                    if problem:
                        report_failure(agg, state, "D", sig, call, path, problem[0], problem[1], voff, tag, True, ctx, seam=seam)
                if pp and not (res[0][3] or res[1][3]):
                    report_failure(agg, state, "D", sig, call, "both", pp[0], pp[1], voff, tag, True, ctx, seam=seam)
                if cls_ == "python_binds_declared_unusual_name_by_keyword" and len(agg.samples) < 2 and L >= 2 and len(sig) >= 2:
                    agg.sample({"signature": sig_text(sig), "tag": "{% " + tag + " " + call.text + " %}", "python": call.pysrc, "binding": repr(exp[1])})
    return agg


# ----------------------------------------------------------------------------- run / replay
# ----------------------------------------------------------------------------- part E (spread operand types)
def alphabet_e(names):
    keys = list(names[:2]) + ["zz", "data-y"]
    return ([("P",)] + [("K", n) for n in names[:2]]
            + [("DV", k, t) for k in keys for t in MAP_TYPES] + [("LV", t) for t in ITER_TYPES])


def _calls_e(names, max_len):
    alpha = alphabet_e(names)
    for L in range(1, max_len + 1):
        for toks in itertools.product(alpha, repeat=L):
            if any(t[0] in ("DV", "LV") for t in toks):
                yield toks


def _part_e_worker(w, W, payload):
    """`...var` with var a Mapping / an iterable of every type of MAP_TYPES / ITER_TYPES: Python's f(**m) / f(*it) is the twin"""
    from django.template import Context

    max_n, max_len, voff = payload["max_n"], payload["max_len"], payload["voff"]
    ctx = Context()
    agg = par.Agg()
    state = _new_state()
    i = -1
    for sig in enum_signatures(max_n):
        names = [p[2] for p in sig]
        for toks in _calls_e(names, max_len):
            i += 1
            if i % W != w:
                continue
            call = Call(toks, voff)
            exp, res, pp = check_pair(sig, call, ctx)
            agg.states += 1
            agg.transitions += 2
            agg.validated += 2
            if exp[0] == "ok" and not call.pos_after_kw:
                agg.nontrivial += 1
            agg.expected["agnostic_spread_after_keyword" if (exp[0] == "ok" and call.pos_after_kw) else "python_accepts" if exp[0] == "ok" else "python_rejects"] += 1
            for t in toks:
                if t[0] in ("DV", "LV"):
                    agg.extra["type:" + t[-1]] += 1
            for path, kind, log, problem in res:
                agg.observe((path,) + outcome_key(kind, log))
                if problem:
                    report_failure(agg, state, "E", sig, call, path, problem[0], problem[1], voff, "c11", True, ctx)
            if pp and not (res[0][3] or res[1][3]):
                report_failure(agg, state, "E", sig, call, "both", pp[0], pp[1], voff, "c11", True, ctx)
    return agg


def _count_pairs(maxlen_by_n):
    max_n = max(maxlen_by_n)
    per_n = {}
    for s in enum_signatures(max_n):
        per_n[len(s)] = per_n.get(len(s), 0) + 1
    total = 0
    for n, c in per_n.items():
        total += c * sum((7 + n) ** L for L in range(0, maxlen_by_n[n] + 1))
    return total, per_n


def run(ctx):
    ev, fnd = ctx.ev, ctx.fnd
    thorough = ctx.tier == "thorough"
    voff = (ctx.seed % 7) * 1000  # symmetric representative of the literal values only
    ev.rule = (
        "ENUM: every (render signature, call sequence) pair of the bounded product is executed on the real tag machinery "
        "(fast and fallback validation path) and on Python's own call binding of the same probe function; "
        "non-trivial = pairs that Python accepts, so that the complete binding (defaults, *args, **kwargs) is compared"
    )
    if thorough:
        maxlen_by_n = {0: 5, 1: 5, 2: 5, 3: 5, 4: 4, 5: 4}
        b_n, b_len, c_len = 4, 3, 4
        d_node, d_tmpl = (3, 3), (2, 2)  # (max params, max call length)
    else:
        maxlen_by_n = {0: 4, 1: 4, 2: 4, 3: 4, 4: 3, 5: 3}
        b_n, b_len, c_len = 3, 2, 3
        d_node, d_tmpl = (2, 3), (1, 2)
    want_pairs, per_n = _count_pairs(maxlen_by_n)
    print(f"C11 part A: {sum(per_n.values())} signatures {per_n}, call length bound per size {maxlen_by_n}: {want_pairs} pairs x 2 paths", flush=True)

    # determinism self-test (DESIGN 1.3): same prefix twice in this process and once in a forked one
    st_payload = {"maxlen_by_n": {0: 2, 1: 2, 2: 2}, "voff": voff, "selftest": 40}
    d1 = _part_a_worker(0, 1, st_payload).extra_digest
    d2 = _part_a_worker(0, 1, st_payload).extra_digest
    d3 = par.run_tasks(_selftest_task, [st_payload, st_payload])[0]
    if not (d1 == d2 == d3) or not d1:
        raise par.HarnessError("determinism self-test failed: the same cases gave different observations")

    # ---- part A
    for s in enum_signatures(max(maxlen_by_n)):
        node_classes(s)  # built before the fork so that workers share them
    agg = par.run_sharded(_part_a_worker, {"maxlen_by_n": maxlen_by_n, "voff": voff})
    if agg.states != want_pairs:
        raise par.HarnessError(f"part A executed {agg.states} pairs, the product has {want_pairs}")
    ev.add_part(
        "A_node_render", states=agg.states, transitions=agg.transitions, validated=agg.validated, nontrivial=agg.nontrivial,
        observed_distinct=len(agg.observed), expected=agg.expected,
        bound={"max_params": max(maxlen_by_n), "max_call_len_by_param_count": {str(k): v for k, v in maxlen_by_n.items()},
               "signatures": sum(per_n.values()), "call_shapes": agg.extra["calls"], "alphabet": "P p_i= zz= data-x= class= ...[..] ...{p1} ...{data-y}"},
        samples=agg.samples[:3], extra={"outcomes_by_path": {k: v for k, v in sorted(agg.extra.items()) if ":" in k}},
    )
    fnd.merge_reports(agg.failures)
    dropped = agg.failures_dropped

    # ---- part B
    sigs_b = enum_signatures(b_n)
    for sg in sigs_b:
        template_tag_for(sg)  # registered before the fork
    try:
        aggb = par.run_sharded(_part_b_worker, {"max_n": b_n, "max_len": b_len, "voff": voff})
    finally:
        _part_b_teardown()
    ev.add_part(
        "B_template_tag_through_Template", states=aggb.states, transitions=aggb.transitions, validated=aggb.validated,
        nontrivial=aggb.nontrivial, observed_distinct=len(aggb.observed), expected=aggb.expected,
        bound={"max_params": b_n, "max_call_len": b_len, "signatures": len(sigs_b)},
    )
    fnd.merge_reports(aggb.failures)
    dropped += aggb.failures_dropped

    # ---- part C
    builtins = builtin_signatures()
    if len(builtins) < 5:
        raise par.HarnessError(f"only {len(builtins)} built-in node classes found")
    tasks = [(tag, qual, [list(p) for p in sig], c_len if len(sig) <= 3 else c_len - 1, voff) for tag, qual, sig in builtins]
    for tag, qual, sigtxt, aggc in par.run_tasks(_part_c_task, tasks):
        ev.add_part(
            f"C_builtin_{tag}", states=aggc.states, transitions=aggc.transitions, validated=aggc.validated,
            nontrivial=aggc.nontrivial, observed_distinct=len(aggc.observed), expected=aggc.expected,
            bound={"signature": sigtxt, "class": qual},
        )
        fnd.merge_reports(aggc.failures)
        dropped += aggc.failures_dropped

    # ---- part D: soft keywords / non-ASCII identifiers as parameter names and keyword keys
    d_names = UNUSUAL_NAMES[ctx.tier if ctx.tier in UNUSUAL_NAMES else "quick"]
    check_unusual_names(d_names)
    d_alpha = "P <name>= (every unusual name) data-x= class= ...[..] ...{<name>} (every unusual name)"
    for seam, (d_n, d_len) in (("node", d_node), ("template", d_tmpl)):
        nsig, ncalls = _count_d(d_names, d_n, d_len)
        print(f"C11 part D ({seam}): names {list(d_names)}, {nsig} signatures (<= {d_n} params) x {ncalls} calls (<= {d_len} args) = {nsig * ncalls} pairs", flush=True)
        sigs_d = enum_named_signatures(d_n, d_names)
        if len(sigs_d) != nsig or len(set(sigs_d)) != nsig:
            raise par.HarnessError(f"part D enumerates {len(sigs_d)} signatures, counted {nsig}")
        payload = {"names": d_names, "max_n": d_n, "max_len": d_len, "voff": voff, "seam": seam}
        try:
            for sg in sigs_d:  # built / registered before the fork so that workers share them
                if seam == "node":
                    node_classes(sg)
                else:
                    template_tag_for(sg)
            aggd = par.run_sharded(_part_d_worker, payload)
        finally:
            if seam == "template":
                _part_b_teardown()
        if aggd.states != nsig * ncalls:
            raise par.HarnessError(f"part D ({seam}) executed {aggd.states} pairs, the product has {nsig * ncalls}")
        if not aggd.expected["python_binds_declared_unusual_name_by_keyword"]:
            raise par.HarnessError(f"part D ({seam}) never bound a declared unusual name by keyword")
        ev.add_part(
            f"D_unusual_names_{seam}", states=aggd.states, transitions=aggd.transitions, validated=aggd.validated,
            nontrivial=aggd.nontrivial, observed_distinct=len(aggd.observed), expected=aggd.expected,
            bound={"names": list(d_names), "max_params": d_n, "max_call_len": d_len, "signatures": nsig,
                   "call_shapes": aggd.extra["calls"], "alphabet": d_alpha},
            samples=aggd.samples[:2], extra={"outcomes_by_path": {k: v for k, v in sorted(aggd.extra.items()) if ":" in k}},
        )
        fnd.merge_reports(aggd.failures)
        dropped += aggd.failures_dropped
    # ---- part E: spread operands of every Mapping / iterable type
    e_n, e_len = (3, 2) if thorough else (2, 2)
    for sg in enum_signatures(e_n):
        node_classes(sg)
    agge = par.run_sharded(_part_e_worker, {"max_n": e_n, "max_len": e_len, "voff": voff})
    if not agge.nontrivial:
        raise par.HarnessError("part E never produced a call that Python accepts")
    ev.add_part(
        "E_spread_operand_types", states=agge.states, transitions=agge.transitions, validated=agge.validated, nontrivial=agge.nontrivial,
        observed_distinct=len(agge.observed), expected=agge.expected,
        bound={"max_params": e_n, "max_call_len": e_len, "mapping_types": list(MAP_TYPES), "iterable_types": list(ITER_TYPES),
               "alphabet": "P p_i= ...<mapping var of every type, key p0/p1/zz/data-y> ...<iterable var of every type>; >= 1 typed spread per call"},
        extra={"operands_by_type": {k[5:]: v for k, v in sorted(agge.extra.items()) if k.startswith("type:")}},
    )
    fnd.merge_reports(agge.failures)
    dropped += agge.failures_dropped
    if dropped:
        # every pair was executed and judged; beyond MAX_SHRINKS_PER_WORKER failing pairs per worker are only counted
        ev.extra["failing_pairs_counted_but_not_shrunk"] = dropped
    ev.assumptions = [
        "argument values are integer literals (part E: `...var` spreads of typed operands); how values are written and resolved is C02",
        "a list spread placed after a plain keyword argument is accepted under either reading (error, or Python's f(a=1, *[..]) binding)",
        "order of entries inside **kwargs and exception messages are not compared",
        "the fallback path is reached with a callable object that has no __code__ (the only thing validate_params() dispatches on)",
        "part C uses probes with the signatures and tag names of the built-in nodes; html_attrs calls with a repeated key are not judged (documented merge)",
        "part D names are NFKC-stable identifiers other than __debug__/self/context, for which f(name=V) and f(**{'name': V}) mean the same",
    ]


def _selftest_task(payload):
    return _part_a_worker(0, 1, payload).extra_digest


def replay(ctx, case):
    from django.template import Context

    part = case.get("part")
    sig = tuple(tuple(p) for p in case["sig"])
    call = Call(case["call"], case.get("voff", 0))
    tag = case.get("tag", "c11")
    print(sig_text(sig), "   {% " + tag + " " + call.text + " %}", "   python:", call.pysrc)
    try:
        exp, res, pp = check_pair(sig, call, Context(), tag, case.get("judge_dups", True), case.get("seam", "node"))
    finally:
        _part_b_teardown()
    print("python:", exp)
    ok = True
    want = case.get("path")
    for path, kind, log, problem in res:
        print(f"{path}: {kind} {log} -> {problem}")
        if problem and (want in ("both", None) or path in want):
            ok = False
    if pp:
        print("paths:", pp)
        if want == "both":
            ok = False
    return ok
