"""C14 - root elements of a component instance, and only they, carry its render id (PROG).

Every program of the element profile (text, for, <div data-n=...> elements, slot, component
with fills; every component template starts with the text echo `[name:{{ my_id }}]` where
my_id is Component.id read in get_context_data) with <= N nodes is rendered; the final HTML is
parsed with html.parser and for every element the set of data-djc-id-* attributes must equal
{id(I) | the element is a root of instance I} as computed by the reference interpreter
(an element is a root of I when no other element lies between it and I's output boundary -
so roots contributed by fills rendered at root level and by child components that are
themselves roots carry the ids of all enclosing instances).  Ids are distinct and equal the
echoed Component.id.  The structured roots family is additionally rendered with an unrelated
Python-API render (succeeding / failing at three points, error caught) inside every component's
on_render_before / on_render_after hook: ids and output must not change.  Thorough adds the depth families chain(d) / nest(d) up to d = 2000.
"""
from __future__ import annotations

import re
from html.parser import HTMLParser

from mc import boot, par
from mc.prog import CompSpec, Harness, Interp, strip_markers
from mc.proggen import Gen, Profile
from mc.progrun import core_of, model_outcome, prog_from_spec, prog_size, prog_spec, run_parts

PID = "C14"
LEVEL = "model_checking"
DJANGO = {}

B = dict(use_if=False, use_alias=False, use_dyn_names=False, use_ws_body=False, fill_text_mix=False,
         elems=("div",), slot_names=("x",), fill_names=("x",), slot_flags=("",))
B_NOFOR = dict(B, use_for=False)


def make_spec(name, template):
    # echo first: "[a:<id>]"
    tpl = (("T", "[%s:" % name), ("V", "my_id"), ("T", "]")) + tuple(template or ())
    return CompSpec(name, tpl, {"my_id": ("id",)}, ())


def bounds(tier):
    if tier == "thorough":
        return {"django": [("elem", B, 5, 0), ("elem_nofor", B_NOFOR, 6, 5)], "isolated": [("elem", B, 5, 0)]}
    return {"django": [("elem", B, 4, 0), ("elem_nofor", B_NOFOR, 5, 4)], "isolated": [("elem", B, 4, 0)]}


class ModelParser(HTMLParser):
    """parses the interpreter's marked output: elements + instance brackets"""

    def __init__(self):
        super().__init__(convert_charrefs=True)
        self.stack = []
        self.elems = []  # (data-n, frozenset(instance idx))

    def handle_starttag(self, tag, attrs):
        roots = []
        for kind, v in reversed(self.stack):
            if kind == "el":
                break
            roots.append(v)
        n = dict(attrs).get("data-n")
        self.elems.append((n, frozenset(roots)))
        self.stack.append(("el", n))

    def handle_endtag(self, tag):
        # pop up to the matching element (instances inside are closed by their own brackets)
        while self.stack and self.stack[-1][0] != "el":
            self.stack.pop()
        if self.stack:
            self.stack.pop()

    def handle_data(self, data):
        i = 0
        while i < len(data):
            ch = data[i]
            if ch == "\ue000":
                j = data.index("\ue001", i)
                self.stack.append(("inst", int(data[i + 1:j])))
                i = j + 1
                continue
            if ch == "\ue002":
                while self.stack and self.stack[-1][0] != "inst":
                    self.stack.pop()
                if self.stack:
                    self.stack.pop()
            i += 1


ECHO_RE = re.compile(r"\[(\w+):(\w+)\]")


class RealParser(HTMLParser):
    def __init__(self):
        super().__init__(convert_charrefs=True)
        self.elems = []  # (data-n, frozenset(ids))
        self.echo_ids = []
        self.other_attr_problems = []

    def handle_starttag(self, tag, attrs):
        d = {}
        # html.parser lower-cases attribute names; ids are case-sensitive, so they are read from the raw tag text
        ids = re.findall(r"\sdata-djc-id-(\w+)", self.get_starttag_text())
        nattr = 0
        for k, v in attrs:
            if k.startswith("data-djc-id-"):
                nattr += 1
            else:
                d[k] = v
        if nattr != len(ids):
            self.other_attr_problems.append(f"id attributes of <{tag} data-n={d.get('data-n')}> not readable from the raw tag text")
        if len(ids) != len(set(ids)):
            self.other_attr_problems.append(f"duplicate id attribute on <{tag} data-n={d.get('data-n')}>")
        self.elems.append((d.get("data-n"), frozenset(ids)))

    def handle_data(self, data):
        for m in ECHO_RE.finditer(data):
            self.echo_ids.append(m.group(2))


def expected_roots(prog, mode):
    exp, it = model_outcome(prog, mode, mark=True)
    if exp[0] != "ok":
        return exp, None
    mp = ModelParser()
    mp.feed(exp[1])
    mp.close()
    return exp, mp.elems


def check_one(prog, mode, html):
    """-> None or (clause, text)"""
    exp, elems = expected_roots(prog, mode)
    if exp[0] != "ok":
        return None
    rp = RealParser()
    rp.feed(html)
    rp.close()
    if rp.other_attr_problems:
        return ("dup-attr", rp.other_attr_problems[0])
    ids = rp.echo_ids
    if len(set(ids)) != len(ids):
        return ("ids-not-distinct", f"echoed Component.id values are not distinct: {ids}")
    idx_of = {rid: i for i, rid in enumerate(ids)}
    got = []
    for n, idset in rp.elems:
        unknown = [i for i in idset if i not in idx_of]
        if unknown:
            return ("unknown-id", f"element data-n={n} carries id(s) {unknown} that no instance reported as Component.id (echoed ids {ids})")
        got.append((n, frozenset(idx_of[i] for i in idset)))
    if got != elems:
        e = [(n, sorted(s)) for n, s in elems]
        g = [(n, sorted(s)) for n, s in got]
        return ("roots", f"expected (element, root-of instances) {e}, got {g}")
    return None


def strip_echo(prog):
    """the same program without the id echo at the start of every component template"""
    from mc.prog import Program

    comps = {n: CompSpec(n, tuple(c.template[3:]), {}, ()) for n, c in prog.comps.items()}
    return Program(prog.page, comps, prog.ctx)


def check_structure(prog, mode, html):
    """Echo-free second pass: ids cannot be mapped to instances by name, so the *structure* is compared - the family of
    element sets {elements that are roots of instance I} must equal, as a multiset, the family {elements carrying id X}.
    (With the echo, a component template never starts with a nested component - the echo-free pass covers those.)"""
    exp, elems = expected_roots(prog, mode)
    if exp[0] != "ok":
        return None
    rp = RealParser()
    rp.feed(html)
    rp.close()
    if [n for n, _ in rp.elems] != [n for n, _ in elems]:
        return ("structure-elements", f"elements differ: expected {[n for n, _ in elems]}, got {[n for n, _ in rp.elems]}")
    want, got = {}, {}
    for pos, (_, insts) in enumerate(elems):
        for i in insts:
            want.setdefault(i, set()).add(pos)
    for pos, (_, ids) in enumerate(rp.elems):
        for i in ids:
            got.setdefault(i, set()).add(pos)
    w_ = sorted(sorted(v) for v in want.values())
    g_ = sorted(sorted(v) for v in got.values())
    if w_ != g_:
        names = [n for n, _ in elems]
        return ("structure-roots", f"per-instance root element sets expected {[[names[p] for p in v] for v in w_]}, "
                                   f"per-id element sets got {[[names[p] for p in v] for v in g_]}")
    return None


def second_pass(prog, mode, h, agg, tag):
    p2 = strip_echo(prog)
    h.install(p2)
    obs = h.render_page(p2)
    boot.clear_render_registries()
    agg.transitions += 1
    if obs[0] != "ok":
        return
    bad = check_structure(p2, mode, obs[1])
    agg.validated += 1
    if bad:
        agg.fail(f"{mode}:{tag}{bad[0]}:{core_of(p2)}", f"[{mode}, without id echo] {bad[1]}", {"mode": mode, "program": p2.to_json(mode), "spec": prog_spec(p2), "echo": False})


def worker(w, W, payload):
    pfkw, N, skip, mode, _ = payload
    boot.set_components_setting(context_behavior=mode)
    gen = Gen(Profile(**pfkw))
    h = Harness()
    agg = par.Agg()
    i = -1
    for prog in gen.programs(N, make_spec, {}):
        i += 1
        if i % W != w:
            continue
        if skip and prog_size(prog) <= skip:
            continue
        agg.states += 1
        boot.ID_SEAM.reset(agg.states * 64 % 0x40000)
        h.install(prog)
        obs = h.render_page(prog)
        boot.clear_render_registries()
        agg.transitions += 1
        if obs[0] != "ok":
            agg.expected["impl-error"] += 1
            exp, _ = model_outcome(prog, mode)
            if exp[0] == "ok":
                agg.fail(f"{mode}:error:{core_of(prog)}", f"[{mode}] render failed with {obs}, model renders fine",
                         {"mode": mode, "program": prog.to_json(mode), "spec": prog_spec(prog)})
            continue
        bad = check_one(prog, mode, obs[1])
        agg.validated += 1
        nel = obs[1].count("data-n=")
        agg.expected["elements:%d" % min(nel, 4)] += 1
        if nel:
            agg.nontrivial += 1
        agg.observe(re.sub(boot.ID_PATTERN, "ID", obs[1]))
        if bad:
            agg.fail(f"{mode}:{bad[0]}:{core_of(prog)}", f"[{mode}] {bad[1]}",
                     {"mode": mode, "program": prog.to_json(mode), "spec": prog_spec(prog)})
        elif nel:
            second_pass(prog, mode, h, agg, "")
        if agg.states == 40 and w == 5:
            agg.sample({"mode": mode, "page": prog.page_source(), "components": {n: c.source() for n, c in prog.comps.items()},
                        "html": obs[1][:400]})
    h.uninstall()
    return agg


# ---------------------------------------------------------------- structured roots family
# page -> a -> b (-> c): a's template is every sequence of <= 3 root items over {element, text, slot x, component b};
# the page fills slot x with nothing / a component / an element / both; b's template is one of five root shapes.
# These 7-12 node shapes (a fill handed down from the page into a root-level slot next to further root-level
# components, component-as-root chains below them) are beyond the node-bounded enumeration.
def roots_programs():
    import itertools

    from mc.prog import Program
    from mc.proggen import label

    T = ("T", None)
    E = ("El", "div", None, ())
    # "P": a's slot x handed on (pass-through) inside the fill for the slot of a further root-level component d,
    # whose own slot sits inside an element: the page-level fill is then rendered during d's deferred render
    ITEMS = {"E": E, "T": T, "S": ("Slot", "x", "", (), (("Comp", "b", (), False, None),)), "B": ("Comp", "b", (), False, None),
             "P": ("Comp", "d", (), False, (("Fill", "y", None, None, (("Slot", "x", "", (), ()),)),))}
    D_TPL = (("El", "div", None, (("Slot", "y", "", (), ()),)),)
    B_TPLS = [(E,), (E, E), (T, E), (("Comp", "c", (), False, None),), (("El", "div", None, (("Comp", "c", (), False, None),)), ("Comp", "c", (), False, None))]
    FILLS = [None, (("Comp", "b", (), False, None),), (E,), (("Comp", "b", (), False, None), E), (("Comp", "c", (), False, None), ("Comp", "b", (), False, None))]
    for n in (1, 2, 3):
        for seq_ in itertools.product("ETSBP", repeat=n):
            if "S" not in seq_ and "B" not in seq_ and "P" not in seq_:
                continue
            if seq_.count("S") + seq_.count("P") > 1 and n == 3 and "T" in seq_:
                continue
            if any(seq_[i] == "T" and seq_[i + 1] == "T" for i in range(len(seq_) - 1)):
                continue
            for fill in FILLS:
                if fill is not None and "S" not in seq_ and "P" not in seq_:
                    continue
                for b_tpl in B_TPLS:
                    a_tpl = tuple(ITEMS[ch] for ch in seq_)
                    body = None if fill is None else (("Fill", "x", None, None, fill),)
                    page = (("Comp", "a", (), False, body),)
                    comps = {"a": make_spec("a", label(a_tpl, "A")), "b": make_spec("b", label(b_tpl, "B")),
                             "c": make_spec("c", label((E,), "C")), "d": make_spec("d", label(D_TPL, "D"))}
                    yield Program(label(page, "P"), comps, {})


# Side renders: while the page render is in flight, every component of the family performs - from its
# on_render_before hook (during its own render) or its on_render_after hook (inside the deferred queue) - an
# independent Python-API render of an unrelated component and discards the result; the unrelated render succeeds,
# fails in get_context_data, fails in its on_render_after, or fails in a nested child (the application catches the
# error).  The page's ids must be exactly what they are without the side renders.
from mc.prog import SIDE_KINDS, SIDE_POS, side_attrs  # noqa: E402


def roots_worker(w, W, payload):
    (mode,) = payload
    boot.set_components_setting(context_behavior=mode)
    h = Harness()
    agg = par.Agg()
    for i, prog in enumerate(roots_programs()):
        if i % W != w:
            continue
        agg.states += 1
        boot.ID_SEAM.reset(agg.states * 64 % 0x40000)
        h.install(prog)
        obs = h.render_page(prog)
        boot.clear_render_registries()
        agg.transitions += 1
        if obs[0] != "ok":
            agg.fail(f"{mode}:roots-family:error:{core_of(prog)}", f"[{mode}] render failed with {obs}", {"mode": mode, "program": prog.to_json(mode), "spec": prog_spec(prog)})
            continue
        bad = check_one(prog, mode, obs[1])
        agg.validated += 1
        agg.nontrivial += 1
        agg.expected["elements:%d" % min(obs[1].count("data-n="), 6)] += 1
        agg.observe(re.sub(boot.ID_PATTERN, "ID", obs[1]))
        if bad:
            agg.fail(f"{mode}:roots-family:{bad[0]}:{core_of(prog)}", f"[{mode}] {bad[1]}", {"mode": mode, "program": prog.to_json(mode), "spec": prog_spec(prog)})
        else:
            second_pass(prog, mode, h, agg, "roots-family:")
            base = re.sub(boot.ID_PATTERN, "ID", obs[1])
            for pos in SIDE_POS:
                for kind in SIDE_KINDS:
                    boot.ID_SEAM.reset(agg.states * 64 % 0x40000)
                    h.install(prog, extra_attrs=side_attrs(prog, pos, kind))
                    obs2 = h.render_page(prog)
                    boot.clear_render_registries()
                    agg.transitions += 1
                    agg.expected["side:%s:%s" % (pos, kind)] += 1
                    if obs2[0] != "ok":
                        bad2 = ("error", f"render failed with {obs2}")
                    else:
                        bad2 = check_one(prog, mode, obs2[1])
                        if not bad2 and re.sub(boot.ID_PATTERN, "ID", obs2[1]) != base:
                            bad2 = ("side-output", f"output differs from the render without side renders: {obs2[1][:300]!r} vs {obs[1][:300]!r}")
                    agg.validated += 1
                    if bad2:
                        agg.fail(f"{mode}:roots-family:side-{pos}-{kind}:{bad2[0]}:{core_of(prog)}",
                                 f"[{mode}, unrelated {kind} render inside every on_render_{pos}] {bad2[1]}",
                                 {"mode": mode, "program": prog.to_json(mode), "spec": prog_spec(prog), "side": [pos, kind]})
        if agg.states == 12 and w == 3:
            agg.sample({"mode": mode, "page": prog.page_source(), "components": {n: c.source() for n, c in prog.comps.items()}, "html": obs[1][:400]})
    h.uninstall()
    return agg


# ---------------------------------------------------------------- depth families
def depth_task(arg):
    """chain(d): component c_d whose sole root is the component c_{d-1} ... leaf <div>; the leaf
    element must carry d ids.  nest(d): <div> wrapping a child component at every level: each
    div carries exactly one id."""
    import sys

    from django.template import Context, Template

    from django_components import Component
    from django_components.component_registry import registry

    kind, d = arg
    boot.set_components_setting(context_behavior="django")
    boot.ID_SEAM.reset()
    only = ""
    if kind.endswith("_only"):  # the child is called with the `only` flag (isolated context copy)
        kind, only = kind[:-5], " only"

    def gcd(self, depth=0):
        return {"my_id": self.id, "depth": int(depth), "next": int(depth) - 1, "one": [1]}

    if kind == "reentrant":
        # the SAME instance renders itself again from within get_context_data (documented: Component.id is the
        # id of the deepest-most render): every render's echoed id must be the id on that render's own root
        def gcd(self, depth=0):  # noqa: F811
            depth = int(depth)
            inner = self.render(kwargs={"depth": depth - 1}, render_dependencies=False) if depth > 0 else ""
            return {"my_id": self.id, "depth": depth, "inner": inner}

        tpl = "<div data-n=\"d{{ depth }}\">[r:{{ my_id }}]{{ inner|safe }}</div>"
    elif kind == "chain":
        tpl = "[r:{{ my_id }}]{% if depth > 0 %}{% component 'c14rec' depth=next / %}{% else %}<div data-n=\"leaf\">x</div>{% endif %}"
    elif kind == "loopnest":
        # every level sits inside a {% for %}: the forloop/parentloop chain is as long as the nesting is deep
        tpl = "[r:{{ my_id }}]<div data-n=\"d{{ depth }}\">{% if depth > 0 %}{% for i in one %}{% component 'c14rec' depth=next / %}{% endfor %}{% endif %}</div>"
    else:
        tpl = "[r:{{ my_id }}]<div data-n=\"d{{ depth }}\">{% if depth > 0 %}{% component 'c14rec' depth=next / %}{% endif %}</div>"
    tpl = tpl.replace(" depth=next / %}", " depth=next" + only + " / %}")
    kind = arg[0]
    cls = type("C14Rec", (Component,), {"template": tpl, "get_context_data": gcd, "__module__": "verif_c14"})
    if "c14rec" in registry.all():
        registry.unregister("c14rec")
    registry.register("c14rec", cls)
    try:
        html = Template("{% component 'c14rec' depth=d / %}").render(Context({"d": d, "one": [1]}))
    except Exception as e:  # noqa
        boot.clear_render_registries()
        registry.unregister("c14rec")
        return kind, d, f"render of depth {d} raised {type(e).__name__}: {str(e)[:200]}"
    boot.clear_render_registries()
    registry.unregister("c14rec")
    rp = RealParser()
    rp.feed(html)
    rp.close()
    ids = rp.echo_ids
    if len(ids) != d + 1 or len(set(ids)) != d + 1:
        return kind, d, f"expected {d + 1} distinct instance ids, got {len(ids)} ({len(set(ids))} distinct)"
    kind = kind[:-5] if kind.endswith("_only") else kind
    if kind == "chain":
        if len(rp.elems) != 1 or rp.elems[0][1] != frozenset(ids):
            return kind, d, f"leaf element should carry all {d + 1} ids, carries {len(rp.elems[0][1]) if rp.elems else 'no element'}"
    elif kind == "reentrant":
        # document order of echoes = outermost first; element d<k> must carry exactly the id echoed inside it
        want = [("d%d" % (d - i), frozenset([ids[i]])) for i in range(d + 1)]
        if rp.elems != want:
            return kind, d, f"reentrant({d}): elements carry {[(n, sorted(x)) for n, x in rp.elems]}, the renders reported Component.id {ids} (outermost first)"
    else:
        want = [("d%d" % (d - i), frozenset([ids[i]])) for i in range(d + 1)]
        if rp.elems != want:
            bad = next((i for i, (a, b) in enumerate(zip(rp.elems, want)) if a != b), None)
            return kind, d, f"nest({d}): element #{bad} carries {rp.elems[bad] if bad is not None and bad < len(rp.elems) else None}, expected {want[bad] if bad is not None else None}"
    return kind, d, None


# ------------------------------------------------------------------ part: the library's own id generator
REAL_SHAPES = {
    "siblings": "{% component 'rid' / %}" * 6,
    "loop": "{% for q in '12345' %}{% component 'rid' / %}{% endfor %}",
    "nested": "{% component 'rid' %}{% component 'rid' %}{% component 'rid' %}{% component 'rid' / %}{% endcomponent %}{% endcomponent %}{% endcomponent %}",
    "siblings_in_parent": "{% component 'rid' %}" + "{% component 'rid' / %}" * 4 + "{% endcomponent %}",
}
REAL_PERTURB = ("none", "random.seed(const) in get_context_data", "random.seed(name) in get_context_data", "random.seed(const) in on_render_before",
                "random.setstate(saved) in get_context_data")


def real_ids_task(arg):
    """All other parts replace the id generator by a deterministic counter.  Here the REAL generator runs while user callbacks
    do what user code legitimately does with process-global randomness (seeding `random` for a stable colour / shuffle): the ids
    of one page must stay distinct, each element must carry the id its instance reported, over the real alphabet."""
    import random
    import re

    from django.template import Context, Template

    import django_components.util.misc as misc
    from django_components import Component
    from django_components.component_registry import registry
    from django_components.util.nanoid import generate as real_generate

    mode, perturb = arg
    boot.set_components_setting(context_behavior=mode)
    saved_state = random.getstate()

    def gcd(self, **kw):
        if perturb == "random.seed(const) in get_context_data":
            random.seed(7)
        elif perturb == "random.seed(name) in get_context_data":
            random.seed(self.name)
        elif perturb == "random.setstate(saved) in get_context_data":
            random.setstate(saved_state)
        return {"my_id": self.id}

    def before(self, context, template):
        if perturb == "random.seed(const) in on_render_before":
            random.seed(7)

    cls = type("C14RealId", (Component,), {"__module__": "verif_c14r", "template": "<div>[{{ my_id }}]{% slot 'x' default / %}</div>",
                                          "get_context_data": gcd, "on_render_before": before})
    if "rid" in registry.all():
        registry.unregister("rid")
    registry.register("rid", cls)
    seam = misc.generate
    misc.generate = real_generate
    out = []
    try:
        for shape, src in REAL_SHAPES.items():
            problem = None
            try:
                html = Template(src).render(Context({}))
            except Exception as e:  # noqa
                boot.clear_render_registries()
                problem = f"render raised {type(e).__name__}: {str(e)[:200]}"
                html = ""
            if problem is None:
                pairs = re.findall(r"<div((?: data-djc-id-\w+(?:=\"\")?)*)>\[(\w*)\]", html)
                echoes = [e for _, e in pairs]
                n_expected = src.count("component 'rid'") * (5 if shape == "loop" else 1)
                if len(pairs) != n_expected:
                    problem = f"{len(pairs)} component elements found, expected {n_expected}: {html[:300]!r}"
                elif len(set(echoes)) != len(echoes):
                    problem = f"Component.id values are not distinct: {echoes}"
                elif any(not re.fullmatch(r"[0-9a-zA-Z]{6}", e) for e in echoes):
                    problem = f"ids outside the documented alphabet / length: {echoes}"
                else:
                    for attrs, e in pairs:
                        ids = re.findall(r"data-djc-id-(\w+)", attrs)
                        if e not in ids:
                            problem = f"the root element of the instance that reported id {e} carries {ids}"
                            break
            out.append((mode, perturb, shape, problem))
    finally:
        misc.generate = seam
        random.setstate(saved_state)
        boot.clear_render_registries()
        registry.unregister("rid")
    return out


def run(ctx):
    ev = ctx.ev
    ev.rule = ("PROG: every program over text, for, <div> elements, slot x, component tags with fills (2 generated components, each echoing "
               "Component.id) with total node count <= N; non-trivial = output contains at least one element")
    b = bounds(ctx.tier)
    run_parts(ctx, worker, b["django"], modes=("django",))
    run_parts(ctx, worker, b["isolated"], modes=("isolated",))
    for mode in ("django", "isolated"):
        agg = par.run_sharded(roots_worker, (mode,))
        ev.add_part(f"roots_family_{mode}", states=agg.states, transitions=agg.transitions, validated=agg.validated, nontrivial=agg.nontrivial,
                    observed_distinct=len(agg.observed), expected=agg.expected, bound={"root_items": "<= 3 over {element, text, slot, component}", "fills": 5, "b_templates": 5},
                    samples=agg.samples[:1])
        ctx.fnd.merge_reports(sorted(agg.failures, key=lambda f: (len(f[2]["program"]["page"]), f[0])))
    boot.set_components_setting(context_behavior="django")
    depths = [1, 2, 3, 5, 10, 50, 200] + ([1000, 2000] if ctx.tier == "thorough" else [])
    tasks = [(k, d) for k in ("chain", "nest") for d in depths]
    tasks += [("loopnest", d) for d in ([1, 2, 3, 10, 100, 600] + ([1000, 2000] if ctx.tier == "thorough" else []))]
    tasks += [(k, d) for k in ("loopnest_only", "nest_only", "chain_only") for d in ([2, 10, 100, 600] + ([2000] if ctx.tier == "thorough" else []))]
    tasks += [("reentrant", d) for d in (1, 2, 3, 5)]
    import sys
    sys.setrecursionlimit(max(sys.getrecursionlimit(), 1000))
    res = par.run_tasks(depth_task, tasks)
    nbad = 0
    for kind, d, problem in res:
        if problem:
            nbad += 1
            ctx.fnd.report(f"depth:{kind}:{problem.split(' ')[0]}", f"{kind}({d}): {problem}", {"part": "depth", "kind": kind, "d": d})
    ev.add_part("depth_families", states=len(tasks), transitions=len(tasks), validated=len(tasks), nontrivial=len(tasks),
                bound={"depths": depths}, samples=[{"family": "chain", "d": depths[-1]}])
    rtasks = [(mode, p) for mode in ("django", "isolated") for p in REAL_PERTURB]
    n = 0
    seen = set()
    for rows in par.run_tasks(real_ids_task, rtasks):
        for mode, perturb, shape, problem in rows:
            n += 1
            seen.add((perturb, shape, problem is None))
            if problem:
                ctx.fnd.report(f"real-ids:{mode}:{perturb}:{shape}", f"[{mode}] real id generator, {perturb}, page shape {shape}: {problem}",
                               {"part": "real_ids", "mode": mode, "perturb": perturb})
    ev.add_part("real_id_generator", states=n, transitions=n, validated=n, nontrivial=n - 2 * len(REAL_SHAPES), observed_distinct=len(seen),
                bound={"perturbations_of_global_randomness_in_user_callbacks": list(REAL_PERTURB), "page_shapes": list(REAL_SHAPES), "modes": 2},
                samples=[{"perturb": REAL_PERTURB[1], "shape": "siblings"}])
    ev.assumptions = ["html.parser is the trusted HTML reader", "element tags are <div>; attribute insertion itself is done by the external djc_core_html_parser"]


def replay(ctx, case):
    if case.get("part") == "real_ids":
        ok = True
        for mode, perturb, shape, problem in real_ids_task((case["mode"], case["perturb"])):
            print(shape, "->", problem or "ok")
            ok = ok and problem is None
        return ok
    if case.get("part") == "depth":
        kind, d, problem = depth_task((case["kind"], case["d"]))
        print(problem)
        return problem is None
    mode = case["mode"]
    boot.set_components_setting(context_behavior=mode)
    prog = prog_from_spec(case["spec"], lambda n, t: CompSpec(n, t, {"my_id": ("id",)} if case.get("echo", True) else {}, ()))
    h = Harness()
    h.install(prog, extra_attrs=side_attrs(prog, *case["side"]) if case.get("side") else None)
    obs = h.render_page(prog)
    boot.clear_render_registries()
    h.uninstall()
    if case.get("side"):
        print("side:     unrelated %s render inside every on_render_%s hook" % (case["side"][1], case["side"][0]))
    print("page:    ", prog.page_source())
    for n, c in prog.comps.items():
        print(f"comp {n}:  ", c.source())
    print("html:    ", obs[1] if obs[0] == "ok" else obs)
    if obs[0] != "ok":
        return False
    bad = check_one(prog, mode, obs[1]) if case.get("echo", True) else check_structure(prog, mode, obs[1])
    print("verdict: ", bad)
    return bad is None
