"""C10 - stock templating is preserved; composition tags compose with components.

Part (a) stock preservation - differential against a *truly unpatched* Django: a twin process
that never imports django_components (checks/c10_stock.py) and this process (django_components
installed: Template.compile_nodelist / Template.render patched, multiline tag_re) enumerate the
same deterministic stream of stock template families (single / {% extends %}+{% block %}+
{{ block.super }} / {% include ... with ... only %}; if/for/empty/forloop/cycle/with/filter/
autoescape/firstof, a simple_tag with a quoted argument, an inclusion_tag, ill-formed members)
and compare, for both engine.debug values x 3 contexts: token stream (type, contents, lineno,
position), rendered output, exception class + message (+ template_debug line under debug), and
the Context state after render (len(dicts), flatten(), render_context depth).
Excluded (documented lexer differences): `%}` inside quotes, newlines inside a tag.

Part (b) composition by inlining - see checks/c10b.py (run from here).
Part (c) histories over shared Template objects (cached loader): stock pages render the same before and after
component renders that use the same template files - see checks/c10c.py (run from here).
"""
from __future__ import annotations

import json
import os
import shutil
import subprocess
import tempfile

from mc import boot, par

PID = "C10"
LEVEL = "model_checking"
DJANGO = {}


def bounds(tier):
    return {"N": 4 if tier == "thorough" else 3}


def lexer_fn(src):
    from django_components.util.template_parser import parse_template

    return parse_template(src)


def worker(w, W, payload):
    N, outdir = payload
    from checks.c10_stock import digest
    from mc.stockgen import StockGen, make_engines, observe_family

    engines = make_engines(["django_components.templatetags.component_tags"])
    gen = StockGen()
    agg = par.Agg()
    stock = {}
    with open(os.path.join(outdir, f"shard_{w}.txt")) as f:
        for line in f:
            i, h = line.split()
            stock[int(i)] = h
    for i, (kind, fam) in enumerate(gen.families(N)):
        if i % W != w:
            continue
        agg.states += 1
        obs = observe_family(fam, engines, lexer_fn)
        agg.transitions += len(obs["runs"])
        agg.validated += len(obs["runs"])
        agg.expected[kind] += 1
        if kind != "single":
            agg.nontrivial += 1
        agg.observe(json.dumps(obs["runs"][0], sort_keys=True, default=str))
        if i not in stock:
            raise par.HarnessError(f"stock twin has no observation for family {i}")
        if digest(obs) != stock[i]:
            agg.fail(f"stock:{kind}:{fam['main'][:80]}", f"family {fam} behaves differently with django_components installed (see replay for both observations)",
                     {"part": "stock", "family": fam})
        if agg.states == 20 and w == 4:
            agg.sample({"family": fam, "first_run": obs["runs"][0]})
    return agg


def stock_observation(fam):
    env = dict(os.environ)
    env["PYTHONPATH"] = boot.VERIF_DIR  # no /repo/src: the twin must not be able to import django_components by accident
    r = subprocess.run([boot.VENV_PY, os.path.join(boot.VERIF_DIR, "checks", "c10_stock.py"), "--one", json.dumps(fam)],
                       capture_output=True, text=True, env=env, timeout=120)
    if r.returncode != 0:
        raise par.HarnessError("stock twin failed: " + r.stderr[-500:])
    return json.loads(r.stdout)


def run_stock_part(ctx):
    ev = ctx.ev
    N = bounds(ctx.tier)["N"]
    outdir = tempfile.mkdtemp(prefix="verif-c10-")
    try:
        env = dict(os.environ)
        env["PYTHONPATH"] = boot.VERIF_DIR
        r = subprocess.run([boot.VENV_PY, os.path.join(boot.VERIF_DIR, "checks", "c10_stock.py"), str(N), outdir, str(par.NWORKERS)],
                           capture_output=True, text=True, env=env, timeout=3600)
        if r.returncode != 0 or "stock done" not in r.stdout:
            raise par.HarnessError("stock twin failed: " + (r.stderr or r.stdout)[-800:])
        agg = par.run_sharded(worker, (N, outdir))
    finally:
        shutil.rmtree(outdir, ignore_errors=True)
    ev.add_part("stock_differential", states=agg.states, transitions=agg.transitions, validated=agg.validated, nontrivial=agg.nontrivial,
                observed_distinct=len(agg.observed), expected=agg.expected, bound={"N": N, "engines": 2, "contexts": 3}, samples=agg.samples[:1])
    ctx.fnd.merge_reports(sorted(agg.failures, key=lambda f: len(json.dumps(f[2]))))


def run(ctx):
    ev = ctx.ev
    ev.rule = ("(a) every stock template family with <= N nodes run in an unpatched twin process and in the patched process; non-trivial = families using extends/include. "
               "(b) every C01 program x every split of one template into base/child/include, compared with the unsplit program. "
               "(c) every history of <= 3/4 stock-page and component renders over shared (cached-loader) Template objects; each op equals its solo result")
    run_stock_part(ctx)
    from checks import c10b

    c10b.run_part(ctx)
    from checks import c10c

    c10c.run_part(ctx)
    ev.assumptions = ["(a) no `%}` inside quotes and no newline inside a tag (the two documented lexer differences)",
                      "(b) the unsplit program's own correctness is C01's business (differential oracle)"]


def replay(ctx, case):
    if case.get("part") == "stock":
        from mc.stockgen import make_engines, observe_family

        fam = case["family"]
        mine = json.loads(json.dumps(observe_family(fam, make_engines(["django_components.templatetags.component_tags"]), lexer_fn), sort_keys=True, default=str))
        theirs = stock_observation(fam)
        print("family:", fam)
        same = True
        if mine["tokens"] != theirs["tokens"]:
            same = False
            print("TOKENS patched:", mine["tokens"])
            print("TOKENS stock:  ", theirs["tokens"])
        for a, b in zip(mine["runs"], theirs["runs"]):
            if a != b:
                same = False
                print("RUN patched:", a)
                print("RUN stock:  ", b)
        return same
    if case.get("part") == "shared":
        from checks import c10c

        return c10c.replay(ctx, case)
    from checks import c10b

    return c10b.replay(ctx, case)
