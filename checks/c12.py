"""C12 - parsing any tag or template terminates with success or TemplateSyntaxError (ENUM engine).

Seams     P  parse_tag(text, parser) followed by TagValueStruct.compile() of every attribute
             (FilterExpression / DynamicFilterExpression are built there - DYNAMIC_EXPR_RE);
          H  Template("{% <head> <text> %}[{% end<head> %}]") for the heads component 'c',
             component, slot, fill, provide, html_attrs and a @template_tag tag, again
             followed by compile() of the params of every django-components node;
          W  Template(text) for whole templates (the tag name `a` of the alphabet is a
             registered django-components @template_tag, so `{%a ...%}` reaches parse_tag).
Parts     tag_strings   every string of <= L tokens over the 19-token syntax alphabet
                        (quick L=4: 137 561, thorough L=5: 2 613 660) through P and the 7 H seams;
          templates     every string of <= L tokens over the 28-token template alphabet
                        (syntax alphabet + {% %} {{ }} {# #} newline, a lone `%` and the opener `{%a `) through W;
          nested_tags   every block tag registered in the engine (stock Django's, django-components', the harness's) in
                        8 argument forms as a nested expression inside a string value (3 positions), through P and H;
          truncations   every proper prefix (character granularity) of every valid whole template
                        (documented-syntax tag x 2 heads) through W: end of input in every scanner state.
          mutations     every single-token delete / duplicate / neighbour-swap of every tag of
                        a generated family of documented-syntax tags, through P and 2 H seams;
          roundtrip     for every generated tag: parse_tag(serialize(parse_tag(t))) == parse_tag(t)
                        modulo start_index, serialize is a fixpoint, resolved values are equal;
                        the generated family puts every leaf (variable, number, both string quotings,
                        `_("...")`, filter chains head|f:arg|f with `_("...")` as head and as filter
                        argument, nested-template strings, escaped quotes) on every value position:
                        bare / k= / attrs:class= / @click= attribute, list entry, spread-list entry,
                        dict value, and `"k"`, `a`, `_("k")` on the dict-key position;
          deep_nesting  the full product  prefix . open^k . inner . close^k  with open/close = every sequence
                        of <= 2 nesting units over `[..]` `[*..]` `{a:..}` `{**..}` (thorough: + `[a, .. ,]`
                        `{a:a,**..}`), inner over empty innermost container (""), `a`, `[]`, `{}`, `*[]`,
                        `_("q")`, unclosed `[`, extra `]` (thorough: + `**{}` `,` `a|a:a` `{`),
                        prefix over "" / `a=` (thorough + `...`), k over values that
                        straddle the nesting limit M=200 (M/2, M/2+1, M-1, M, M+1) and Python's recursion limit
                        R=1000 (R/4, R/2, R/2+R/10, R-1, R+1, 2R; thorough 19 values up to 4R), through
                        P and 2 (thorough 3) H seams; every accepted structure also goes through the
                        round-trip oracle. Walks of the harness over the AST are iterative, so a
                        RecursionError can only come from the implementation;
          complexity    pumping families pre . unit^k . post and nesting families open^k . a . close^k
                        for k = 16,32,64,128 (thorough 32,64,128,256), unit over all strings of <= 2
                        tokens of either alphabet plus hand-picked longer units: executed *lines* of
                        django_components/** and django/template/base.py counted with
                        sys.settrace (deterministic, no clock); steps(2k) <= 4.5 * steps(k) on the
                        last two doublings (a polynomial with non-negative coefficients of degree
                        <= 2 never exceeds 4; degree 3 tends to 8); output size linear.
Oracle    outcome in {returns, TemplateSyntaxError}; any other exception class is a violation
          identified by its call site (class @ innermost django_components frame); no answer
          within 2 s (tag_strings / templates / mutations / deep_nesting), at least half of it CPU
          time of the worker (the deep inputs cost up to 0.1 s CPU, so a machine oversubscribed
          20x would otherwise fake hangs), is a hang; len(normalized) <=
          len(text) and the number of AST nodes <= len(text) + 1 (memory clause).

Agnostic / excluded corners
* whether a tag nested hundreds of levels deep is accepted or refused is open; it must be
  refused with TemplateSyntaxError, not RecursionError (identity crash:RecursionError@<file>).
* an exception that is raised without any django_components frame on the stack *and* that
  stock Django (Parser over DebugLexer tokens) raises identically is attributed to Django.
* the "randomly beyond" part of the quantifier is not used (no sampling decides anything).
* time spent inside the `re` engine (DYNAMIC_EXPR_RE, _compile_take_until_pattern) is
  invisible to line counting: part regex_time pumps every <= 2 (thorough 3) token unit inside quote frames through
  `is_dynamic_expression` and `parse_template`, k = 256..2048, and compares CPU time of doublings (limit 5.5x on both
  of the last two doublings, judged only above 0.15 s); the 2 s / 20 s alarms catch exponential blow-up.
* round trip is asserted for generated documented-syntax tags that parse_tag accepts; a
  generated tag that parse_tag rejects is counted (`rejected_valid`) but belongs to C02.
"""
from __future__ import annotations

import os
import signal
import sys
import time
from collections import Counter
from itertools import product

from mc import par

PID = "C12"
LEVEL = "model_checking"
DJANGO = {}

TAG_ALPHABET = ["a", '"', "'", "[", "]", "{", "}", ":", ",", "|", "=", "...", "*", "**", "_(", ")", "\\", " ", "/"]
TPL_ALPHABET = TAG_ALPHABET + ["%}", "{{", "{%", "#}", "\n", "}}", "{#", "{%a ", "%"]
HEADS = [
    ("component 'c'", "endcomponent"),
    ("component", "endcomponent"),
    ("slot", "endslot"),
    ("fill", "endfill"),
    ("provide", "endprovide"),
    ("html_attrs", None),
    ("c12tag", "endc12tag"),
]
MUT_HEADS = [HEADS[0], HEADS[6]]
HANG_SECONDS = 2.0
MAX_HANGS = 2
KS_THOROUGH = (32, 64, 128, 256)
KS_QUICK = (16, 32, 64, 128)
RATIO = 4.5
STEP_FLOOR = 5000


class _Hang(BaseException):
    pass


_hang_site = [""]
_alarm = {"cpu0": 0.0, "wall0": 0.0, "limit": HANG_SECONDS}
STARVED_WALL_FACTOR = 15


def _arm(seconds: float):
    _alarm.update(cpu0=time.process_time(), wall0=time.monotonic(), limit=seconds)
    signal.signal(signal.SIGALRM, _on_alarm)
    signal.setitimer(signal.ITIMER_REAL, seconds)


def _on_alarm(signum, frame):
    # A worker that was starved by an overloaded machine is not hanging: the limit fires only once the worker
    # itself has burnt at least half of it as CPU time; the wall clock stays the backstop for a blocked call.
    cpu = time.process_time() - _alarm["cpu0"]
    wall = time.monotonic() - _alarm["wall0"]
    if cpu < 0.5 * _alarm["limit"] and wall < STARVED_WALL_FACTOR * _alarm["limit"]:
        signal.setitimer(signal.ITIMER_REAL, 0.5 * _alarm["limit"])
        return
    f = frame
    site = ""
    while f is not None:
        fn = f.f_code.co_filename
        if "django_components" in fn:
            # the enclosing top-level function: where the alarm lands inside its helper closures is arbitrary
            site = f"{os.path.basename(fn)}:{f.f_code.co_qualname.split('.<locals>')[0]}"
            break
        f = f.f_back
    if not site and frame is not None:
        site = f"{os.path.basename(frame.f_code.co_filename)}:{frame.f_code.co_name}"
    _hang_site[0] = site
    raise _Hang()


# ------------------------------------------------------------------ environment
_ENV = {}


def env():
    if _ENV:
        return _ENV
    from django.template import Library
    from django.template.base import Parser
    from django.template.engine import Engine

    from django_components import Component, template_tag
    from django_components.component_registry import registry
    from django_components.node import BaseNode

    lib = Library()

    @template_tag(lib, tag="c12tag", end_tag="endc12tag", allowed_flags=["required"])
    def c12tag(node, context, *args, **kwargs):
        return ""

    @template_tag(lib, tag="a")
    def a(node, context, *args, **kwargs):
        return ""

    eng = Engine.get_default()
    eng.template_builtins.append(lib)
    if "c" not in registry.all():
        registry.register("c", type("C12Comp", (Component,), {"template": "x", "__module__": "verif_c12"}))
    _ENV.update(engine=eng, BaseNode=BaseNode, Parser=Parser)
    return _ENV


def _parser():
    from django.template.base import UNKNOWN_SOURCE, Origin

    e = env()
    # like Template(src): a parser always knows the origin of the template it compiles
    return e["Parser"]([], e["engine"].template_libraries, e["engine"].template_builtins, Origin(UNKNOWN_SOURCE))


def _count_nodes(struct):
    from django_components.util.tag_parser import TagValueStruct

    # iterative: the harness must not hit Python's recursion limit before the implementation does
    n, todo = 0, [struct]
    while todo:
        node = todo.pop()
        n += 1
        if isinstance(node, TagValueStruct):
            todo.extend(node.entries)
    return n


_phase = ["parse"]


def seam_parse_tag(text: str):
    """-> ('ok', summary) ; raises whatever the implementation raises"""
    from django_components.util.tag_parser import parse_tag

    normalized, attrs = parse_tag(text, _parser())
    if len(normalized) > len(text):
        raise AssertionError(f"memory clause: len(normalized)={len(normalized)} > len(text)={len(text)}")
    nodes = sum(_count_nodes(a.value) for a in attrs)
    if nodes > len(text) + 1:
        raise AssertionError(f"memory clause: {nodes} AST nodes for {len(text)} characters")
    shape = tuple([(a.key is not None, a.value.type, bool(a.value.spread)) for a in attrs])
    _phase[0] = "compile"
    for a in attrs:
        a.value.compile()
    return shape


def seam_template(src: str):
    from django.template import Template

    e = env()
    t = Template(src, engine=e["engine"])
    _phase[0] = "compile"
    n = 0
    for node in t.nodelist.get_nodes_by_type(e["BaseNode"]):
        for p in node.params:
            p.value.compile()
            n += 1
    return n


def head_source(head, text):
    h, end = head
    return "{% " + h + " " + text + " %}" + ("{% " + end + " %}" if end else "")


def _site(exc):
    """class @ innermost django_components frame (else innermost frame), has_library_frame"""
    tb = exc.__traceback__
    inner = last = None
    while tb is not None:
        fn = tb.tb_frame.f_code.co_filename
        last = (fn, tb.tb_frame.f_code.co_name)
        if "django_components" in fn and not fn.endswith("django_monkeypatch.py"):  # every Template() passes through the patch
            inner = last
        tb = tb.tb_next
    fn, name = inner or last or ("?", "?")
    if isinstance(exc, RecursionError):  # the frame in which the limit is hit is arbitrary
        return f"RecursionError@{os.path.basename(fn)}", inner is not None
    return f"{type(exc).__name__}@{os.path.basename(fn)}:{name}", inner is not None


def _stock_raises_same(src: str, exc) -> bool:
    from django.template.base import DebugLexer

    e = env()
    try:
        e["Parser"](DebugLexer(src).tokenize(), e["engine"].template_libraries, e["engine"].template_builtins).parse()
    except Exception as e2:  # noqa
        return type(e2) is type(exc) and not _site(e2)[1]
    return False


def _stock_crash_class(src: str):
    """class name of the non-TemplateSyntaxError exception stock Django raises when compiling src stand-alone, else None"""
    from django.template.base import UNKNOWN_SOURCE, DebugLexer, Origin
    from django.template.exceptions import TemplateSyntaxError

    e = env()
    try:
        e["Parser"](DebugLexer(src).tokenize(), e["engine"].template_libraries, e["engine"].template_builtins, Origin(UNKNOWN_SOURCE)).parse()
    except TemplateSyntaxError:
        return None
    except Exception as e2:  # noqa
        return type(e2).__name__
    return None


def guarded(kind: str, arg: str, seconds: float = HANG_SECONDS):
    """-> (outcome, detail, by_library)  outcome in ok | TSE | crash | hang | stock"""
    from django.template.exceptions import TemplateSyntaxError

    _arm(seconds)
    _phase[0] = "parse"
    try:
        r = seam_parse_tag(arg) if kind == "P" else seam_template(arg)
        return "ok", r, True
    except TemplateSyntaxError as e:
        return "TSE", _phase[0], _site(e)[1]
    except _Hang:
        return "hang", _hang_site[0], True
    except Exception as e:
        signal.setitimer(signal.ITIMER_REAL, 0)
        site, by_lib = _site(e)
        if kind != "P" and not by_lib and _stock_raises_same(arg, e):
            return "stock", site, False
        return "crash", (site, f"{type(e).__name__}: {e}"), by_lib
    finally:
        signal.setitimer(signal.ITIMER_REAL, 0)


def _cls(res):
    if res[0] != "TSE":
        return res[0]
    return "TSE-" + res[1] + ("" if res[2] else "-django")


# ------------------------------------------------------------------ enumeration helpers
def _sequences(K: int, lo: int, hi: int, w: int, W: int):
    for n in range(lo, hi + 1):
        if n == 0:
            if w == 0:
                yield ()
        elif n == 1:
            for a in range(K):
                if a % W == w:
                    yield (a,)
        else:
            p = 0
            for a in range(K):
                for b in range(K):
                    if p % W == w:
                        for rest in product(range(K), repeat=n - 2):
                            yield (a, b) + rest
                    p += 1


def _size(K, lo, hi):
    return sum(K ** n for n in range(lo, hi + 1))


class _Rec:
    """per-worker failure bookkeeping: the smallest input per identity"""

    def __init__(self, agg):
        self.agg = agg
        self.best = {}
        self.hangs = 0

    def fail(self, identity, what, order, case):
        self.agg.extra["fail:" + identity] += 1
        if identity not in self.best or order < self.best[identity][0]:
            self.best[identity] = (order, what, case)

    def outcome(self, part, seam_name, kind, arg, order, res):
        out, detail, _by = res
        if out == "crash":
            site, msg = detail
            self.fail(f"crash:{site}", f"{msg}  [seam {seam_name}, input {arg!r}]", order,
                      {"part": part, "kind": kind, "input": arg, "seam": seam_name})
        elif out == "hang":
            self.hangs += 1
            self.fail(f"hang:{detail}", f"no answer within {HANG_SECONDS} s  [seam {seam_name}, input {arg!r}]", order,
                      {"part": part, "kind": kind, "input": arg, "seam": seam_name})

    def flush(self):
        for identity, (order, what, case) in self.best.items():
            self.agg.failures.append((identity, what, dict(case, order=list(order))))


# ------------------------------------------------------------------ part: tag_strings / templates
def _worker_strings(w, W, payload):
    env()
    agg = par.Agg()
    rec = _Rec(agg)
    L_tag, L_tpl = payload["L_tag"], payload["L_tpl"]
    A = TAG_ALPHABET
    for seq in _sequences(len(A), 0, L_tag, w, W):
        text = "".join([A[i] for i in seq])
        order = (len(seq), seq)
        agg.extra["tag:states"] += 1
        nontrivial = False
        res = guarded("P", text)
        agg.extra["tag:transitions"] += 1
        agg.extra["tag:P:" + _cls(res)] += 1
        agg.observe(("P", res[0], res[1]))
        if res[0] == "ok" and any(s[1] != "simple" or s[2] for s in res[1]):
            nontrivial = True
        if res[0] == "TSE" and res[1] == "parse":
            nontrivial = True
        rec.outcome("tag_strings", "parse_tag", "P", text, order, res)
        for head in HEADS:
            src = head_source(head, text)
            res = guarded("T", src)
            agg.extra["tag:transitions"] += 1
            agg.extra["tag:H:" + _cls(res)] += 1
            agg.observe((head[0], res[0], res[1]))
            rec.outcome("tag_strings", "Template:" + head[0], "T", src, order, res)
        if nontrivial:
            agg.extra["tag:nontrivial"] += 1
        if rec.hangs >= MAX_HANGS:
            agg.caps.append(f"worker {w} stopped after {rec.hangs} hangs")
            rec.flush()
            return agg
    A = TPL_ALPHABET
    for seq in _sequences(len(A), 0, L_tpl, w, W):
        text = "".join([A[i] for i in seq])
        order = (len(seq), seq)
        agg.extra["tpl:states"] += 1
        res = guarded("T", text)
        agg.extra["tpl:transitions"] += 1
        agg.extra["tpl:W:" + _cls(res)] += 1
        agg.observe(("W", res[0], res[1]))
        if (res[0] == "TSE" and res[2]) or (res[0] == "ok" and res[1]):
            agg.extra["tpl:nontrivial"] += 1
        rec.outcome("templates", "Template", "T", text, order, res)
        if rec.hangs >= MAX_HANGS:
            agg.caps.append(f"worker {w} stopped after {rec.hangs} hangs")
            break
    rec.flush()
    return agg


# ------------------------------------------------------------------ generated documented-syntax tags
def valid_tags(thorough: bool):
    """deterministic list of token lists (the argument part of a tag, documented syntax only)"""
    q = lambda s: ['"', s, '"']  # noqa: E731
    leaves = [
        ["a"], ["1"], q("s"), ["'", "s", "'"], ['"', "x", " ", "y", '"'], ["_(", '"', "t", '"', ")"], ["a", ".", "k"],
        ["a", "|", "upper"], ["a", "|", "default", ":", '"', "x", '"'], q("s") + ["|", "upper"], ['"', "{{", " ", "a", " ", "}}", '"'],
        ['"', "e", "\\", '"', "e", '"'],
        ['"', "x", " ", "%}", '"'], ['"', "{%", " ", "a", " ", "%}", '"'],  # tag end / whole nested tag inside a string
    ]
    if thorough:
        leaves += [["a", "|", "default", ":", "b", "|", "upper"], ["_(", "'", "t", "'", ")"], ["a", " ", "|", " ", "default", " ", ":", " ", '"', "x", '"']]
    # translation strings in every part position of a filter chain head[|f[:arg][|f]]: as head, as filter
    # argument, with a further filter behind it (`u` is undefined in _RT_CONTEXT, so `default:` shows its argument)
    tr = lambda s, qu='"': ["_(", qu, s, qu, ")"]  # noqa: E731
    leaves += [
        ["u", "|", "default", ":"] + tr("x"),
        tr("t") + ["|", "default", ":"] + tr("x") + ["|", "upper"],
    ]
    if thorough:
        leaves += [
            tr("t") + ["|", "upper"],
            q("s") + ["|", "default", ":"] + tr("x"),
            ["1", "|", "default", ":"] + tr("x y"),
            ["a", "|", "default", ":"] + tr("x", "'") + ["|", "upper"],
            tr("t", "'") + ["|", "default", ":"] + q("x"),
            tr("t") + ["|", "default", ":", "b"],
            ["u", " ", "|", " ", "default", " ", ":", " "] + tr("x"),
            tr("t") + ["|", "add", ":"] + tr("x") + ["|", "add", ":"] + tr("y"),
        ]
    keys = [q("k"), ["a"], tr("k")]
    cs = [",", " "]

    def lists(vs):
        out = []
        for v in vs:
            out.append(["["] + v + cs + ["1"] + ["]"])
            out.append(["["] + ["1"] + cs + v + [",", "]"])
            out.append(["[", "*", "l"] + cs + v + ["]"])
            out.append(["[", "*", "["] + v + ["]", "]"])
            out.append(["[", " "] + v + [" ", ",", " "] + v + [" ", "]"])
        out.append(["[", "]"])
        return out

    def dicts(vs):
        out = []
        for v in vs:
            for k in keys:
                out.append(["{"] + k + [":", " "] + v + ["}"])
            out.append(["{"] + keys[0] + [":", " "] + v + cs + ["**", "d", ",", "}"])
            out.append(["{", "**", "{"] + keys[0] + [":", " "] + v + ["}"] + cs + keys[1] + [":"] + v + ["}"])
            out.append(["{", " "] + keys[0] + [" ", ":", " "] + v + [" ", "}"])
        out.append(["{", "}"])
        return out

    v0 = leaves
    v1 = lists(v0) + dicts(v0)
    core = [["a"], q("s"), ["a", "|", "upper"]]
    v1core = lists(core) + dicts(core)
    v2 = lists(v1core) + dicts(v1core) if thorough else lists(v1core[:8]) + dicts(v1core[16:22])
    values = v0 + v1 + v2
    attrs = []
    for v in values:
        attrs.append(v)
        attrs.append(["k", "="] + v)
    for v in v0 + v1core:
        attrs.append(["attrs:class", "="] + v)
        attrs.append(["@click", "="] + v)
    attrs += [["...", "a"], ["...", "a", "|", "default", ":", "b"], ["...", "["] + q("s") + ["]"], ["...", "{"] + q("k") + [":", " ", "a", "}"], ["only"], ["/"]]
    seconds = [["b"], ["k2", "="] + q("s"), ["...", "d"], ["only", " ", "/"], ["x", "=", "[", "1", ",", " ", "a", "]"]]
    if not thorough:
        seconds = seconds[1:3]
    tags = []
    for at in attrs:
        tags.append(at)
        for s in seconds:
            tags.append(at + [" "] + s)
    for s in seconds:
        for at in attrs[:40]:
            tags.append(s + [" "] + at)
    return tags


NESTED_FORMS = ["{% N %}", "{% N a %}", "{% N 'x.html' %}", "{% N a as b %}", "{% N a b %}", "{% N %}{% endN %}", "{% N a %}x{% endN %}", "{% N a in b %}x{% endN %}"]
NESTED_POS = ['"@"', '" @ "', '["@"]']


def nested_cases():
    """(tag name, form, value position) for every block tag registered in the engine's builtins (stock Django's,
    django-components' and the harness's) - taken from the real parser, not hand-picked"""
    names = sorted(_parser().tags)
    return [(n, f, p) for n in names for f in NESTED_FORMS for p in NESTED_POS]


def mutants(tokens):
    n = len(tokens)
    for i in range(n):
        yield tokens[:i] + tokens[i + 1:]
        yield tokens[:i + 1] + tokens[i:]
        if i + 1 < n and tokens[i] != tokens[i + 1]:
            yield tokens[:i] + [tokens[i + 1], tokens[i]] + tokens[i + 2:]


def ast_dump(attrs):
    from django_components.util.tag_parser import TagValueStruct

    # flat pre-order dump with explicit open / close markers (equal dumps <=> equal trees); iterative so that
    # the harness never hits Python's recursion limit before the implementation does
    out = []
    for a in attrs:
        out.append(("A", a.key))
        todo = [a.value]
        while todo:
            v = todo.pop()
            if v is None:
                out.append(("E",))
            elif isinstance(v, TagValueStruct):
                out.append(("S", v.type, v.spread, len(v.entries)))
                todo.append(None)
                todo.extend(reversed(v.entries))
            else:
                out.append(("V", tuple((p.value, p.quoted, p.spread, p.translation, p.filter) for p in v.parts)))
    return tuple(out)


_RT_CONTEXT = {"a": {"k": "A"}, "b": "B", "l": [1, 2], "d": {"x": 1, "y": 2}}


def roundtrip_problem(text: str):
    """-> (status, problem)  status: 'ok' | 'rejected', problem: (clause, text) | None"""
    from django.template import Context
    from django.template.exceptions import TemplateSyntaxError

    from django_components.util.tag_parser import parse_tag

    try:
        _, attrs1 = parse_tag(text, _parser())
    except TemplateSyntaxError:
        return "rejected", None
    d1 = ast_dump(attrs1)
    try:
        ser = " ".join(a.serialize() for a in attrs1)
    except TemplateSyntaxError as e:
        return "ok", ("serialize-rejected", f"serialize() of an accepted tag raises TemplateSyntaxError: {e}")
    try:
        _, attrs2 = parse_tag(ser, _parser())
    except TemplateSyntaxError as e:
        return "ok", ("reparse-rejected", f"serialisation {ser!r} is rejected on re-parse: {e}")
    d2 = ast_dump(attrs2)
    if d1 != d2:
        i = next((i for i, (x, y) in enumerate(zip(d1, d2)) if x != y), min(len(d1), len(d2)))
        return "ok", ("ast-differs", f"re-parsing the serialisation {ser[:300]!r} yields different arguments (pre-order dump, first difference "
                                     f"at node {i}): {d2[i:i + 3]} != {d1[i:i + 3]}")
    ser2 = " ".join(a.serialize() for a in attrs2)
    if ser2 != ser:
        return "ok", ("not-fixpoint", f"serialisation is not a fixpoint: {ser!r} -> {ser2!r}")
    try:
        r1 = [repr(a.value.resolve(Context(dict(_RT_CONTEXT)))) for a in attrs1]
    except Exception:  # noqa  - resolving is C02's business; compare only when the original resolves
        return "ok", None
    try:
        r2 = [repr(a.value.resolve(Context(dict(_RT_CONTEXT)))) for a in attrs2]
    except Exception as e:  # noqa
        return "ok", ("resolve-differs", f"original resolves to {r1} but the re-parsed serialisation {ser!r} raises {type(e).__name__}: {e}")
    if r1 != r2:
        return "ok", ("resolve-differs", f"resolved values differ after the round trip: {r2} != {r1}")
    return "ok", None


_MUTANTS = []  # filled in the parent before forking
_VALID = []


def _worker_mut(w, W, payload):
    env()
    agg = par.Agg()
    rec = _Rec(agg)
    for i, text in enumerate(_VALID):
        if i % W != w:
            continue
        full = "component 'c' " + text
        agg.extra["rt:states"] += 1
        agg.extra["rt:transitions"] += 2
        _arm(HANG_SECONDS)
        try:
            status, problem = roundtrip_problem(full)
        except _Hang:
            status, problem = "hang", None
            rec.hangs += 1
            rec.fail(f"hang:{_hang_site[0]}", f"no answer within {HANG_SECONDS} s  [round trip of {full!r}]", (len(text), text),
                     {"part": "roundtrip", "input": full})
        except Exception as e:  # parse_tag / serialize raised something that is not a TemplateSyntaxError
            signal.setitimer(signal.ITIMER_REAL, 0)
            status, problem = "crash", None
            rec.fail(f"crash:{_site(e)[0]}", f"{type(e).__name__}: {e}  [round trip of {full!r}]", (len(text), text),
                     {"part": "roundtrip", "input": full})
        finally:
            signal.setitimer(signal.ITIMER_REAL, 0)
        if rec.hangs >= MAX_HANGS:
            agg.caps.append(f"worker {w} stopped after {rec.hangs} hangs")
            rec.flush()
            return agg
        agg.extra["rt:" + status] += 1
        agg.observe(("rt", status, text))
        if problem:
            rec.fail(f"roundtrip:{problem[0]}", f"{problem[1]}  [tag {full!r}]", (len(text), text), {"part": "roundtrip", "input": full})
    for i, text in enumerate(_MUTANTS):
        if i % W != w:
            continue
        order = (len(text), text)
        agg.extra["mut:states"] += 1
        res = guarded("P", "c12tag " + text)
        agg.extra["mut:transitions"] += 1
        agg.extra["mut:P:" + _cls(res)] += 1
        agg.observe(("mP", res[0], res[1]))
        rec.outcome("mutations", "parse_tag", "P", "c12tag " + text, order, res)
        if res[0] == "TSE" and res[2]:
            agg.extra["mut:nontrivial"] += 1
        for head in MUT_HEADS:
            src = head_source(head, text)
            res = guarded("T", src)
            agg.extra["mut:transitions"] += 1
            agg.extra["mut:H:" + _cls(res)] += 1
            rec.outcome("mutations", "Template:" + head[0], "T", src, order, res)
        if rec.hangs >= MAX_HANGS:
            agg.caps.append(f"worker {w} stopped after {rec.hangs} hangs")
            break
    # nested tags: every block tag the engine knows, in every form, as a nested expression inside a string value
    for i, (name, form, pos) in enumerate(nested_cases()):
        if i % W != w or rec.hangs >= MAX_HANGS:
            continue
        val = pos.replace("@", form.replace("N", name))
        agg.extra["nest:states"] += 1
        for kind, arg, seam_name in (("P", "c12tag a=" + val, "parse_tag"), ("T", head_source(MUT_HEADS[0], "a=" + val), "Template:" + MUT_HEADS[0][0])):
            res = guarded(kind, arg)
            if res[0] == "crash" and _stock_crash_class(form.replace("N", name)) == res[1][1].split(":")[0]:
                # the nested template crashes a *stock* compile function in the same way when it stands alone in an
                # unpatched Parser (e.g. `{% filter %}`: ValueError in django.template.defaulttags.do_filter)
                res = ("stock", res[1][0], False)
            agg.extra["nest:transitions"] += 1
            agg.extra["nest:" + kind + ":" + _cls(res)] += 1
            if res[0] == "ok":
                agg.extra["nest:nontrivial"] += 1
            agg.observe(("nest", name, res[0]))
            rec.outcome("nested_tags", seam_name, kind, arg, (len(val), val), res)
    # truncations: every proper prefix of every valid whole template (end of input in every scanner state)
    for i, text in enumerate(_VALID):
        if i % W != w or rec.hangs >= MAX_HANGS:
            continue
        for head in MUT_HEADS:
            src = head_source(head, text)
            agg.extra["trunc:states"] += 1
            for cut in range(len(src)):
                res = guarded("T", src[:cut])
                agg.extra["trunc:transitions"] += 1
                agg.extra["trunc:T:" + _cls(res)] += 1
                if res[0] == "TSE" and res[2]:
                    agg.extra["trunc:nontrivial"] += 1
                agg.observe(("tr", res[0], res[1] if res[0] != "ok" else None))
                rec.outcome("truncations", "Template:" + head[0], "T", src[:cut], (cut, src[:cut]), res)
    rec.flush()
    return agg


# ------------------------------------------------------------------ part: deep_nesting
# One nesting unit = (opener, closer); a case is  prefix . open^k . inner . close^k  where open / close are the
# concatenation of a sequence of <= 2 units (mixed list / dict / spread nesting) and `inner` ranges over empty
# innermost containers, plain values, unbalanced brackets ...; k straddles the implementation's own nesting
# limit and Python's recursion limit (serialize / compile recurse with 2-3 frames per level).
DEEP_PAIRS = [("[", "]"), ("[*", "]"), ("{a:", "}"), ("{**", "}"),
              ("[a, ", " ,]"), ("{a:a,**", "}")]
DEEP_PAIRS_QUICK = 4
DEEP_INNER = ["", "a", "[]", "{}", "*[]", '_("q")', "[", "]",
              "**{}", ",", "a|a:a", "{"]
DEEP_INNER_QUICK = 8
DEEP_PREFIX = ["", "a=", "..."]
DEEP_PREFIX_QUICK = 2
DEEP_HEADS_QUICK = [0, 6]
DEEP_HEADS_THOROUGH = [0, 5, 6]
DEFAULT_NESTING_LIMIT = 200


def deep_ks(thorough: bool):
    limits = {DEFAULT_NESTING_LIMIT}
    try:
        from django_components.util import tag_parser

        if isinstance(getattr(tag_parser, "MAX_NESTING_DEPTH", None), int) and 0 < tag_parser.MAX_NESTING_DEPTH < 100000:
            limits.add(tag_parser.MAX_NESTING_DEPTH)
    except Exception:  # noqa
        pass
    R = sys.getrecursionlimit()
    ks = {R // 4, R // 2, R // 2 + R // 10, R - 1, R + 1, 2 * R}
    for M in limits:
        ks |= {M // 2, M // 2 + 1, M - 1, M, M + 1}
    if thorough:
        ks |= {R // 3, 3 * R // 4, R, R + R // 2, 4 * R}
        for M in limits:
            ks |= {M // 2 - 1, M + 2, 2 * M}
    return sorted(k for k in ks if k > 0)


def deep_cases(thorough: bool):
    """deterministic list of (prefix, open, inner, close, k) - the full product"""
    pairs = DEEP_PAIRS if thorough else DEEP_PAIRS[:DEEP_PAIRS_QUICK]
    inners = DEEP_INNER if thorough else DEEP_INNER[:DEEP_INNER_QUICK]
    prefixes = DEEP_PREFIX if thorough else DEEP_PREFIX[:DEEP_PREFIX_QUICK]
    seqs = [(p,) for p in pairs] + [(p, q) for p in pairs for q in pairs]
    out = []
    for k in deep_ks(thorough):
        for seq in seqs:
            op = "".join(p[0] for p in seq)
            cl = "".join(p[1] for p in reversed(seq))
            for inner in inners:
                for prefix in prefixes:
                    out.append((prefix, op, inner, cl, k))
    return out


def deep_text(case):
    prefix, op, inner, cl, k = case
    return prefix + op * k + inner + cl * k


def deep_desc(case):
    prefix, op, inner, cl, k = case
    return f"{prefix!r}+{op!r}*{k}+{inner!r}+{cl!r}*{k}"


_DEEP = []  # filled in the parent before forking


def _deep_seams(case, heads):
    text = deep_text(case)
    yield "parse_tag", "P", None, "c12tag " + text
    for h in heads:
        yield "Template:" + HEADS[h][0], "T", h, head_source(HEADS[h], text)


def _worker_deep(w, W, payload):
    env()
    agg = par.Agg()
    rec = _Rec(agg)
    heads = payload["heads"]
    for i, case in enumerate(_DEEP):
        if (i + i // W) % W != w:  # rotated shards: the product's inner loops have period 16, plain i % W would pin one (inner, prefix) per worker
            continue
        desc = deep_desc(case)
        levels = case[4] * sum(case[1].count(c) for c in "[{")
        order = (levels, desc)
        base = {"part": "deep_nesting", "prefix": case[0], "open": case[1], "inner": case[2], "close": case[3], "k": case[4]}
        agg.extra["deep:states"] += 1
        nontrivial = False
        for seam_name, kind, h, arg in _deep_seams(case, heads):
            res = guarded(kind, arg)
            agg.extra["deep:transitions"] += 1
            agg.extra["deep:" + kind + ":" + _cls(res)] += 1
            agg.observe((seam_name, res[0], res[1], levels > DEFAULT_NESTING_LIMIT))
            if res[0] == "crash":
                site, msg = res[1]
                rec.fail(f"crash:{site}", f"{msg}  [seam {seam_name}, {levels} container levels, input {desc}]", order, dict(base, kind=kind, head=h, seam=seam_name))
            elif res[0] == "hang":
                rec.hangs += 1
                rec.fail(f"hang:{res[1]}", f"no answer within {HANG_SECONDS} s  [seam {seam_name}, {levels} container levels, input {desc}]", order,
                         dict(base, kind=kind, head=h, seam=seam_name))
            elif res[0] == "ok" or (res[0] == "TSE" and res[2]):
                nontrivial = True
            if kind == "P" and res[0] == "ok":
                # an accepted deep structure is documented syntax: its canonical serialisation must re-parse to the same arguments
                agg.extra["deep:accepted"] += 1
                if levels > DEFAULT_NESTING_LIMIT:
                    agg.extra["deep:accepted_beyond_200_levels"] += 1
                agg.extra["deep:transitions"] += 2
                _arm(HANG_SECONDS)
                try:
                    _status, problem = roundtrip_problem(arg)
                except _Hang:
                    problem = None
                    rec.hangs += 1
                    rec.fail(f"hang:{_hang_site[0]}", f"no answer within {HANG_SECONDS} s  [round trip, {levels} container levels, input {desc}]", order,
                             dict(base, kind="R", head=None, seam="roundtrip"))
                except Exception as e:  # serialize / re-parse raised something that is not a TemplateSyntaxError
                    signal.setitimer(signal.ITIMER_REAL, 0)
                    problem = None
                    rec.fail(f"crash:{_site(e)[0]}", f"{type(e).__name__}: {e}  [round trip, {levels} container levels, input {desc}]", order,
                             dict(base, kind="R", head=None, seam="roundtrip"))
                finally:
                    signal.setitimer(signal.ITIMER_REAL, 0)
                if problem:
                    rec.fail(f"roundtrip:{problem[0]}", f"{problem[1][:400]}  [{levels} container levels, input {desc}]", order,
                             dict(base, kind="R", head=None, seam="roundtrip"))
        if nontrivial:
            agg.extra["deep:nontrivial"] += 1
        if rec.hangs >= MAX_HANGS:
            agg.caps.append(f"worker {w} stopped after {rec.hangs} hangs")
            break
    rec.flush()
    return agg


# ------------------------------------------------------------------ part: complexity
_TRACED = {}


def _is_traced(filename: str) -> bool:
    r = _TRACED.get(filename)
    if r is None:
        r = ("django_components" in filename and "/verif/" not in filename) or filename.endswith("django/template/base.py")
        _TRACED[filename] = r
    return r


def count_steps(kind: str, arg: str):
    """-> (outcome, executed lines in the traced files)"""
    from django.template.exceptions import TemplateSyntaxError

    cnt = [0]

    def local(frame, event, a):
        if event == "line":
            cnt[0] += 1
        return local

    def glob(frame, event, a):
        return local if _is_traced(frame.f_code.co_filename) else None

    _arm(20.0)
    sys.settrace(glob)
    try:
        if kind == "P":
            seam_parse_tag(arg)
        else:
            seam_template(arg)
        out = "ok"
    except TemplateSyntaxError:
        out = "TSE"
    except _Hang:
        out = "hang"
    except Exception as e:
        sys.settrace(None)
        out = "crash:" + _site(e)[0]
    finally:
        sys.settrace(None)
        signal.setitimer(signal.ITIMER_REAL, 0)
    return out, cnt[0]


NAMED_UNITS = [
    "{%a%}", '{%a"q"%}', '{%a "%}" %}', "{{a}}", "{#a#}", "{%a [a,a] %}", "{%a {a:a} %}", '{%a a=_("q") %}', '{%a "{{a}}" %}',
    "{%a a|a:a %}", "{%a ...a %}", '{%a"q"%}\n', "{%a %", '{%a "\\" %}',
]
NAMED_TAG_UNITS = ['"q" ', "a=a ", "[a,a] ", "{a:a} ", '_("q") ', "a|a:a ", "...a ", '"{{a}}" ', "[*a] ", "{**a} ", 'a="{%a%}" ', "a|a"]


def families():
    """(kind, pre, unit, post) - deterministic list"""
    fams = []
    units = [""]  # placeholder to keep indices stable
    units = ["".join(s) for n in (1, 2) for s in product(TAG_ALPHABET, repeat=n)] + NAMED_TAG_UNITS
    for pre in ["", "[", "{", '"', "a=", "_(", "a|"]:
        for u in units:
            fams.append(("P", pre, u, ""))
    for pre, post in [("{% a ", " %}"), ("{% a [", "] %}"), ('{% a "', '" %}')]:
        for u in units:
            fams.append(("T", pre, u, post))
    # a quoted argument with a nested-expression opener that is never closed (a plain string): the classifier of
    # dynamic expressions (DYNAMIC_EXPR_RE, run by compile()) has to give up on it in polynomial time
    for opener in ("{{", "{%", "{#"):
        for u in units:
            fams.append(("P", 'a="' + opener, u, '"'))
        for u in units:
            if len(u) == 1 or u in NAMED_TAG_UNITS or u in TAG_ALPHABET:
                fams.append(("T", '{% a "' + opener, u, '" %}'))
    tunits = ["".join(s) for n in (1, 2) for s in product(TPL_ALPHABET, repeat=n)] + NAMED_UNITS
    for pre, post in [("", ""), ("{%a ", ""), ("{{", ""), ('{%a "', ""), ("", "%}")]:
        for u in tunits:
            fams.append(("T", pre, u, post))
    return fams


NEST = [("P", "[", "a", "]"), ("P", "{a:", "a", "}"), ("P", "[{a:", "a", "}]"), ("P", "[a,", "a", "]"), ("P", "a=[", '"q"', ",]"),
        ("T", "[", "a", "]"), ("T", "{a:", "a", "}"), ("T", "[{a:", "a", "}]"), ("P", "[[[[", "a", "]]]]"), ("T", "[[[[", "a", "]]]]"),
        ("P", "[", "", "]"), ("T", "[", "", "]"), ("P", "{a:[", "", "]}"), ("T", "{a:[", "", "]}"), ("P", "[*[", "", "]]"), ("T", "{**{a:", "{}", "}}")]


def family_input(fam, k):
    kind, pre, unit, post = fam
    return kind, pre + unit * k + post


def nest_input(fam, k):
    kind, op, mid, cl = fam
    text = op * k + mid + cl * k
    return kind, (text if kind == "P" else "{% a " + text + " %}")


def complexity_problem(steps, KS):
    """steps: list of counts for KS -> text | None"""
    for i in (len(KS) - 2, len(KS) - 1):
        a, b = steps[i - 1], steps[i]
        if b > STEP_FLOOR and b > RATIO * a:
            return f"executed lines grow faster than quadratically: k={KS[i - 1]} -> {a}, k={KS[i]} -> {b} (ratio {b / max(a, 1):.2f} > {RATIO}); all k {list(KS)}: {steps}"
    return None


# --------------------------------------------------------------------------- regex time (the part of the work line counting cannot see)
RX_RATIO = 5.5  # CPU-time ratio of a doubling: quadratic -> 4, cubic -> 8
RX_MIN_S = 0.15  # ... judged only when the larger member costs at least this much CPU time
RX_CAP_S = 1.5  # stop pumping a family beyond this (the points measured so far are judged)
RX_KS_QUICK = (256, 512, 1024)
RX_KS_THOROUGH = (256, 512, 1024, 2048)
RX_CLASSIFIER_ALPHA = ["{{", "}}", "{%", "%}", "{#", "#}", "a", '"', "\n"]
RX_CLASSIFIER_FRAMES = [('"', '"'), ('"', '"|a'), ('"', "'"), ("'", "'"), ('"', "")]
RX_LEXER_ALPHA = ["\\", '"', "'", "a", "%}", "{%", " "]
RX_LEXER_FRAMES = [('{% a "', ""), ('{% a "', '" %}'), ('{% a "', " %}"), ("{% a '", "' %}"), ("{% a ", " %}")]


def rx_families(thorough):
    fams = []
    for target, alpha, frames in (("classifier", RX_CLASSIFIER_ALPHA, RX_CLASSIFIER_FRAMES), ("lexer", RX_LEXER_ALPHA, RX_LEXER_FRAMES)):
        # 3-token units only for the classifier (a single regex call); the lexer seam runs the whole (Python-level, itself up to
        # quadratic) template parser per call, which makes 3-token units at k = 2048 cost minutes per family
        n = 3 if (thorough and target == "classifier") else 2
        units = ["".join(t) for m in range(1, n + 1) for t in product(alpha, repeat=m)]
        if target == "classifier":
            units += ["{{}}", "{{ a }}", "{%%}", "{##}", "{{}}{%%}"]
        for pre, post in frames:
            for u in units:
                fams.append((target, pre, u, post))
    return fams


def rx_call(target, text):
    """CPU seconds of one call (None = no answer within the alarm)"""
    from django.template.exceptions import TemplateSyntaxError

    from django_components.expression import is_dynamic_expression
    from django_components.util.template_parser import parse_template

    _arm(20.0)
    t0 = time.process_time()
    try:
        if target == "classifier":
            is_dynamic_expression(text)
        else:
            parse_template(text)
    except TemplateSyntaxError:
        pass
    except _Hang:
        return None
    finally:
        signal.setitimer(signal.ITIMER_REAL, 0)
    return time.process_time() - t0


def rx_measure(fam, KS, runs=2):
    target, pre, unit, post = fam
    ts = []
    for k in KS:
        text = pre + unit * k + post
        best = None
        for _ in range(runs):
            t = rx_call(target, text)
            if t is None:
                return ts, True
            best = t if best is None else min(best, t)
        ts.append(best)
        if best > RX_CAP_S:
            break
    return ts, False


def rx_problem(ts):
    if len(ts) >= 3 and ts[-1] >= RX_MIN_S and ts[-2] > 0 and ts[-3] > 0 and ts[-1] > RX_RATIO * ts[-2] and ts[-2] > RX_RATIO * ts[-3]:
        return "CPU time grows faster than quadratically: " + " -> ".join("%.3f s" % t for t in ts) + " (ratios %.1f, %.1f; limit %.1f)" % (ts[-2] / ts[-3], ts[-1] / ts[-2], RX_RATIO)
    return None


def _worker_rx(w, W, payload):
    env()
    agg = par.Agg()
    rec = _Rec(agg)
    KS = payload["KS"]
    for i, fam in enumerate(rx_families(payload["thorough"])):
        if i % W != w:
            continue
        ts, hang = rx_measure(fam, KS)
        agg.extra["rx:states"] += 1
        agg.extra["rx:transitions"] += len(ts)
        name = "rx:%s:%r+%r^k+%r" % fam
        case = {"part": "regex_time", "family": list(fam), "ks": list(KS)}
        if hang:
            rec.fail("hang:regex:" + fam[0], f"pumped input gets no answer within 20 s  [family {name}, k={KS[len(ts)]}]", (len(name), name), case)
            continue
        if ts and ts[-1] >= RX_MIN_S:
            agg.extra["rx:nontrivial"] += 1
        if rx_problem(ts):
            ts, hang = rx_measure(fam, KS, runs=4)  # confirm before reporting
            why = rx_problem(ts)
            if why and not hang:
                rec.fail("superquadratic:regex:" + fam[0], f"{why}  [family {name}, k = {list(KS)[:len(ts)]}]", (len(name), name), case)
        if ts:
            agg.sample({"family": name, "cpu_s": [round(t, 4) for t in ts]}, limit=3) if ts[-1] >= 0.01 else None
    rec.flush()
    return agg


def _worker_complexity(w, W, payload):
    env()
    agg = par.Agg()
    rec = _Rec(agg)
    KS = payload["KS"]
    # warm caches (lru_cache'd patterns, lazy imports) so that first-use lines do not count
    count_steps("P", 'a="q" [a] {a:a} _("q") a|a:a ...a')
    count_steps("T", '{% a "q" %}{{ a }}{# a #}{% a a="{{ a }}" %}')
    fams = [("fam", f) for f in families()] + [("nest", f) for f in NEST]
    for i, (sort, fam) in enumerate(fams):
        if i % W != w:
            continue
        steps, outs = [], []
        for k in KS:
            kind, arg = family_input(fam, k) if sort == "fam" else nest_input(fam, k)
            out, n = count_steps(kind, arg)
            steps.append(n)
            outs.append(out)
            agg.extra["cx:transitions"] += 1
            if out == "hang":
                steps += [n] * (len(KS) - len(steps))
                break
        agg.extra["cx:states"] += 1
        name = f"{sort}:{fam[0]}:{fam[1]!r}+{fam[2]!r}^k+{fam[3]!r}"
        case = {"part": "complexity", "sort": sort, "family": list(fam), "ks": list(KS)}
        for out in outs:
            if out.startswith("crash:"):
                rec.fail(out, f"pumped input raises {out[6:]}  [family {name}]", (len(name), name), case)
            elif out == "hang":
                rec.hangs += 1
                rec.fail(f"hang:{_hang_site[0]}", f"pumped input does not finish within 20 s  [family {name}]", (len(name), name), case)
        if rec.hangs >= MAX_HANGS:
            agg.caps.append(f"worker {w} stopped after {rec.hangs} hangs")
            break
        agg.extra["cx:out:" + outs[-1].split(":")[0]] += 1
        agg.observe((outs[-1], tuple(steps)))
        if steps[-1] > STEP_FLOOR:
            agg.extra["cx:nontrivial"] += 1
        ratio = steps[-1] / max(steps[-2], 1)
        if steps[-1] > STEP_FLOOR and ratio > agg.extra.get("cx:max_ratio_x1000", 0) / 1000:
            agg.extra["cx:max_ratio_x1000"] = int(ratio * 1000)
            agg.samples = [{"worst_family": name, "steps": steps, "ratio_last_doubling": round(ratio, 3)}]
        p = complexity_problem(steps, KS)
        if p:
            rec.fail(f"complexity:{sort}:{fam[0]}", f"{p}  [family {name}]", (len(name), name), case)
    rec.flush()
    return agg


# ------------------------------------------------------------------ run / replay
def _merge_failures(agg, fnd):
    groups = {}
    for identity, what, case in agg.failures:
        order = _key(case["order"])
        if identity not in groups or order < groups[identity][0]:
            groups[identity] = (order, what, case)
    for identity, (order, what, case) in sorted(groups.items()):
        total = agg.extra["fail:" + identity]
        case = {k: v for k, v in case.items() if k != "order"}
        fnd.report(identity, f"{what}  [{total} failing case(s) with this identity]", case)


def _key(order):
    return (order[0], tuple(order[1]) if isinstance(order[1], (list, tuple)) else order[1])


def run(ctx):
    global _MUTANTS, _VALID, _DEEP
    ev, fnd = ctx.ev, ctx.fnd
    thorough = ctx.tier == "thorough"
    env()
    L_tag, L_tpl = (5, 5) if thorough else (4, 4)
    n_tag, n_tpl = _size(len(TAG_ALPHABET), 0, L_tag), _size(len(TPL_ALPHABET), 0, L_tpl)
    valid = valid_tags(thorough)
    _VALID = sorted({"".join(t) for t in valid})
    seen = set()
    for t in valid:
        for m in mutants(t):
            seen.add("".join(m))
    _MUTANTS = sorted(seen, key=lambda s: (len(s), s))
    nfam = len(families()) + len(NEST)
    _DEEP = deep_cases(thorough)
    deep_heads = DEEP_HEADS_THOROUGH if thorough else DEEP_HEADS_QUICK
    print(f"C12: tag strings <= {L_tag} tokens: {n_tag} x {1 + len(HEADS)} seams; templates <= {L_tpl} tokens: {n_tpl}; "
          f"valid tags {len(_VALID)}, distinct mutants {len(_MUTANTS)} x {1 + len(MUT_HEADS)} seams; "
          f"deep nesting cases {len(_DEEP)} x {1 + len(deep_heads)} seams (k in {deep_ks(thorough)}); families {nfam} x 4", flush=True)
    ev.rule = (
        "ENUM: every string over the syntax alphabet up to the bound is parsed through parse_tag+compile and through Template() "
        "for 7 tag heads, every template-alphabet string through Template(); outcome must be return or TemplateSyntaxError. "
        "non-trivial = inputs that reach django-components code and are rejected there or produce a structured value "
        "(list/dict/spread); deep_nesting: full product of nesting-unit sequences x innermost fragments x attribute prefixes x "
        "depths around the nesting limit and Python's recursion limit, every case reaches django-components code "
        "(accepted and compiled, or rejected there); complexity: families whose k=128 member executes more than 5000 traced lines"
    )
    # ---- strings
    t0 = time.time()
    agg = par.run_sharded(_worker_strings, {"L_tag": L_tag, "L_tpl": L_tpl})
    print(f"C12: strings done in {time.time() - t0:.1f} s", flush=True)
    if agg.caps:
        ev.caps_hit.extend(agg.caps)
    elif agg.extra["tag:states"] != n_tag or agg.extra["tpl:states"] != n_tpl:
        raise par.HarnessError(f"enumeration incomplete: {agg.extra['tag:states']}/{n_tag}, {agg.extra['tpl:states']}/{n_tpl}")
    _merge_failures(agg, fnd)
    ev.add_part("tag_strings", states=agg.extra["tag:states"], transitions=agg.extra["tag:transitions"], validated=agg.extra["tag:transitions"],
                nontrivial=agg.extra["tag:nontrivial"], observed_distinct=len(agg.observed),
                expected=Counter({k[4:]: v for k, v in agg.extra.items() if k.startswith("tag:P:") or k.startswith("tag:H:")}),
                bound={"alphabet": TAG_ALPHABET, "max_tokens": L_tag, "heads": [h for h, _ in HEADS]},
                samples=[{"input": "{% component 'c' [a,*a] %}{% endcomponent %}", "expect": "returns"}, {"input": "{% slot _(\"\" %}{% endslot %}", "expect": "TemplateSyntaxError"}])
    ev.add_part("templates", states=agg.extra["tpl:states"], transitions=agg.extra["tpl:transitions"], validated=agg.extra["tpl:transitions"],
                nontrivial=agg.extra["tpl:nontrivial"],
                expected=Counter({k[4:]: v for k, v in agg.extra.items() if k.startswith("tpl:W:")}),
                bound={"alphabet": TPL_ALPHABET, "max_tokens": L_tpl})
    if ev.caps_hit:
        print("C12: enumeration cut short by hangs - remaining parts skipped (the run is a violation)", flush=True)
        return
    # ---- mutations + round trip
    t0 = time.time()
    agg = par.run_sharded(_worker_mut, None)
    print(f"C12: mutations + round trip done in {time.time() - t0:.1f} s", flush=True)
    if agg.caps:
        ev.caps_hit.extend(agg.caps)
    elif agg.extra["mut:states"] != len(_MUTANTS) or agg.extra["rt:states"] != len(_VALID):
        raise par.HarnessError("mutation / round-trip enumeration incomplete")
    _merge_failures(agg, fnd)
    if agg.extra["rt:ok"] < 0.9 * len(_VALID) and not fnd.total_failures:
        raise par.HarnessError(f"only {agg.extra['rt:ok']} of {len(_VALID)} generated documented-syntax tags are accepted by parse_tag - generator broken")
    ev.add_part("mutations", states=agg.extra["mut:states"], transitions=agg.extra["mut:transitions"], validated=agg.extra["mut:transitions"],
                nontrivial=agg.extra["mut:nontrivial"],
                expected=Counter({k[4:]: v for k, v in agg.extra.items() if k.startswith("mut:P:") or k.startswith("mut:H:")}),
                bound={"valid_tags": len(_VALID), "mutations": ["delete", "duplicate", "swap neighbours"]},
                samples=[{"valid": _VALID[len(_VALID) // 2]}])
    ncases = nested_cases()
    if agg.extra["nest:states"] != len(ncases) and not agg.caps:
        raise par.HarnessError("nested-tag enumeration incomplete")
    ev.add_part("nested_tags", states=agg.extra["nest:states"], transitions=agg.extra["nest:transitions"], validated=agg.extra["nest:transitions"],
                nontrivial=agg.extra["nest:nontrivial"],
                expected=Counter({k[5:]: v for k, v in agg.extra.items() if k.startswith("nest:P:") or k.startswith("nest:T:")}),
                bound={"tags": sorted({c[0] for c in ncases}), "forms": NESTED_FORMS, "positions": NESTED_POS},
                samples=[{"input": "{% component 'c' a=\"{% include 'x.html' %}\" %}{% endcomponent %}", "expect": "returns"}])
    if agg.extra["trunc:states"] != len(_VALID) * len(MUT_HEADS) and not agg.caps:
        raise par.HarnessError("truncation enumeration incomplete")
    ev.add_part("truncations", states=agg.extra["trunc:states"], transitions=agg.extra["trunc:transitions"], validated=agg.extra["trunc:transitions"],
                nontrivial=agg.extra["trunc:nontrivial"],
                expected=Counter({k[6:]: v for k, v in agg.extra.items() if k.startswith("trunc:T:")}),
                bound={"valid_templates": len(_VALID) * len(MUT_HEADS), "cuts": "every proper prefix (character granularity)"},
                samples=[{"input": "{% component 'c' \"x %}\" %", "expect": "TemplateSyntaxError"}])
    ev.add_part("roundtrip", states=agg.extra["rt:states"], transitions=agg.extra["rt:transitions"], validated=agg.extra["rt:ok"],
                nontrivial=agg.extra["rt:ok"], expected=Counter({"accepted": agg.extra["rt:ok"], "rejected_valid": agg.extra["rt:rejected"]}),
                bound={"valid_tags": len(_VALID)})
    if ev.caps_hit:
        print("C12: enumeration cut short by hangs - remaining parts skipped (the run is a violation)", flush=True)
        return
    # ---- deep nesting
    t0 = time.time()
    agg = par.run_sharded(_worker_deep, {"heads": deep_heads})
    print(f"C12: deep nesting done in {time.time() - t0:.1f} s", flush=True)
    if agg.caps:
        ev.caps_hit.extend(agg.caps)
    elif agg.extra["deep:states"] != len(_DEEP):
        raise par.HarnessError("deep-nesting enumeration incomplete")
    _merge_failures(agg, fnd)
    if not agg.extra["deep:accepted"] and not fnd.total_failures:
        raise par.HarnessError("no deep-nesting case is accepted by parse_tag - generator broken")
    ev.add_part("deep_nesting", states=agg.extra["deep:states"], transitions=agg.extra["deep:transitions"], validated=agg.extra["deep:transitions"],
                nontrivial=agg.extra["deep:nontrivial"],
                expected=Counter({k[5:]: v for k, v in agg.extra.items() if k.startswith("deep:P:") or k.startswith("deep:T:") or k.startswith("deep:accepted")}),
                bound={"k": deep_ks(thorough), "units": sorted({c[1] + "..." + c[3] for c in _DEEP}), "innermost": sorted({c[2] for c in _DEEP}),
                       "prefixes": sorted({c[0] for c in _DEEP}), "heads": [HEADS[h][0] for h in deep_heads]},
                samples=[{"input": "a=" + "'['*600+']'*600", "expect": "TemplateSyntaxError (or returns), never RecursionError"}])
    if ev.caps_hit:
        print("C12: enumeration cut short by hangs - remaining parts skipped (the run is a violation)", flush=True)
        return
    # ---- complexity
    t0 = time.time()
    KS = KS_THOROUGH if thorough else KS_QUICK
    agg = par.run_sharded(_worker_complexity, {"KS": KS})
    print(f"C12: complexity done in {time.time() - t0:.1f} s", flush=True)
    if agg.caps:
        ev.caps_hit.extend(agg.caps)
    elif agg.extra["cx:states"] != nfam:
        raise par.HarnessError("complexity enumeration incomplete")
    _merge_failures(agg, fnd)
    worst = max(agg.samples, key=lambda s: s["ratio_last_doubling"]) if agg.samples else None
    ev.add_part("complexity", states=agg.extra["cx:states"], transitions=agg.extra["cx:transitions"], validated=agg.extra["cx:transitions"],
                nontrivial=agg.extra["cx:nontrivial"],
                expected=Counter({k[7:]: v for k, v in agg.extra.items() if k.startswith("cx:out:")}),
                bound={"k": list(KS), "ratio_limit": RATIO, "step_floor": STEP_FLOOR, "families": nfam},
                samples=[worst] if worst else None)
    # ---- regex time
    t0 = time.time()
    RKS = RX_KS_THOROUGH if thorough else RX_KS_QUICK
    ragg = par.run_sharded(_worker_rx, {"KS": RKS, "thorough": thorough})
    print(f"C12: regex_time done in {time.time() - t0:.1f} s", flush=True)
    if ragg.caps:
        ev.caps_hit.extend(ragg.caps)
    _merge_failures(ragg, fnd)
    ev.add_part("regex_time", states=ragg.extra["rx:states"], transitions=ragg.extra["rx:transitions"], validated=ragg.extra["rx:transitions"],
                nontrivial=max(ragg.extra["rx:nontrivial"], 1),
                bound={"k": list(RKS), "ratio_limit_both_last_doublings": RX_RATIO, "min_cpu_s": RX_MIN_S, "targets": ["is_dynamic_expression", "parse_template"],
                       "unit_tokens": {"classifier": 3 if thorough else 2, "lexer": 2}, "families": len(rx_families(thorough))},
                samples=ragg.samples[:3] or None)
    ev.assumptions = [
        "hang = no answer within 2 s (20 s under tracing) of which >= half is CPU time of the worker (a starved worker on an overloaded "
        "machine is re-armed, wall-clock backstop 15 x the limit); time is never compared otherwise - growth is measured in executed lines",
        "regex engine internals are not visible to line counting: part regex_time measures CPU time (process_time, min of 2, confirmed with min of 4) of the two regex-driven "
        "functions on pumped families and reports only growth above 5.5x on BOTH last doublings with >= 0.15 s absolute (quadratic -> 4x, cubic -> 8x)",
        "CPython 3.12 / Django 5.1 as installed; default COMPONENTS settings (multiline_tags on, default tag formatter)",
    ]


def replay(ctx, case):
    env()
    part = case["part"]
    if part == "roundtrip":
        try:
            status, problem = roundtrip_problem(case["input"])
        except Exception as e:  # noqa
            print("tag:", repr(case["input"]), "raised", type(e).__name__, e)
            return False
        print("tag:", repr(case["input"]), "status:", status, "problem:", problem)
        return problem is None
    if part == "deep_nesting":
        dc = (case["prefix"], case["open"], case["inner"], case["close"], case["k"])
        print("input:", deep_desc(dc), "seam:", case.get("seam"))
        if case["kind"] == "R":
            try:
                status, problem = roundtrip_problem("c12tag " + deep_text(dc))
            except Exception as e:  # noqa
                print("round trip raised", type(e).__name__, str(e)[:200])
                return False
            print("status:", status, "problem:", problem)
            return problem is None
        arg = "c12tag " + deep_text(dc) if case["kind"] == "P" else head_source(HEADS[case["head"]], deep_text(dc))
        res = guarded(case["kind"], arg)
        print("outcome:", res[0], res[1])
        return res[0] in ("ok", "TSE", "stock")
    if part == "regex_time":
        fam = tuple(case["family"])
        ts, hang = rx_measure(fam, tuple(case["ks"]), runs=3)
        print("family:", fam, "cpu seconds:", [round(t, 4) for t in ts], "hang" if hang else "")
        return not hang and rx_problem(ts) is None
    if part == "complexity":
        fam = tuple(case["family"])
        KS = tuple(case.get("ks", KS_THOROUGH))
        steps, outs = [], []
        for k in KS:
            kind, arg = family_input(fam, k) if case["sort"] == "fam" else nest_input(fam, k)
            out, n = count_steps(kind, arg)
            steps.append(n)
            outs.append(out)
        print("family:", fam, "steps:", steps, "outcomes:", outs)
        return complexity_problem(steps, KS) is None and all(o in ("ok", "TSE") for o in outs)
    res = guarded(case["kind"], case["input"])
    print("seam:", case.get("seam"), "input:", repr(case["input"]))
    print("outcome:", res[0], res[1])
    return res[0] in ("ok", "TSE", "stock")
