"""C19 - every script URL a render emits is served with that component's code (SEQ + ENUM).

Part "hist" (SEQ)  BFS to a fixpoint (+ all unmerged sequences to a depth) over histories of
    render(X, document|fragment)        X.render(type=...)  for A(js+css) B(js) C(no assets)
                                        V(js+css+get_js_data/get_css_data) N(css, nests A and B)
    page(document|fragment)             Template with {% component %} tags, then render_dependencies()
    pre(X)                              html = X.render(render_dependencies=False), kept   (X in A, V)
    slot(document|fragment)             P.render(slots={"s": kept html}, type=...)  - the documented
                                        "insert pre-rendered HTML into another component" flow
    clear / evict(key) / recreate       media_cache.clear(), media_cache.delete(one key), forget the
                                        lazily built cache object
  for the built-in media cache and for a Django-configured one (COMPONENTS.cache).  After **every**
  step all component-cache URLs of the output (``loadedJsUrls`` / ``loadedCssUrls`` in document
  mode, ``toLoadJsTags`` / ``toLoadCssTags`` in fragment mode) are extracted and fetched through
  ``django.test.Client`` at once; every *other* URL of the finite universe (js/css of every class + the
  two variables files of V) is fetched as well.
  Oracle: an emitted URL names one of the harness' classes; GET -> 200, body == that class'
  ``js`` / ``css`` (stripped or verbatim), content type text/javascript / text/css.  URLs the step did
  not announce must give 404 or the right body - never 5xx, never other code.
  State (canon) = which scripts are in the media cache (probed with has_key), whether the lazily built
  cache object exists, which pre-rendered html is kept.
Part "family" (SEQ)  the classes of "hist" are all direct subclasses of Component; here the classes are *related by
  subclassing*.  One small world per family, BFS to a fixpoint (+ all unmerged sequences to a depth) for both caches:
    pair   r <- x          root r {with, without} js x {with, without} css (4)  x  what x does with the js and with
                           the css of its base: inherit (not defined) / override (own code) / blank ("")  (3 x 3 = 9)
    chain  r <- x <- y     r has js+css; quick: x and y each treat js and css alike (3 x 3 = 9 chains, 6 unordered
    sibs   r <- x, r <- y  sibling sets); thorough: full (js mode, css mode) product per subclass (81 chains, 45 sets)
  ops: render(class, document|fragment) for every class of the family - so parent-then-child and child-then-parent are
  both reached -, page(document|fragment) (all classes of the family in one template), clear, evict(class, kind)
  (three-class families: the js of every class and the css of the root).
  Reference code of a class = the documented subclassing rule (docs/concepts/fundamentals/subclassing_components.md):
  the nearest class of the chain that *defines* js / css wins, independent of the library's attribute lookup.
  Oracle: an announced URL is judged against the code of the class(es) *this step rendered* whose hash it carries
  (not against "whatever class the hash maps to"): 200 + that class' js / css + content type; a URL announced although
  no rendered class that carries its hash has such code is a violation; URLs of the family the step did not announce
  give 404 or the code of every class (with such code) that carries the hash.  State = (class, kind, digest of the
  cached script) entries of the media cache; non-trivial = scripts of at least two related classes cached side by side.
  With the built-in cache (no timeout, no size bound) a URL must stay servable from the step that announced it until the next
  clear / recreate / eviction of its key ("vanished-*" clauses).
Part "lifecycle_and_names" (ENUM)  lifecycle: an older class object with the same import path (created first, never rendered) is
  dropped and collected somewhere in every history of <= 4 ops over render(document|fragment) / drop_old / clear; every URL
  announced since the last clear must be served after every step.  names: pairs of live classes of one module with related
  names (equal length, differing only in non-ASCII letters / case / a digit) x both render orders x document / fragment.
  capacity: ONE fragment / document render of 170 components with js + css (340 scripts, more than Django's default cache
  size) with the built-in cache - every announced URL must be served.
Part "shapes" (ENUM)  all classes with js, css in {None, "", blank, code, padded code} x
  document/fragment x first/second render: same oracle.
Part "requests" (ENUM)  full product hash x kind x input-hash x method in two cache states:
  never >= 500; valid GET -> 200 + right body + type (404 when nothing is cached yet); unknown
  hash / kind -> 404; non-GET on a servable URL -> 405.

Excluded / agnostic corners
  * a render that *raises* emits nothing; the statement is silent, so exceptions are recorded as
    an outcome class only (document mode raises RuntimeError where fragment mode emits a dead URL);
  * whether a URL is emitted at all (that is C04) - only counted, for vacuity;
  * the body of the JS/CSS *variables* files (``<hash>.<input>.js``): only 200 + type are asserted;
  * request corners the statement leaves open accept either answer: non-GET on an unknown or
    unroutable path (404 or 405); GET of a known class' kind it has no code for (404, or 200 with an
    empty body); GET before anything is cached (404 or the right body);
  * URLs of older renders after a later eviction; evictions *during* a render (cache too small);
    component classes that were garbage collected while their URLs are in use, two *different* live classes sharing an
    import path, names that are not identifiers (beyond part lifecycle_and_names); cache backends other than locmem;
  * subclasses that set ``js = None`` / ``css = None`` explicitly (the docs say "defines"; the library treats None as
    not defined), ``js_file`` / ``css_file`` and ``Media`` inheritance (C04's ground), multiple inheritance.
"""
from __future__ import annotations

import base64
import json
import logging
import re
import warnings
import zlib
from itertools import product

from mc import boot, par, seq

PID = "C19"
LEVEL = "model_checking"
DJANGO = {
    "extra": {
        "CACHES": {
            "default": {"BACKEND": "django.core.cache.backends.locmem.LocMemCache", "LOCATION": "verif-default"},
            "verif-media": {
                "BACKEND": "django.core.cache.backends.locmem.LocMemCache",
                "LOCATION": "verif-media",
                "TIMEOUT": None,
                "OPTIONS": {"MAX_ENTRIES": 100000},
            },
        }
    }
}

# no failing transition may be dropped: an open known finding must not be able to crowd out a new one
FAIL_LIMIT = 1_000_000
DOC = "<html><head></head><body>%s</body></html>"
URL_RE = re.compile(r"^/components/cache/(?P<hash>[^/.]+)(?:\.(?P<input>[^/.]+))?\.(?P<kind>js|css)$")
CTYPE = {"js": "text/javascript", "css": "text/css"}

_ENV = None


class _Env:
    pass


def env():
    global _ENV
    if _ENV is not None:
        return _ENV
    from django.test import Client

    from django_components import Component
    from django_components.component_registry import registry

    logging.getLogger("django.request").setLevel(logging.CRITICAL)
    try:
        from django.core.cache.backends.base import CacheKeyWarning

        warnings.simplefilter("ignore", CacheKeyWarning)
    except Exception:  # noqa
        pass
    e = _Env()
    mod = "verif_c19"

    def mk(name, **attrs):
        return type("C19" + name, (Component,), {"__module__": mod, **attrs})

    e.cls = {
        "A": mk("A", template=DOC % "<div>a</div>", js="console.log('A')", css=".a { color: red }"),
        "B": mk("B", template=DOC % "<div>b</div>", js="  console.log('B');\n"),
        "C": mk("C", template=DOC % "<div>c</div>"),
        "V": mk("V", template=DOC % "<div>v</div>", js="console.log('V')", css=".v { color: blue }",
                get_js_data=lambda self, *a, **k: {"x": 1}, get_css_data=lambda self, *a, **k: {"c": "blue"}),
        "N": mk("N", template=DOC % "<p>n</p>{% component 'c19_a' / %}{% component 'c19_b' / %}", css=".n { margin: 0 }"),
        "P": mk("P", template=DOC % "{% slot 's' default / %}"),
    }
    for nm, k in (("c19_a", "A"), ("c19_b", "B")):
        if nm in registry.all():
            registry.unregister(nm)
        registry.register(nm, e.cls[k])
    e.by_hash = {c._class_hash: k for k, c in e.cls.items()}
    e.client = Client(raise_request_exception=False)
    e.shape_cls = None
    _ENV = e
    # the finite universe of URLs the history part can ever see: <hash>.js/.css of every class plus the two
    # variables URLs of V (their input hash is a digest of V's constant data, learnt from one render)
    e.universe = []
    for k in "ABCVNP":
        for kind in ("js", "css"):
            e.universe.append(f"/components/cache/{e.cls[k]._class_hash}.{kind}")
    # reference digest ("derived from the variables themselves"): md5 of the JSON dump, first 6 hex digits
    from hashlib import md5

    e.vars_hash = {
        "js": md5(json.dumps({"x": 1}).encode()).hexdigest()[:6],
        "css": md5(json.dumps({"c": "blue"}).encode()).hexdigest()[:6],
    }
    e.vars_urls = [f"/components/cache/{e.cls['V']._class_hash}.{e.vars_hash[kind]}.{kind}" for kind in ("js", "css")]
    e.universe += e.vars_urls
    return e


def media_cache():
    from django_components.cache import get_component_media_cache

    return get_component_media_cache()


def cache_key(cls, kind, input_hash=None):
    try:
        from django_components.dependencies import _gen_cache_key

        return _gen_cache_key(cls._class_hash, kind, input_hash)
    except ImportError:
        return f"__components:{cls._class_hash}:{kind}" + (f":{input_hash}" if input_hash else "")


def extract_urls(html: str):
    """Component-cache URLs announced by a rendered output -> list of (field, url)."""
    out = []
    for m in re.finditer(r'<script type="application/json" data-djc>(.*?)</script>', html, re.S):
        data = json.loads(m.group(1))
        for field in ("loadedJsUrls", "loadedCssUrls"):
            for b in data.get(field, []):
                out.append((field, base64.b64decode(b).decode()))
        for field, attr in (("toLoadJsTags", "src"), ("toLoadCssTags", "href")):
            for b in data.get(field, []):
                tag = base64.b64decode(b).decode()
                mm = re.search(attr + r'="([^"]*)"', tag)
                if mm:
                    out.append((field, mm.group(1)))
    return [(f, u) for f, u in out if u.startswith("/components/cache/")]


def expected_for(url: str, classes=None):
    """-> (class key, kind, input, acceptable bodies | None for 'any') or None when the URL is malformed."""
    e = env()
    m = URL_RE.match(url)
    if not m:
        return None
    by_hash = e.by_hash if classes is None else {c._class_hash: k for k, c in classes.items()}
    table = e.cls if classes is None else classes
    key = by_hash.get(m.group("hash"))
    if key is None:
        return None
    kind, inp = m.group("kind"), m.group("input")
    code = getattr(table[key], kind, None)
    if not isinstance(code, str) or not code.strip():
        return (key, kind, inp, ())  # class has no such code: nothing acceptable
    if inp is not None:
        return (key, kind, inp, None)
    return (key, kind, inp, (code, code.strip()))


def fetch(url: str):
    r = env().client.get(url)
    return r.status_code, r.content.decode("utf-8", "replace"), r.get("Content-Type", "")


def check_served(url: str, classes=None):
    """Problem string when an announced URL is not served with the right code."""
    exp = expected_for(url, classes)
    if exp is None:
        return f"emitted-unknown: emitted URL {url!r} does not name a rendered component's js/css"
    key, kind, inp, bodies = exp
    status, body, ctype = fetch(url)
    label = f"{key}.{kind}" + (".vars" if inp else "")
    if status != 200:
        return f"dead-url: emitted URL {url} ({label}) answered {status}, expected 200 with {key}'s {kind}"
    if bodies == ():
        return f"no-code: emitted URL {url} names {label}, but that class has no {kind} (answered 200 with {body[:60]!r})"
    if bodies is not None and body not in bodies:
        return f"wrong-body: emitted URL {url} ({label}) served {body[:60]!r}, expected {bodies[-1][:60]!r}"
    if not ctype.startswith(CTYPE[kind]):
        return f"wrong-type: emitted URL {url} ({label}) served content type {ctype!r}, expected {CTYPE[kind]}"
    return None


def check_lapsed(url: str):
    """A URL no render has just announced: 404 or the right answer, never 5xx / foreign code."""
    exp = expected_for(url)
    status, body, ctype = fetch(url)
    key, kind, inp, bodies = exp
    if bodies == ():
        bodies = ("",)  # class without such code: the statement is silent, an empty 200 is tolerated
    label = f"{key}.{kind}" + (".vars" if inp else "")
    if status >= 500:
        return f"server-error: GET {url} ({label}) answered {status}"
    if status == 200 and bodies is not None and body not in bodies:
        return f"foreign-body: GET {url} ({label}) served {body[:60]!r}"
    if status not in (200, 404):
        return f"odd-status: GET {url} ({label}) answered {status}"
    return None


# ----------------------------------------------------------------------------- history part
CACHE_CFGS = ["builtin", "verif-media"]
EVICT = [("A", "js"), ("A", "css"), ("B", "js")]


def hist_ops():
    ops = []
    for x in "ABCVN":
        for t in ("document", "fragment"):
            ops.append(("render", x, t))
    for t in ("document", "fragment"):
        ops.append(("page", t))
    for x in "AV":
        ops.append(("pre", x))
    for t in ("document", "fragment"):
        ops.append(("slot", t))
    ops.append(("clear",))
    for k, kind in EVICT:
        ops.append(("evict", k, kind))
    ops.append(("recreate",))
    return ops


def _fresh_library(cache_cfg):
    from django_components import cache as djc_cache

    env()
    boot.set_components_setting(cache=None if cache_cfg == "builtin" else cache_cfg)
    djc_cache.component_media_cache = None
    media_cache().clear()
    boot.ID_SEAM.reset()


class World:
    def __init__(self, cache_cfg):
        _fresh_library(cache_cfg)
        self.cache_cfg = cache_cfg
        self.saved = {}  # class key -> pre-rendered html
        self.trace = ()
        self.emitted = 0
        self.raised = 0
        # built-in cache (no timeout, no size bound): a URL stays servable from the step that announced it until the
        # next clear / recreate / eviction of its key - nothing else may remove a script
        self.servable = set()


_VALIDATED: set = set()


def _do(w: World, op):
    """Execute op on the implementation; -> html | None (non-render op) ; raises what the library raises."""
    from django.template import Context, Template

    from django_components import cache as djc_cache
    from django_components.dependencies import render_dependencies

    e = env()
    kind = op[0]
    if kind == "render":
        return e.cls[op[1]].render(type=op[2])
    if kind == "page":
        html = Template(DOC % "{% component 'c19_a' / %}<hr>{% component 'c19_b' / %}").render(Context({}))
        return render_dependencies(html, op[1])
    if kind == "pre":
        w.saved[op[1]] = e.cls[op[1]].render(render_dependencies=False)
        return None
    if kind == "slot":
        from django.utils.safestring import mark_safe

        content = mark_safe("".join(w.saved[k] for k in sorted(w.saved)))
        return e.cls["P"].render(slots={"s": content}, type=op[1])
    if kind == "clear":
        media_cache().clear()
        return None
    if kind == "evict":
        cls = e.cls[op[1]]
        media_cache().delete(cache_key(cls, op[2]))
        return None
    if kind == "recreate":
        djc_cache.component_media_cache = None
        return None
    raise AssertionError(kind)


def hist_step(w: World, op):
    w.trace = w.trace + (op,)
    replayed = w.trace in _VALIDATED
    try:
        html = _do(w, op)
    except Exception as ex:  # noqa
        # the statement does not say that renders succeed - recorded, not judged
        w.raised += 1
        boot.clear_render_registries()
        return ("raised", op[0], type(ex).__name__), None
    emitted = []
    if html is not None:
        emitted = sorted({u for _, u in extract_urls(html)})
        w.emitted += len(emitted)
    if op[0] in ("clear", "recreate"):
        w.servable = set()
    elif op[0] == "evict":
        w.servable.discard(f"/components/cache/{env().cls[op[1]]._class_hash}.{op[2]}")
    w.servable |= set(emitted)
    if replayed:
        return None, None
    opsym = op[0] + (":" + op[-1] if op[0] in ("render", "page", "slot") else "")
    # (1) what this output announces must be served, now
    for u in emitted:
        problem = check_served(u)
        if problem:
            return ("emitted", tuple(_sym(x) for x in emitted)), _tag(problem, opsym)
    # (2) every other URL of the universe: right code or 404, never 5xx / foreign code
    for u in env().universe:
        if u not in emitted:
            if w.cache_cfg == "builtin" and u in w.servable:
                problem = check_served(u)
                if problem:
                    problem = "vanished-" + problem.replace("emitted URL", "URL announced by an earlier step, not evicted since,")
            else:
                problem = check_lapsed(u)
            if problem:
                return ("emitted", tuple(_sym(x) for x in emitted)), _tag(problem, opsym)
    _VALIDATED.add(w.trace)
    return ("emitted", tuple(_sym(u) for u in emitted)), None


def _tag(problem, opsym):
    """'clause: text' -> 'clause|op: text' (identity = violated clause + kind of the step that exposed it)."""
    clause, text = problem.split(": ", 1)
    return f"{clause}|{opsym}: {text}"


def _sym(url):
    exp = expected_for(url)
    return url if exp is None else f"{exp[0]}.{exp[1]}" + (".vars" if exp[2] else "")


def all_known_keys():
    e = env()
    keys = []
    for k in "ABCVNP":
        for kind in ("js", "css"):
            keys.append((k, kind, cache_key(e.cls[k], kind)))
    return keys


def hist_canon(w: World):
    from django_components import cache as djc_cache

    mc = djc_cache.component_media_cache
    none = mc is None
    c = media_cache() if none else mc
    present = tuple((k, kind) for k, kind, key in all_known_keys() if c.has_key(key))
    vars_present = tuple(
        _sym(u) for u in env().vars_urls
        if c.has_key(cache_key(env().cls["V"], URL_RE.match(u).group("kind"), URL_RE.match(u).group("input")))
    )
    if none:
        djc_cache.component_media_cache = None  # probing must not change the state
    return (present, vars_present, none, tuple(sorted(w.saved)))


def _hist_bfs_task(cache_cfg):
    _VALIDATED.clear()
    ops = hist_ops()

    def make():
        return World(cache_cfg)

    r = seq.bfs(make, ops, hist_step, hist_canon, max_states=100000, fail_limit=FAIL_LIMIT)
    nontriv = sum(1 for k in r.seen if k[0] or k[1])  # states with at least one script in the media cache
    _cleanup()
    return {"cfg": cache_cfg, "states": r.states, "transitions": r.transitions, "failures": r.failures, "fixpoint": r.fixpoint,
            "max_depth": r.max_depth, "samples": r.sample_histories, "outcomes": sorted(r.outcomes), "seen": set(r.seen.keys()), "nontrivial": nontriv}


def _hist_unmerged_task(arg):
    cache_cfg, depth, first = arg
    _VALIDATED.clear()
    ops = hist_ops()
    n_seq, n_tr, failures, outcomes, canon_states = seq.all_sequences(
        lambda: World(cache_cfg), ops, hist_step, depth, first_ops=[first], canon=hist_canon, fail_limit=FAIL_LIMIT
    )
    _cleanup()
    return cache_cfg, n_seq, n_tr, failures, canon_states, sorted(outcomes)


def _cleanup():
    from django_components import cache as djc_cache

    boot.set_components_setting(cache=None)
    djc_cache.component_media_cache = None
    media_cache().clear()
    boot.clear_render_registries()


# ----------------------------------------------------------------------------- family part
MODES = ("inherit", "override", "blank")  # what a subclass does with the js / css of its base class
PATTERNS = [(j, c) for j in MODES for c in MODES]
ROOT_PATTERNS = [(j, c) for j in ("override", "inherit") for c in ("override", "inherit")]  # root has / has not js, css
UNIFORM = [(m, m) for m in MODES]


class Family:
    """A closed set of component classes related by subclassing.

    members: ((role, parent role | None, js mode, css mode), ...) - parents before children, the root is 'r'."""

    def __init__(self, kind, members):
        self.kind = kind
        self.members = tuple(members)
        self.roles = tuple(m[0] for m in members)
        self.spec = {m[0]: {"parent": m[1], "js": m[2], "css": m[3]} for m in members}
        self.name = kind + "/" + "/".join(f"{r}{'(' + p + ')' if p else ''}={j[0]}{c[0]}" for r, p, j, c in members)
        self.tag = kind + "_" + "_".join(f"{r}{p or ''}{j[0]}{c[0]}" for r, p, j, c in members)

    def literal(self, role, kind):
        return f"console.log('{role}')" if kind == "js" else f".{role} {{ color: red }}"

    def ref_code(self, role, kind):
        """Reference (documented subclassing rule): the nearest class of the chain that defines js / css wins."""
        while role is not None:
            mode = self.spec[role][kind]
            if mode == "override":
                return self.literal(role, kind)
            if mode == "blank":
                return ""
            role = self.spec[role]["parent"]
        return None


def families(tier):
    """pairs: full product root shape x (js mode, css mode) of the subclass; three classes (chain r<-x<-y, siblings
    r<-x, r<-y; root with js+css): both subclasses uniform (js mode == css mode) in the quick tier, the full
    (js mode, css mode)^2 product in the thorough tier (siblings: unordered).  quick is a subset of thorough."""
    fams = []
    for rp in ROOT_PATTERNS:
        for p in PATTERNS:
            fams.append(Family("pair", [("r", None) + rp, ("x", "r") + p]))
    pats = PATTERNS if tier == "thorough" else UNIFORM
    root = ("r", None, "override", "override")
    for p1 in pats:
        for p2 in pats:
            fams.append(Family("chain", [root, ("x", "r") + p1, ("y", "x") + p2]))
    for i, p1 in enumerate(pats):
        for p2 in pats[i:]:
            fams.append(Family("sibs", [root, ("x", "r") + p1, ("y", "r") + p2]))
    return fams


def family_by_name(name):
    for f in families("thorough"):
        if f.name == name:
            return f
    raise ValueError(name)


def family_classes(fam):
    """role -> component class (created once per process and kept alive), registered as '<tag>_<role>'."""
    e = env()
    if not hasattr(e, "fam_cls"):
        e.fam_cls = {}
    if fam.name not in e.fam_cls:
        from django_components import Component
        from django_components.component_registry import registry

        table = {}
        for role, parent, js, css in fam.members:
            attrs = {"__module__": "verif_c19", "template": DOC % f"<div>{role}</div>"}
            for kind, mode in (("js", js), ("css", css)):
                if mode == "override":
                    attrs[kind] = fam.literal(role, kind)
                elif mode == "blank":
                    attrs[kind] = ""
            table[role] = type(f"C19F_{fam.tag}_{role}", (table[parent] if parent else Component,), attrs)
            reg = fam_regname(fam, role)
            if reg in registry.all():
                registry.unregister(reg)
            registry.register(reg, table[role])
        e.fam_cls[fam.name] = table
    return e.fam_cls[fam.name]


def fam_regname(fam, role):
    return f"c19f_{fam.tag}_{role}".lower()


def fam_ops(fam):
    ops = []
    for r in fam.roles:
        for t in ("document", "fragment"):
            ops.append(("render", r, t))
    for t in ("document", "fragment"):
        ops.append(("page", t))
    ops.append(("clear",))
    for r in fam.roles:
        for kind in ("js", "css"):
            if len(fam.roles) == 2 or kind == "js" or r == "r":  # three classes: x.css / y.css are not evicted singly
                ops.append(("evict", r, kind))
    return ops


class FamWorld:
    def __init__(self, fam, cache_cfg):
        _fresh_library(cache_cfg)
        self.fam = fam
        self.cls = family_classes(fam)
        self.cache_cfg = cache_cfg
        self.trace = ()
        self.emitted = 0
        self.raised = 0


def _fam_do(w: FamWorld, op):
    """-> (html | None, roles whose render produced the html)"""
    from django.template import Context, Template

    from django_components.dependencies import render_dependencies

    kind = op[0]
    if kind == "render":
        return w.cls[op[1]].render(type=op[2]), (op[1],)
    if kind == "page":
        body = "<hr>".join("{% component '" + fam_regname(w.fam, r) + "' / %}" for r in w.fam.roles)
        return render_dependencies(Template(DOC % body).render(Context({})), op[1]), w.fam.roles
    if kind == "clear":
        media_cache().clear()
        return None, ()
    if kind == "evict":
        media_cache().delete(cache_key(w.cls[op[1]], op[2]))
        return None, ()
    raise AssertionError(kind)


def _bodies(code):
    return (code, code.strip()) if isinstance(code, str) and code.strip() else ()


def fam_check_served(w: FamWorld, url, rendered):
    """An announced URL names the *rendered* classes that carry its hash and have such code: served with the code of each."""
    m = URL_RE.match(url)
    owners = [r for r in rendered if m and m.group("input") is None and w.cls[r]._class_hash == m.group("hash")]
    if not owners:
        return f"emitted-unknown: emitted URL {url!r} does not name js/css of a component this step rendered {list(rendered)}"
    kind = m.group("kind")
    status, body, ctype = fetch(url)
    # rendered together, a class without such code is not what the URL was announced for (hashes are meant to be unique)
    coded = [r for r in owners if _bodies(w.fam.ref_code(r, kind))]
    if not coded:
        return (f"no-code: URL {url} emitted by a render of {'/'.join(owners)}, which has no {kind} "
                f"(answered {status} with {body[:60]!r})")
    for r in coded:
        ok = _bodies(w.fam.ref_code(r, kind))
        if status != 200:
            return f"dead-url: URL {url} emitted by a render of {r} answered {status}, expected 200 with {r}'s {kind}"
        if body not in ok:
            return f"wrong-body: URL {url} emitted by a render of {r} served {body[:60]!r}, expected {r}'s {kind} {ok[-1][:60]!r}"
        if not ctype.startswith(CTYPE[kind]):
            return f"wrong-type: URL {url} emitted by a render of {r} served content type {ctype!r}, expected {CTYPE[kind]}"
    return None


def fam_check_lapsed(w: FamWorld, url):
    """A URL of the family this step did not announce: 404, or the code of every class with such code it names; never 5xx."""
    m = URL_RE.match(url)
    kind = m.group("kind")
    owners = [r for r in w.fam.roles if w.cls[r]._class_hash == m.group("hash")]
    status, body, ctype = fetch(url)
    if status >= 500:
        return f"server-error: GET {url} ({'/'.join(owners)}.{kind}) answered {status}"
    if status not in (200, 404):
        return f"odd-status: GET {url} ({'/'.join(owners)}.{kind}) answered {status}"
    if status == 200:
        coded = [r for r in owners if _bodies(w.fam.ref_code(r, kind))]
        for r in coded or owners:  # no class with such code: the statement is silent, an empty 200 is tolerated
            if body not in (_bodies(w.fam.ref_code(r, kind)) or ("",)):
                return f"foreign-body: GET {url} ({r}.{kind}) served {body[:60]!r}"
    return None


def fam_universe(w: FamWorld):
    return sorted({f"/components/cache/{w.cls[r]._class_hash}.{kind}" for r in w.fam.roles for kind in ("js", "css")})


def _fam_sym(w: FamWorld, url):
    m = URL_RE.match(url)
    owners = [r for r in w.fam.roles if m and w.cls[r]._class_hash == m.group("hash")]
    return url if not owners else "/".join(owners) + "." + m.group("kind") + (".vars" if m.group("input") else "")


def fam_step(w: FamWorld, op):
    w.trace = w.trace + (op,)
    replayed = w.trace in _VALIDATED
    try:
        html, rendered = _fam_do(w, op)
    except Exception as ex:  # noqa
        w.raised += 1
        boot.clear_render_registries()
        return ("raised", op[0], type(ex).__name__), None
    emitted = []
    if html is not None:
        emitted = sorted({u for _, u in extract_urls(html)})
        w.emitted += len(emitted)
    if replayed:
        return None, None
    opsym = op[0] + (":" + op[-1] if op[0] in ("render", "page") else "")
    obs = ("emitted", op[1] if op[0] == "render" else op[0], tuple(_fam_sym(w, u) for u in emitted))
    for u in emitted:
        problem = fam_check_served(w, u, rendered)
        if problem:
            return obs, _tag(problem, opsym)
    for u in fam_universe(w):
        if u not in emitted:
            problem = fam_check_lapsed(w, u)
            if problem:
                return obs, _tag(problem, opsym)
    _VALIDATED.add(w.trace)
    return obs, None


def fam_canon(w: FamWorld):
    """(class, kind, digest of the cached script) of every media-cache entry of the family (the digest keeps histories
    apart that fill one entry with different code, should two classes ever share a key)"""
    c = media_cache()
    out = []
    for r in w.fam.roles:
        for kind in ("js", "css"):
            key = cache_key(w.cls[r], kind)
            if c.has_key(key):
                out.append((r, kind, zlib.crc32(str(c.get(key)).encode())))
    return tuple(out)


def _related_cached(key):
    """state in which scripts of at least two classes of the family are cached side by side"""
    return len({r for r, _, _ in key}) >= 2


def _fam_bfs_task(arg):
    tier, idx, cache_cfg = arg
    fam = families(tier)[idx]
    _VALIDATED.clear()
    ops = fam_ops(fam)
    r = seq.bfs(lambda: FamWorld(fam, cache_cfg), ops, fam_step, fam_canon, max_states=100000, fail_limit=FAIL_LIMIT)
    _cleanup()
    return {"family": fam.name, "cfg": cache_cfg, "states": r.states, "transitions": r.transitions, "failures": r.failures,
            "fixpoint": r.fixpoint, "max_depth": r.max_depth, "samples": r.sample_histories, "outcomes": sorted(r.outcomes),
            "seen": set(r.seen.keys()), "nontrivial": sum(1 for k in r.seen if _related_cached(k)), "ops": len(ops)}


def _fam_unmerged_task(arg):
    tier, idx, cache_cfg, depth = arg
    fam = families(tier)[idx]
    _VALIDATED.clear()
    n_seq, n_tr, failures, outcomes, canon_states = seq.all_sequences(
        lambda: FamWorld(fam, cache_cfg), fam_ops(fam), fam_step, depth, canon=fam_canon, fail_limit=FAIL_LIMIT
    )
    _cleanup()
    return fam.name, cache_cfg, n_seq, n_tr, failures, canon_states, sorted(outcomes)


# ----------------------------------------------------------------------------- shapes part
CODES = [None, "", "  \n", "run();", "\n  pad();  \n"]


def shape_classes():
    e = env()
    if e.shape_cls is None:
        from django_components import Component

        e.shape_cls = {}
        for i, (js, css) in enumerate(product(range(len(CODES)), repeat=2)):
            attrs = {"__module__": "verif_c19", "template": DOC % f"<i>{i}</i>"}
            if CODES[js] is not None:
                attrs["js"] = CODES[js].replace("run", f"run{i}").replace("pad", f"pad{i}")
            if CODES[css] is not None:
                attrs["css"] = CODES[css].replace("run();", f".r{i} {{}}").replace("pad();", f".p{i} {{}}")
            e.shape_cls[f"S{js}{css}"] = type(f"C19Shape{js}{css}", (Component,), attrs)
    return e.shape_cls


def _shapes_task(_):
    classes = shape_classes()
    _cleanup()
    failures = []
    n = tr = nontriv = 0
    outs = set()
    for key, cls in classes.items():
        for t in ("document", "fragment"):
            for second in (False, True):
                media_cache().clear()
                n += 1
                case = {"part": "shapes", "shape": key, "type": t, "second": second}
                try:
                    if second:
                        cls.render(type="fragment" if t == "document" else "document")
                    html = cls.render(type=t)
                except Exception as ex:  # noqa
                    outs.add(("raised", type(ex).__name__))
                    boot.clear_render_registries()
                    continue
                urls = sorted({u for _, u in extract_urls(html)})
                tr += 1
                outs.add(tuple(URL_RE.match(u).group("kind") if URL_RE.match(u) else u for u in urls))
                if urls:
                    nontriv += 1
                for u in urls:
                    problem = check_served(u, classes)
                    if problem:
                        failures.append((problem, case))
    _cleanup()
    return n, tr, nontriv, failures, len(outs)


# ----------------------------------------------------------------------------- lifecycle + names part
# lifecycle: an older class object with the SAME import path exists (a module executed twice, a class factory called
# twice) - created before the live class, never rendered; it is dropped and collected at some point of the history.
# names: two live classes of one module whose names are related (equal length, differing only in non-ASCII letters,
# in case, in one digit).  Built-in cache; a URL stays servable from the render that announced it until a clear().
NAME_PAIRS = [("Größe", "Grüße"), ("按钮", "表格"), ("Xa", "xa"), ("X1", "X2"), ("Xé", "Xe"), ("Xé", "Xè")]
LIFE_OPS = [("render", "document"), ("render", "fragment"), ("drop_old",), ("clear",)]
_LIFE_N = [0]


def _life_case(seq_):
    import gc

    from django_components import Component

    _LIFE_N[0] += 1
    name = f"C19Life{_LIFE_N[0]}"
    mk = lambda tag: type(name, (Component,), {"__module__": "verif_c19_life", "template": DOC % "<b>l</b>",  # noqa: E731
                                                 "js": f"life_{tag}()", "css": f".life_{tag} {{}}"})
    old = [mk("same")]  # same code: whichever class object the hash maps to, the served code is "that component's"
    new = mk("same")
    classes = {"L": new}
    media_cache().clear()
    servable, tr = set(), 0
    for k, op in enumerate(seq_):
        if op[0] == "render":
            html = new.render(type=op[1])
            urls = sorted({u for _, u in extract_urls(html)})
            servable |= set(urls)
        elif op[0] == "drop_old":
            del old[:]
            gc.collect()
        else:
            media_cache().clear()
            servable = set()
        tr += 1
        for u in sorted(servable):
            problem = check_served(u, classes)
            if problem:
                return tr, bool(servable), (problem.replace(name, "C19Life"), {"part": "lifecycle", "history": [list(o) for o in seq_[:k + 1]]})
    return tr, bool(servable), None


def _names_case(pair, order, t):
    from django_components import Component

    classes = {}
    for nm in pair:
        classes[nm] = type("C19N" + nm, (Component,), {"__module__": "verif_c19_names", "template": DOC % "<b>n</b>",
                                                          "js": f"name_{nm}()", "css": f".name_{nm} {{}}"})
    if len({c._class_hash for c in classes.values()}) != 2:
        return 0, ("same-hash: classes %s and %s of one module get the same class hash %s - their URLs cannot both be served with "
                   "their own code" % (pair[0], pair[1], classes[pair[0]]._class_hash), {"part": "names", "pair": list(pair), "order": order, "type": t})
    media_cache().clear()
    tr, announced = 0, set()
    for nm in (pair if order == 0 else pair[::-1]):
        html = classes[nm].render(type=t)
        announced |= {u for _, u in extract_urls(html)}
        tr += 1
        for u in sorted(announced):
            problem = check_served(u, classes)
            if problem:
                return tr, (problem, {"part": "names", "pair": list(pair), "order": order, "type": t})
    return tr, None


CAPACITY_N = 170  # components with js + css: 340 scripts in ONE render - more than any default cache size (Django's is 300)


def _capacity_case(t):
    """one render announces the scripts of CAPACITY_N components: every announced URL must be served (built-in cache)"""
    from django.utils.safestring import mark_safe

    from django_components import Component
    from django_components.dependencies import render_dependencies

    classes = {}
    for i in range(CAPACITY_N):
        classes[f"G{i}"] = type(f"C19Cap{i}", (Component,), {"__module__": "verif_c19_cap", "template": f"<i>{i}</i>",
                                                          "js": f"cap_{i}()", "css": f".cap_{i} {{}}"})
    media_cache().clear()
    try:
        html = mark_safe("".join(c.render(render_dependencies=False) for c in classes.values()))
        out = render_dependencies(DOC % html if t == "document" else html, t)
    except Exception as e:  # noqa  - e.g. the document render cannot find a script it has just cached
        return 2 * CAPACITY_N, f"one {t} render of {CAPACITY_N} components raised {type(e).__name__}: {str(e)[:200]}"
    urls = sorted({u for _, u in extract_urls(out)})
    bad = [p for p in (check_served(u, classes) for u in urls) if p]
    return len(urls), (f"{len(bad)} of the {len(urls)} URLs announced by one {t} render of {CAPACITY_N} components are not served; first: {bad[0]}" if bad else None)


def _life_task(_):
    env()
    _cleanup()
    boot.set_components_setting(cache=None)
    failures, n, tr, nontriv = [], 0, 0, 0
    for t in ("fragment", "document"):
        n += 1
        nontriv += 1
        nurls, bad = _capacity_case(t)
        tr += nurls
        if nurls < 2 * CAPACITY_N:
            raise par.HarnessError(f"capacity case ({t}) announced only {nurls} URLs")
        if bad:
            failures.append((f"capacity/{t}|dead-url", bad, {"part": "capacity", "type": t}))
    _cleanup()
    boot.set_components_setting(cache=None)
    for L in (1, 2, 3, 4):
        for seq_ in product(LIFE_OPS, repeat=L):
            if sum(1 for o in seq_ if o[0] == "drop_old") > 1 or not any(o[0] == "render" for o in seq_):
                continue
            n += 1
            t, nt, bad = _life_case(seq_)
            tr += t
            nontriv += 1 if (nt and ("drop_old",) in seq_) else 0
            if bad:
                failures.append(("lifecycle|" + bad[0].split(": ")[0], bad[0], bad[1]))
    for pair in NAME_PAIRS:
        for order in (0, 1):
            for t in ("document", "fragment"):
                n += 1
                nontriv += 1
                k, bad = _names_case(pair, order, t)
                tr += k
                if bad:
                    failures.append((f"names/{pair[0]}~{pair[1]}|" + bad[0].split(": ")[0], bad[0], bad[1]))
    _cleanup()
    return n, tr, nontriv, failures


# ----------------------------------------------------------------------------- requests part
METHODS = ["GET", "HEAD", "POST", "PUT", "PATCH", "DELETE", "OPTIONS"]


def request_space():
    """Symbolic request alphabet -> concrete values."""
    e = env()
    vj, vc = e.vars_hash["js"], e.vars_hash["css"]
    hashes = {
        "A": e.cls["A"]._class_hash, "B": e.cls["B"]._class_hash, "C": e.cls["C"]._class_hash, "V": e.cls["V"]._class_hash,
        "unknown": "Nope_abc123", "A+x": e.cls["A"]._class_hash + "x", "A.lower": e.cls["A"]._class_hash.lower(),
        "dotdot": "..%2Fx", "slash": "../x", "nonascii": "café_éé",
    }
    kinds = {
        "js": "js", "css": "css", "JS": "JS", "txt": "txt", "js:Vjs": "js:" + vj, "css:Vcss": "css:" + vc, "js:zz": "js:zz",
        "js+space": "js%20", "long": "j" * 300, "js/": "js/",
    }
    inputs = {"absent": None, "Vjs": vj, "Vcss": vc, "junk": "zz", "js": "js"}
    return hashes, kinds, inputs


_ANNOUNCED: set = set()  # URLs announced by the renders of _populate() (requests part)


def classify(hk, kk, ik, populated):
    """Reference answer for GET: ('code', class, kind, vars?) | 'notfound' | 'open' (statement silent)."""
    e = env()
    if hk not in ("A", "B", "C", "V") or kk not in ("js", "css"):
        return "notfound"
    code = getattr(e.cls[hk], kk, None)
    has = isinstance(code, str) and bool(code.strip())
    if ik == "absent":
        if not has:
            return "open"
        return ("code", hk, kk, False)
    if hk == "V" and ((kk == "js" and ik == "Vjs") or (kk == "css" and ik == "Vcss")):
        # a variables file counts as servable only when a render really announced this URL
        url = f"/components/cache/{e.cls['V']._class_hash}.{e.vars_hash[kk]}.{kk}"
        return ("code", hk, kk, True) if (url in _ANNOUNCED or not populated) else "open"
    return "open"  # known class and kind, input hash nobody announced


def _populate():
    """Render every class once so that its scripts are in the media cache (a failing render is not judged here)."""
    e = env()
    _ANNOUNCED.clear()
    for k in "ABCV":
        for t in ("fragment", "document"):
            try:
                _ANNOUNCED.update(u for _, u in extract_urls(e.cls[k].render(type=t)))
            except Exception:  # noqa
                boot.clear_render_registries()


def do_request(method, hv, kv, iv):
    e = env()
    path = "/components/cache/" + hv + ("." + iv if iv is not None else "") + "." + kv
    r = e.client.generic(method, path)
    return path, r.status_code, r.content.decode("utf-8", "replace"), r.get("Content-Type", "")


def judge_request(method, hk, kk, ik, populated, status, body, ctype):
    e = env()
    ident = f"request|{method}|hash={hk}|kind={kk}|input={ik}|{'populated' if populated else 'empty'}"
    if status >= 500:
        return ident + "|5xx", f"answered {status} (server error)"
    cl = classify(hk, kk, ik, populated)
    own = None
    if isinstance(cl, tuple):
        code = getattr(e.cls[cl[1]], cl[2])
        own = None if cl[3] else (code, code.strip())
    if status == 200:
        # whatever the request: a 200 must carry the addressed component's own code
        if not isinstance(cl, tuple):
            if cl == "open" and body == "":
                return None
            return ident + "|foreign", f"answered 200 with body {body[:50]!r} for a request that addresses no code"
        if own is not None and body not in own:
            return ident + "|foreign", f"answered 200 with {body[:50]!r}, expected {own[1][:50]!r}"
        if not ctype.startswith(CTYPE[cl[2]]):
            return ident + "|type", f"content type {ctype!r}, expected {CTYPE[cl[2]]}"
        if method != "GET":
            return ident + "|method", f"{method} answered 200, expected 405"
        return None
    if method != "GET":
        if isinstance(cl, tuple) and populated:
            return None if status == 405 else (ident + "|method", f"{method} on a servable URL answered {status}, expected 405")
        return None if status in (404, 405) else (ident + "|status", f"{method} answered {status}, expected 404 or 405")
    # GET, not 200
    if isinstance(cl, tuple) and populated:
        return ident + "|dead", f"GET of a cached script answered {status}, expected 200"
    if status != 404:
        return ident + "|status", f"GET answered {status}, expected 404"
    return None


def _requests_task(_):
    env()
    _cleanup()
    hashes, kinds, inputs = request_space()
    failures = []
    n = nontriv = 0
    outs = set()
    exp = {}
    for populated in (False, True):
        media_cache().clear()
        if populated:
            _populate()
        for hk, kk, ik, method in product(hashes, kinds, inputs, METHODS):
            path, status, body, ctype = do_request(method, hashes[hk], kinds[kk], inputs[ik])
            n += 1
            outs.add((status, ctype.split(";")[0]))
            cl = classify(hk, kk, ik, populated)
            exp[cl if isinstance(cl, str) else "code"] = exp.get(cl if isinstance(cl, str) else "code", 0) + 1
            if isinstance(cl, tuple) and populated:
                nontriv += 1
            res = judge_request(method, hk, kk, ik, populated, status, body, ctype)
            if res:
                failures.append((res[0], f"{method} {path}: {res[1]}",
                                 {"part": "requests", "method": method, "hash": hk, "kind": kk, "input": ik, "populated": populated}))
    _cleanup()
    return n, nontriv, failures, len(outs), exp


# ----------------------------------------------------------------------------- driver
def _dispatch(task):
    kind, arg = task
    return {"bfs": _hist_bfs_task, "unmerged": _hist_unmerged_task, "shapes": _shapes_task, "requests": _requests_task, "life": _life_task,
            "fam_bfs": _fam_bfs_task, "fam_unmerged": _fam_unmerged_task}[kind](arg)


def _hist_identity(cfg, problem):
    return f"hist/{cfg}|{problem.split(': ')[0]}"


def _fam_report(fnd, fam_name, cfg, problem, hist):
    fnd.report(f"family/{cfg}/{fam_name}|{problem.split(': ')[0]}", f"[{cfg} cache, classes {fam_name}] after {hist}: {problem}",
               {"part": "family", "family": fam_name, "cache": cfg, "history": hist})


def run(ctx):
    ev, fnd = ctx.ev, ctx.fnd
    thorough = ctx.tier == "thorough"
    ev.rule = (
        "SEQ over render / pre-render / slot-insert / clear / evict / recreate histories on the real library (state = media-cache "
        "keys + cache object present + kept html); every URL announced by an output is fetched through django.test.Client; "
        "the same over families of classes related by subclassing (parent/child, three-level chain, siblings x inherit/"
        "override/blank js and css), every announced URL judged against the class that was rendered; "
        "non-trivial = states with at least one script in the media cache (hist), states with scripts of two related classes "
        "cached (family), renders that announce a URL (shapes), requests that address cached code (requests)"
    )
    depth = 4 if thorough else 3
    nops = len(hist_ops())
    # one pool for everything; the long BFS tasks go first
    tasks = [("bfs", cfg) for cfg in CACHE_CFGS] + [("requests", 0), ("shapes", 0), ("life", 0)]
    tasks += [("unmerged", (CACHE_CFGS[0], depth, first)) for first in range(nops)]
    if thorough:  # the configured cache one level shallower (21^4 sequences x 2 would not fit the time budget)
        tasks += [("unmerged", (CACHE_CFGS[1], depth - 1, first)) for first in range(nops)]
    # families of related classes: one small world per family (three-class families first, they are the larger ones)
    fams = families(ctx.tier)
    fam_order = sorted(range(len(fams)), key=lambda i: -len(fams[i].roles))
    fam_depth = {2: depth - 1, 3: 2}  # classes in the family -> depth of the unmerged cross-check (11 / 13 ops)
    tasks += [("fam_bfs", (ctx.tier, i, cfg)) for i in fam_order for cfg in CACHE_CFGS]
    tasks += [("fam_unmerged", (ctx.tier, i, CACHE_CFGS[0], fam_depth[len(fams[i].roles)])) for i in fam_order]
    out = par.run_tasks(_dispatch, tasks)
    # --- history BFS
    seen_by = {}
    for (kind, _), res in zip(tasks, out):
        if kind != "bfs":
            continue
        cfg = res["cfg"]
        seen_by[cfg] = res["seen"]
        raised = sum(1 for o in res["outcomes"] if o.startswith("('raised'"))
        ev.add_part(
            f"hist_bfs:{cfg}", states=res["states"], transitions=res["transitions"], validated=res["transitions"],
            nontrivial=res["nontrivial"], observed_distinct=len(res["outcomes"]),
            expected={"render_raised_outcomes": raised},
            bound={"fixpoint": res["fixpoint"], "max_depth_reached": res["max_depth"], "ops": nops},
            samples=[{"cache": cfg, "history": h} for h in res["samples"][:2]],
        )
        if not res["fixpoint"] and not res["failures"]:
            ev.caps_hit.append(f"history bfs ({cfg}) did not reach a fixpoint")
        for problem, hist in res["failures"]:
            fnd.report(_hist_identity(cfg, problem), f"[{cfg} cache] after {hist}: {problem}", {"part": "hist", "cache": cfg, "history": hist})
    # --- unmerged cross-check
    agg = {}
    for (kind, _), res in zip(tasks, out):
        if kind != "unmerged":
            continue
        cfg, n_seq, n_tr, failures, canon_states, outcomes = res
        d = agg.setdefault(cfg, {"seq": 0, "tr": 0, "canon": set(), "out": set()})
        d["seq"] += n_seq
        d["tr"] += n_tr
        d["canon"] |= canon_states
        d["out"] |= set(outcomes)
        for problem, hist in failures:
            fnd.report(_hist_identity(cfg, problem), f"[{cfg} cache] after {hist}: {problem}", {"part": "hist", "cache": cfg, "history": hist})
    for cfg, d in agg.items():
        extra = d["canon"] - seen_by[cfg]
        if extra and not fnd.violations and not fnd.known_hits:
            raise par.HarnessError(f"canonicalisation unsound ({cfg}): unmerged search reached {len(extra)} states the BFS did not")
        ev.add_part(f"hist_unmerged:{cfg}", states=d["seq"], transitions=d["tr"], validated=d["tr"],
                    nontrivial=sum(1 for k in d["canon"] if k[0] or k[1]), observed_distinct=len(d["out"]),
                    bound={"depth": depth if cfg == CACHE_CFGS[0] else depth - 1})
    # --- families of related classes
    fam_seen = {}
    fagg = {cfg: {"states": 0, "tr": 0, "nontriv": 0, "out": set(), "raised": set(), "depth": 0, "open": [], "samples": []}
            for cfg in CACHE_CFGS}
    for (kind, _), res in zip(tasks, out):
        if kind != "fam_bfs":
            continue
        cfg, name = res["cfg"], res["family"]
        fam_seen[(name, cfg)] = res["seen"]
        d = fagg[cfg]
        d["states"] += res["states"]
        d["tr"] += res["transitions"]
        d["nontriv"] += res["nontrivial"]
        d["out"] |= set(res["outcomes"])
        d["raised"] |= {o for o in res["outcomes"] if o.startswith("('raised'")}
        d["depth"] = max(d["depth"], res["max_depth"])
        if len(d["samples"]) < 2 and res["samples"]:
            d["samples"].append({"cache": cfg, "family": name, "history": res["samples"][0]})
        if not res["fixpoint"] and not res["failures"]:
            d["open"].append(name)
        for problem, hist in res["failures"]:
            _fam_report(fnd, name, cfg, problem, hist)
    for cfg, d in fagg.items():
        ev.add_part(
            f"family_bfs:{cfg}", states=d["states"], transitions=d["tr"], validated=d["tr"], nontrivial=d["nontriv"],
            observed_distinct=len(d["out"]), expected={"render_raised_outcomes": len(d["raised"])},
            bound={"fixpoint": not d["open"], "max_depth_reached": d["depth"], "families": len(fams),
                   "pairs": sum(1 for f in fams if f.kind == "pair"), "chains": sum(1 for f in fams if f.kind == "chain"),
                   "siblings": sum(1 for f in fams if f.kind == "sibs")},
            samples=d["samples"],
        )
        if d["open"]:
            ev.caps_hit.append(f"family bfs ({cfg}) did not reach a fixpoint for {d['open'][:3]}")
    fun = {"seq": 0, "tr": 0, "nontriv": 0, "out": set()}
    for (kind, _), res in zip(tasks, out):
        if kind != "fam_unmerged":
            continue
        name, cfg, n_seq, n_tr, failures, canon_states, outcomes = res
        fun["seq"] += n_seq
        fun["tr"] += n_tr
        fun["nontriv"] += sum(1 for k in canon_states if _related_cached(k))
        fun["out"] |= set(outcomes)
        for problem, hist in failures:
            _fam_report(fnd, name, cfg, problem, hist)
        extra = canon_states - fam_seen[(name, cfg)]
        if extra and not fnd.violations and not fnd.known_hits:
            raise par.HarnessError(f"canonicalisation unsound ({name}, {cfg}): unmerged search reached {len(extra)} states the BFS did not")
    ev.add_part(f"family_unmerged:{CACHE_CFGS[0]}", states=fun["seq"], transitions=fun["tr"], validated=fun["tr"],
                nontrivial=fun["nontriv"], observed_distinct=len(fun["out"]), bound={"depth_by_family_size": fam_depth})
    # --- shapes and requests
    for (kind, _), res in zip(tasks, out):
        if kind == "shapes":
            n, tr, nontriv, failures, nouts = res
            ev.add_part("shapes", states=n, transitions=tr, validated=tr, nontrivial=nontriv, observed_distinct=nouts,
                        bound={"codes": len(CODES), "classes": len(CODES) ** 2})
            for problem, case in failures:
                fnd.report(f"shapes/{case['shape']}/{case['type']}|{problem.split(': ')[0]}", f"{case}: {problem}", case)
        elif kind == "life":
            n, tr, nontriv, failures = res
            ev.add_part("lifecycle_and_names", states=n, transitions=tr, validated=tr, nontrivial=nontriv,
                        bound={"lifecycle_ops": [" ".join(o) for o in LIFE_OPS], "max_len": 4, "name_pairs": [list(p) for p in NAME_PAIRS],
                               "orders": 2, "types": 2})
            for ident, what, case in failures:
                fnd.report(ident, what, case)
        elif kind == "requests":
            n, nontriv, failures, nouts, exp = res
            ev.add_part("requests", states=n, transitions=n, validated=n, nontrivial=nontriv, observed_distinct=nouts, expected=exp)
            for ident, what, case in failures:
                fnd.report(ident, what, case)
    _cleanup()
    ev.assumptions = [
        "single-threaded; locmem media cache (built-in and Django-configured); classes stay alive and have unique import paths",
        "evictions happen between operations, never inside one render",
        "related classes: single inheritance, inline js / css only, at most three classes per family",
    ]


def replay(ctx, case):
    part = case.get("part")
    if part == "hist":
        _VALIDATED.clear()
        w = World(case["cache"])
        ok = True
        for op in case["history"]:
            obs, problem = hist_step(w, tuple(op))
            print(op, obs, problem)
            if problem:
                ok = False
                break
        _cleanup()
        return ok
    if part == "family":
        _VALIDATED.clear()
        w = FamWorld(family_by_name(case["family"]), case["cache"])
        ok = True
        for op in case["history"]:
            obs, problem = fam_step(w, tuple(op))
            print(op, obs, problem)
            if problem:
                ok = False
                break
        _cleanup()
        return ok
    if part == "capacity":
        env()
        _cleanup()
        boot.set_components_setting(cache=None)
        nurls, bad = _capacity_case(case["type"])
        print(nurls, "URLs announced ->", bad or "all served")
        _cleanup()
        return bad is None
    if part in ("lifecycle", "names"):
        env()
        _cleanup()
        boot.set_components_setting(cache=None)
        if part == "lifecycle":
            _, _, bad = _life_case([tuple(o) for o in case["history"]])
        else:
            _, bad = _names_case(tuple(case["pair"]), case["order"], case["type"])
        print(case, "->", bad[0] if bad else "ok")
        _cleanup()
        return bad is None
    if part == "shapes":
        n, tr, nontriv, failures, nouts = _shapes_task(0)
        hit = [f for f in failures if f[1]["shape"] == case["shape"] and f[1]["type"] == case["type"]]
        for f in hit:
            print(f)
        return not hit
    if part == "requests":
        env()
        _cleanup()
        hashes, kinds, inputs = request_space()
        media_cache().clear()
        if case["populated"]:
            _populate()
        path, status, body, ctype = do_request(case["method"], hashes[case["hash"]], kinds[case["kind"]], inputs[case["input"]])
        res = judge_request(case["method"], case["hash"], case["kind"], case["input"], case["populated"], status, body, ctype)
        print(case["method"], path, status, ctype, repr(body[:80]), res)
        _cleanup()
        return res is None
    raise ValueError(part)
