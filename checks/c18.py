"""C18 - template caching is transparent and behaves as a bounded LRU (SEQ engine).

Part A  LRUCache: BFS to fixpoint over get/has/set/clear for maxsize in {None,0,1,2,3}
        against an OrderedDict model + structural invariant, plus all unmerged sequences
        up to a depth as a cross-check of the canonicalisation.
Part B  cached_template(): BFS over compile requests (4 sources, custom Template class,
        engine argument) for template_cache_size in {0,1,2,128}.
Part C  component renders: all sequences of renders over 4 components (two with the same
        template source) under each cache size; outputs equal the solo outputs.
"""
from __future__ import annotations

from collections import OrderedDict

from mc import boot, par, seq

PID = "C18"
LEVEL = "model_checking"
DJANGO = {}

KEYS = ["k0", "k1", "k2", "k3"]


class _V:
    def __init__(self, n):
        self.n = n

    def __repr__(self):
        return f"v{self.n}"


VALS = [_V(0), _V(1)]
SIZES = [None, 0, 1, 2, 3]


def lru_ops():
    ops = []
    for k in KEYS:
        ops.append(("get", k))
    for k in KEYS:
        ops.append(("has", k))
    for k in KEYS:
        for vi in range(len(VALS)):
            ops.append(("set", k, vi))
    ops.append(("clear",))
    return ops


class LruWorld:
    def __init__(self, maxsize):
        from django_components.util.cache import LRUCache

        self.maxsize = maxsize
        self.impl = LRUCache(maxsize=maxsize)
        self.model = OrderedDict()  # first = most recently used


def walk(impl, limit=64):
    """forward (head->tail) and backward (tail->head) key lists; None on a broken chain."""
    fwd, n = [], impl.head.next
    steps = 0
    while n is not None and n is not impl.tail:
        fwd.append(n.key)
        n = n.next
        steps += 1
        if steps > limit:
            return None, None
    if n is None:
        return None, None
    bwd, n = [], impl.tail.prev
    steps = 0
    while n is not None and n is not impl.head:
        bwd.append(n.key)
        n = n.prev
        steps += 1
        if steps > limit:
            return None, None
    if n is None:
        return None, None
    return fwd, bwd


def lru_invariant(w):
    impl = w.impl
    fwd, bwd = walk(impl)
    if fwd is None:
        return "linked list broken (None link or cycle)"
    if fwd != list(reversed(bwd)):
        return f"forward list {fwd} != reversed backward list {list(reversed(bwd))}"
    if sorted(fwd) != sorted(impl.cache.keys()) or len(fwd) != len(impl.cache):
        return f"list keys {fwd} != dict keys {sorted(impl.cache.keys())}"
    for k, node in impl.cache.items():
        if node.key != k:
            return f"dict key {k} maps to node with key {node.key}"
    if w.maxsize is not None and len(impl.cache) > max(w.maxsize, 0):
        return f"{len(impl.cache)} entries exceed maxsize {w.maxsize}"
    if fwd != list(w.model.keys()):
        return f"recency order {fwd} != model order {list(w.model.keys())}"
    for k in fwd:
        if impl.cache[k].value is not w.model[k]:
            return f"value for {k} is {impl.cache[k].value!r}, model has {w.model[k]!r}"
    return None


def lru_step(w, op):
    impl, model = w.impl, w.model
    kind = op[0]
    try:
        if kind == "get":
            got = impl.get(op[1])
            exp = model.get(op[1])
            if op[1] in model:
                model.move_to_end(op[1], last=False)
            if got is not exp:
                return ("get", repr(got)), f"get({op[1]}) returned {got!r}, model says {exp!r}"
            obs = ("get", repr(got))
        elif kind == "has":
            got = impl.has(op[1])
            exp = op[1] in model
            if got is not exp:
                return ("has", got), f"has({op[1]}) returned {got!r}, model says {exp!r}"
            obs = ("has", got)
        elif kind == "set":
            v = VALS[op[2]]
            r = impl.set(op[1], v)
            ms = w.maxsize
            if ms is not None and ms <= 0:
                pass
            elif op[1] in model:
                model[op[1]] = v
                model.move_to_end(op[1], last=False)
            else:
                if ms is not None and len(model) >= ms:
                    model.popitem(last=True)
                model[op[1]] = v
                model.move_to_end(op[1], last=False)
            obs = ("set", repr(r))
        elif kind == "clear":
            impl.clear()
            model.clear()
            obs = ("clear",)
        else:
            raise AssertionError(kind)
    except Exception as e:  # the implementation never raises on these operations
        return ("exc", type(e).__name__), f"{op} raised {type(e).__name__}: {e}"
    return obs, lru_invariant(w)


def lru_canon(w):
    fwd, bwd = walk(w.impl)
    return (
        tuple(fwd),
        tuple(bwd),
        tuple(sorted(w.impl.cache.keys())),
        tuple(w.impl.cache[k].value.n for k in fwd),
    )


def _lru_bfs_task(size):
    ops = lru_ops()
    r = seq.bfs(lambda: LruWorld(size), ops, lru_step, lru_canon)
    return size, r.states, r.transitions, r.failures, r.fixpoint, r.max_depth, r.sample_histories, len(r.outcomes), set(r.seen.keys())


def _lru_unmerged_task(arg):
    size, depth, first = arg
    ops = lru_ops()
    n_seq, n_tr, failures, outcomes, canon_states = seq.all_sequences(
        lambda: LruWorld(size), ops, lru_step, depth, first_ops=[first], canon=lru_canon
    )
    return size, n_seq, n_tr, failures, canon_states


# ------------------------------------------------------------------ part B
# sources 4 and 5 differ from source 0 only in leading / trailing whitespace: a cache key must tell them apart
SOURCES = ["A{{ v }}", "B{{ v }}", "C{% if v %}y{% endif %}", "D", " A{{ v }}", "A{{ v }}\n", '{% include "./c18part.html" %}']
REL = len(SOURCES) - 1  # a source whose meaning depends on the origin it is compiled with (relative include)
ORIGINS = {None: (None, None), "oa": ("c18oa/main.html", "c18oa/main.html"), "ob": ("c18ob/main.html", "c18ob/main.html"), "oa2": ("c18oa/main.html", "c18oa/other.html")}


def ct_ops():
    ops = [("ct", i, "T", None) for i in range(len(SOURCES)) if i != REL]
    # the same source compiled for different origins / names (components with the same template text in different
    # directories): the origin is baked into the compiled Template, so each (origin, name) is its own request
    # (only for the source whose OUTPUT depends on the origin: whether sources that render the same for every origin may
    # share an entry is the implementation's business)
    ops += [("ct", REL, "T", None, "oa"), ("ct", REL, "T", None, "ob")]
    ops.append(("ct", 0, "MyT", None))
    ops.append(("ct", 0, "T", "E"))
    ops.append(("ct", 1, "MyT", "E"))
    ops.append(("clear",))
    return ops


_MYT = None
_ENGINE = None


def _ct_env():
    global _MYT, _ENGINE
    if _MYT is None:
        from django.template import Template
        from django.template.engine import Engine

        class MyT(Template):
            pass

        _MYT = MyT
        _ENGINE = Engine.get_default()
    return _MYT, _ENGINE


class CtWorld:
    def __init__(self, size):
        boot.set_components_setting(template_cache_size=size)
        boot.drop_template_cache()
        self.size = size
        self.model = OrderedDict()  # key -> Template, first = MRU


def ct_step(w, op):
    from django.template import Context, Template

    from django_components.cache import get_template_cache
    from django_components.template import cached_template
    from django_components.util.misc import get_import_path

    MyT, engine = _ct_env()
    if op[0] == "clear":
        get_template_cache().clear()
        w.model.clear()
        return ("clear",), ct_invariant(w)
    _, si, clsname, eng = op[:4]
    oname = op[4] if len(op) > 4 else None
    o_name, t_name = ORIGINS[oname]
    from django.template import Origin

    mk_origin = lambda: Origin(name=o_name, template_name=t_name) if o_name else None  # noqa: E731
    boot.LOCMEM_TEMPLATES.setdefault("c18oa/c18part.html", "PA")
    boot.LOCMEM_TEMPLATES.setdefault("c18ob/c18part.html", "PB")
    cls = Template if clsname == "T" else MyT
    e = engine if eng else None
    src = SOURCES[si]
    try:
        t = cached_template(src, template_cls=None if clsname == "T" else cls, engine=e, origin=mk_origin(), name=t_name)
    except Exception as ex:
        return ("exc",), f"cached_template raised {type(ex).__name__}: {ex}"
    key = (get_import_path(cls), src, get_import_path(type(e)) if e else None, t_name, (o_name, t_name) if o_name else None)
    hit = key in w.model
    if hit:
        if t is not w.model[key]:
            return ("miss",), f"key {key} is cached per the LRU model but a different Template object was returned"
        w.model.move_to_end(key, last=False)
    else:
        for k2, t2 in w.model.items():
            if t2 is t:
                return ("alias",), f"request {key} returned the Template cached for {k2}"
        if w.size > 0:
            if len(w.model) >= w.size:
                w.model.popitem(last=True)
            w.model[key] = t
            w.model.move_to_end(key, last=False)
    if type(t) is not cls:
        return ("cls",), f"returned {type(t).__name__}, requested {cls.__name__}"
    if t.source != src:
        return ("src",), f"returned template has source {t.source!r}, requested {src!r}"
    out = t.render(Context({"v": "1"}))
    fresh = cls(src, engine=e, origin=mk_origin(), name=t_name).render(Context({"v": "1"}))
    if out != fresh:
        return ("out",), f"cached render {out!r} != fresh compile {fresh!r}"
    return ("hit" if hit else "new", out), ct_invariant(w)


def ct_invariant(w):
    from django_components.cache import get_template_cache

    c = get_template_cache()
    if c.maxsize != w.size:
        return f"cache maxsize {c.maxsize} != configured {w.size}"
    fwd, bwd = walk(c)
    if fwd is None:
        return "template cache list broken"
    if len(c.cache) > w.size:
        return f"template cache holds {len(c.cache)} entries, configured size {w.size}"
    # the implementation's key format is its own business: the recency order is compared through the cached objects
    have = [id(c.cache[k].value) for k in fwd]
    want = [id(t) for t in w.model.values()]
    if have != want:
        pos = {id(t): k for k, t in w.model.items()}
        return f"template cache order (most recent first) {[pos.get(i, '<object not in the model>') for i in have]} != LRU model {list(w.model.keys())}"
    return None


def ct_canon(w):
    from django_components.cache import get_template_cache

    # canonical state = the recency order of the REQUESTS per the model (ct_invariant ties the implementation's list to
    # it after every step), so that states are not merged by an implementation key that forgets a field
    fwd, _ = walk(get_template_cache())
    return (tuple(w.model.keys()), len(fwd or ()))


# ------------------------------------------------------------------ part C
COMP_SPECS = [
    ("c18a", "<p>{{ x }}</p>", "1"),
    ("c18b", "<p>{{ x }}</p>", "2"),  # same source as c18a, different component
    ("c18c", "<i>{{ x }}</i>{% component 'c18a' / %}", "3"),
    ("c18d", "<b>{{ x }}</b>", "4"),
    ("c18e", "<p>{{ x }}</p>\n", "5"),  # c18a's source plus a trailing newline
    # the same template text with a RELATIVE include in two components whose template names lie in different directories
    # (the name a component is registered under is its template's name): each must include its own neighbour
    ("c18oa/main", '{% include "./c18part.html" %}', "6"),
    ("c18ob/main", '{% include "./c18part.html" %}', "7"),
]
TAG_ONLY = ("c18oa/main", "c18ob/main")  # Python-side Cls.render() names the template after the class, not the registration


def _make_components():
    from django_components import Component
    from django_components.component_registry import registry

    classes = {}
    for name, tpl, val in COMP_SPECS:
        def gcd(self, _v=val):
            return {"x": _v}

        cls = type("C18_" + name.replace("/", "_"), (Component,), {"template": tpl, "get_context_data": gcd, "__module__": "verif_c18"})
        if name in registry.all():
            registry.unregister(name)
        registry.register(name, cls)
        classes[name] = cls
    return classes


def _strip(html: str) -> str:
    import re

    html = re.sub(r"<!-- _RENDERED [^>]*-->", "", html)
    return re.sub(r' data-djc-id-\w+(="")?', "", html)


def _component_task(size):
    from django.template import Context, Template

    classes = _make_components()
    names = [n for n, _, _ in COMP_SPECS]
    # solo outputs with a fresh, large cache
    solo = {}
    for n in names:
        boot.set_components_setting(template_cache_size=128)
        boot.drop_template_cache()
        boot.LOCMEM_TEMPLATES.setdefault("c18oa/c18part.html", "PA")
        boot.LOCMEM_TEMPLATES.setdefault("c18ob/c18part.html", "PB")
        solo[n] = _strip(Template("{% component '" + n + "' / %}").render(Context({})) if n in TAG_ONLY else classes[n].render(render_dependencies=False))
    failures = []
    nseq = ntr = 0
    outs = set()
    from itertools import product

    from django_components.cache import get_template_cache

    for depth in range(1, 5):
        for s in product(range(len(names)), repeat=depth):
            boot.set_components_setting(template_cache_size=size)
            boot.drop_template_cache()
            nseq += 1
            for j, i in enumerate(s):
                n = names[i]
                if j % 2 == 0 and n not in TAG_ONLY:
                    out = _strip(classes[n].render(render_dependencies=False))
                else:
                    out = _strip(Template("{% component '" + n + "' / %}").render(Context({})))
                ntr += 1
                outs.add(out)
                c = get_template_cache()
                if out != solo[n]:
                    failures.append((f"render #{j} of {n} under cache size {size} gave {out!r}, solo render gives {solo[n]!r}",
                                     {"size": size, "sequence": [names[k] for k in s]}))
                    break
                if len(c.cache) > size:
                    failures.append((f"template cache holds {len(c.cache)} > {size} entries",
                                     {"size": size, "sequence": [names[k] for k in s]}))
                    break
            if len(failures) > 5:
                break
    boot.clear_render_registries()
    return size, nseq, ntr, failures, len(outs)


# ------------------------------------------------------------------ part D: the registry changes between renders of a cached template
def _rereg_task(size):
    """A compiled (cached) Template must stay a pure function of its source: what a `{% component "n" %}` tag renders is looked up
    when it renders.  History ops: R = render component c18host (its cached template nests `c18v`), T = render
    cached_template('{% component "c18v" / %}'), S = re-register the name `c18v` with the other of two classes.  Every sequence of
    <= 5 ops; oracle = the output of a template compiled afresh at that moment (model: the version currently registered)."""
    from itertools import product

    from django.template import Context, Template

    from django_components import Component
    from django_components.component_registry import registry
    from django_components.template import cached_template

    V = [type("C18V%d" % i, (Component,), {"template": "<b>v%d</b>" % i, "__module__": "verif_c18d"}) for i in (1, 2)]
    host = type("C18Host", (Component,), {"template": "<i>{% component 'c18v' / %}</i>", "__module__": "verif_c18d"})
    for n in ("c18v", "c18host"):
        if n in registry.all():
            registry.unregister(n)
    registry.register("c18host", host)
    failures, nseq, ntr = [], 0, 0
    for depth in range(1, 6):
        for seq_ in product("RTS", repeat=depth):
            if "S" not in seq_ or seq_[-1] == "S":
                continue
            boot.set_components_setting(template_cache_size=size)
            boot.drop_template_cache()
            if "c18v" in registry.all():
                registry.unregister("c18v")
            cur = 0
            registry.register("c18v", V[cur])
            nseq += 1
            for j, op in enumerate(seq_):
                ntr += 1
                if op == "S":
                    registry.unregister("c18v")
                    cur = 1 - cur
                    registry.register("c18v", V[cur])
                    continue
                try:
                    if op == "R":
                        out = _strip(host.render(render_dependencies=False))
                        want = "<i><b>v%d</b></i>" % (cur + 1)
                    else:
                        out = _strip(cached_template("{% component 'c18v' / %}").render(Context({})))
                        want = "<b>v%d</b>" % (cur + 1)
                except Exception as e:  # noqa
                    out = "%s: %s" % (type(e).__name__, str(e)[:120])
                if out != want:
                    failures.append((f"op #{j} ({op}) of the history {''.join(seq_)} under cache size {size} gave {out!r}; a template compiled afresh gives {want!r}",
                                     {"size": size, "history": "".join(seq_), "part": "rereg"}))
                    break
            if len(failures) > 5:
                break
    boot.clear_render_registries()
    for n in ("c18v", "c18host"):
        if n in registry.all():
            registry.unregister(n)
    return size, nseq, ntr, failures


def run(ctx):
    ev, fnd = ctx.ev, ctx.fnd
    thorough = ctx.tier == "thorough"
    ev.rule = (
        "SEQ: a state is an operation history replayed on a fresh real object and merged by canonical observation; "
        "non-trivial = canonical states with at least one cached entry (A,B) / sequences that overflow the cache (C)"
    )
    # ---- part A: BFS
    results = par.run_tasks(_lru_bfs_task, SIZES)
    bfs_states = {}
    for size, states, trans, failures, fix, maxd, samples, nout, seen in results:
        bfs_states[size] = seen
        nontriv = sum(1 for k in seen if k[0])
        ev.add_part(
            f"lru_bfs_maxsize_{size}", states=states, transitions=trans, validated=trans, nontrivial=nontriv,
            observed_distinct=nout, bound={"fixpoint": fix, "max_depth_reached": maxd, "keys": len(KEYS), "values": len(VALS)},
            samples=[{"maxsize": size, "history": h} for h in samples[:1]],
        )
        if not fix:
            ev.caps_hit.append(f"lru bfs size {size} did not reach a fixpoint")
        for problem, hist in failures:
            fnd.report(f"lru:{size}:{problem.split(' ')[0]}:{len(hist)}", f"LRUCache(maxsize={size}) after {hist}: {problem}",
                       {"part": "lru", "maxsize": size, "history": hist})
    # ---- part A: unmerged cross-check
    depth = 5 if thorough else 4
    nops = len(lru_ops())
    tasks = [(size, depth, first) for size in SIZES for first in range(nops)]
    um = par.run_tasks(_lru_unmerged_task, tasks)
    per_size = {}
    for size, n_seq, n_tr, failures, canon_states in um:
        d = per_size.setdefault(size, {"seq": 0, "tr": 0, "canon": set()})
        d["seq"] += n_seq
        d["tr"] += n_tr
        d["canon"] |= canon_states
        for problem, hist in failures:
            fnd.report(f"lru:{size}:{problem.split(' ')[0]}:{len(hist)}", f"LRUCache(maxsize={size}) after {hist}: {problem}",
                       {"part": "lru", "maxsize": size, "history": hist})
    for size, d in per_size.items():
        # merged and unmerged exploration must agree on reachable canonical states (up to depth)
        extra = d["canon"] - bfs_states[size]
        if extra and not fnd.violations:
            raise par.HarnessError(f"canonicalisation unsound for maxsize {size}: unmerged search reached {len(extra)} states BFS did not")
        ev.add_part(f"lru_unmerged_maxsize_{size}", states=d["seq"], transitions=d["tr"], validated=d["tr"],
                    nontrivial=len([c for c in d["canon"] if c[0]]), bound={"depth": depth})
    # ---- part B
    for size in [0, 1, 2, 128]:
        r = seq.bfs(lambda: CtWorld(size), ct_ops(), ct_step, ct_canon, max_depth=None if size < 128 else (6 if thorough else 5))
        if size < 128 and not r.fixpoint:
            ev.caps_hit.append(f"cached_template bfs size {size} did not reach a fixpoint")
        ev.add_part(
            f"cached_template_size_{size}", states=r.states, transitions=r.transitions, validated=r.transitions,
            nontrivial=sum(1 for k in r.seen if k), observed_distinct=len(r.outcomes),
            bound={"fixpoint": r.fixpoint, "max_depth_reached": r.max_depth},
            samples=[{"cache_size": size, "history": h} for h in r.sample_histories[:1]],
        )
        for problem, hist in r.failures:
            fnd.report(f"ct:{size}:{problem.split(' ')[0]}:{len(hist)}", f"cached_template with template_cache_size={size} after {hist}: {problem}",
                       {"part": "cached_template", "size": size, "history": hist})
    # ---- part C
    comp = par.run_tasks(_component_task, [0, 1, 2, 3, 128])
    for size, nseq, ntr, failures, nouts in comp:
        ev.add_part(f"component_renders_size_{size}", states=nseq, transitions=ntr, validated=ntr,
                    nontrivial=nseq if size < 3 else 0, observed_distinct=nouts, bound={"depth": 4, "components": len(COMP_SPECS)},
                    samples=[{"cache_size": size, "sequence": ["c18a", "c18c", "c18b", "c18a"]}] if size == 1 else None)
        for problem, case in failures:
            fnd.report(f"comp:{size}:{len(case['sequence'])}", problem, {"part": "component", **case})
    # ---- part D
    for size, nseq, ntr, failures in par.run_tasks(_rereg_task, [0, 1, 2, 128]):
        ev.add_part(f"reregistration_histories_size_{size}", states=nseq, transitions=ntr, validated=ntr, nontrivial=nseq,
                    bound={"ops": ["R render host component", "T render cached_template(tag)", "S re-register the name with the other class"], "max_len": 5},
                    samples=[{"cache_size": size, "history": "RSR"}] if size == 128 else None)
        for problem, case in failures:
            fnd.report(f"rereg:{size}:{len(case['history'])}", problem, case)
    boot.set_components_setting(template_cache_size=128)
    boot.drop_template_cache()
    ev.assumptions = [
        "single-threaded histories only (threads are C07)",
        "value alphabet: 4 keys, 2 values; the LRU code never inspects keys or values beyond hashing, so larger alphabets add no behaviour",
    ]


def replay(ctx, case):
    part = case.get("part")
    if part == "lru":
        w = LruWorld(case["maxsize"])
        for op in case["history"]:
            obs, problem = lru_step(w, tuple(op))
            print(op, obs, problem)
            if problem:
                return False
        return True
    if part == "cached_template":
        w = CtWorld(case["size"])
        for op in case["history"]:
            obs, problem = ct_step(w, tuple(op))
            print(op, obs, problem)
            if problem:
                return False
        return True
    if part == "component":
        size, nseq, ntr, failures, nouts = _component_task(case["size"])
        for f in failures:
            print(f)
        return not failures
    if part == "rereg":
        size, nseq, ntr, failures = _rereg_task(case["size"])
        for f in failures:
            print(f[0])
        return not failures
    raise ValueError(part)
