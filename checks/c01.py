"""C01 - each slot renders the fill addressed to it, else its own default content (PROG engine).

Enumerates every component program of the slot/fill profile with total size <= N, renders
it with the real library in both context_behavior modes (plus the dynamic-component and
Component.render(slots=...) variants on the smaller programs) and compares the output /
error class / is_filled probes with the reference interpreter of mc/prog.py.

Excluded / agnostic (DESIGN C01): {% slot %} written in the page template (outside any
component template); fill names that are not strings; recursion; the `only` flag (C03).
Variables are used only for conditions and dynamic names and have the same value in
every scope, so no verdict depends on scoping (that is C03).
"""
from __future__ import annotations

import itertools
import json

from mc import boot, par
from mc.prog import SIDE_KINDS, SIDE_POS, CompSpec, Harness, Interp, ModelError, Program, side_attrs, strip_markers
from mc.proggen import Gen, Profile

PID = "C01"
LEVEL = "model_checking"
DJANGO = {}

PAGE_CTX = {"t": True, "f": False}
DATA = {"t": ("const", True), "f": ("const", False)}
PROBES = ("x", "y", "default")


def make_spec(name, template):
    return CompSpec(name, template, DATA, PROBES)


CORE = dict(use_if=False, use_for=False, use_alias=False, fill_text_mix=False, use_ws_body=False, slot_flags=("", "d"))


def bounds(tier):
    """parts: (label, profile kwargs, N, skip programs of size <= skip (already covered by an earlier part))"""
    if tier == "thorough":
        return {"parts": [("full", {}, 5, 0), ("core", CORE, 6, 5)], "N_variants": 5}
    return {"parts": [("full", {}, 4, 0), ("core", CORE, 5, 4)], "N_variants": 4}


def model_outcome(prog, mode):
    try:
        return ("ok", Interp(prog, mode).render_page())
    except ModelError as e:
        return ("err", "TemplateSyntaxError", e.cause)
    except RecursionError:
        return ("skip",)


def nontrivial(prog):
    """a fill or a slot exists somewhere (the program can exercise slot resolution)"""
    s = json.dumps(prog.to_json())
    return "{% slot" in s or "{% fill" in s


def python_variant(prog):
    """If the page is exactly one component tag whose fills are closed text, return
    (comp name, slots dict) for Component.render(slots=...)."""
    page = prog.page
    if len(page) != 1 or page[0][0] != "Comp":
        return None
    _, cname, kwargs, only, body = page[0]
    if kwargs or only:
        return None
    slots = {}
    if body:
        if all(n[0] == "Fill" for n in body):
            for f in body:
                if f[1].startswith("$") or f[2] or f[3] or f[1] in slots:
                    return None
                if not all(c[0] == "T" for c in f[4]):
                    return None
                slots[f[1]] = "".join(c[1] for c in f[4])
        elif all(n[0] == "T" for n in body):
            txt = "".join(c[1] for c in body)
            if txt.strip():
                slots["default"] = txt
        else:
            return None
    return cname, slots


def compare(mode, variant, prog, exp, obs):
    """-> None if the observation matches the model, else (identity, what)"""
    if exp[0] == "skip":
        return None
    if exp[0] == "ok":
        if obs[0] == "ok" and strip_markers(obs[1]) == exp[1]:
            return None
        got = strip_markers(obs[1]) if obs[0] == "ok" else obs
        return ("output", f"expected output {exp[1]!r}, got {got!r}")
    if obs[0] == "err" and obs[1] == exp[1]:
        return None
    got = strip_markers(obs[1]) if obs[0] == "ok" else obs
    return ("error", f"expected {exp[1]} ({exp[2]}), got {got!r}")


def worker(w, W, payload):
    pfkw, N, skip, NV, mode = payload
    from django.utils.safestring import mark_safe

    boot.set_components_setting(context_behavior=mode)
    gen = Gen(Profile(**pfkw))
    h = Harness()
    agg = par.Agg()
    i = -1
    for prog in gen.programs(N, make_spec, PAGE_CTX):
        i += 1
        if i % W != w:
            continue
        if skip and prog_size(prog) <= skip:
            continue
        agg.states += 1
        exp = model_outcome(prog, mode)
        agg.expected[exp[0] if exp[0] != "err" else "err:" + exp[2]] += 1
        if nontrivial(prog):
            agg.nontrivial += 1
        small = prog_size(prog) <= NV
        variants = ["tag"] + (["dynamic"] if small else [])
        for variant in variants:
            dyn = variant == "dynamic"
            classes = h.install(prog, dynamic=dyn)
            obs = h.render_page(prog, dynamic=dyn)
            boot.clear_render_registries()
            agg.transitions += 1
            agg.validated += 1
            if obs[0] == "ok":
                agg.observe(obs[1])
            e = exp
            if dyn and exp[0] == "err" and exp[2] in ("required-slot-unfilled", "two-default-slots", "slot-filled-twice"):
                # documented exemption: these checks are skipped for the dynamic component's own
                # (pass-through) instance only; the inner instance still enforces them -> same outcome
                pass
            bad = compare(mode, variant, prog, e, obs)
            if bad:
                ident = f"{mode}:{variant}:{bad[0]}:{core_of(prog)}"
                agg.fail(ident, f"[{mode}/{variant}] {bad[1]}", {"mode": mode, "variant": variant, "program": prog.to_json(mode, dyn),
                                                                  "expected": list(exp), "spec": prog_spec(prog)})
        if small:
            python_variants(prog, mode, exp, h, agg)
        if agg.states <= 2 and w == 0:
            agg.sample({"mode": mode, "page": prog.page_source(), "components": {n: c.source() for n, c in prog.comps.items()},
                        "expected": list(exp)})
    h.uninstall()
    return agg


def prog_size(prog):
    from mc.prog import size

    return size(prog.page) + sum(size(c.template) for c in prog.comps.values())


def core_of(prog):
    """identity core: the program text with markers removed"""
    import hashlib
    import re

    s = prog.page_source() + "|" + "|".join(f"{n}={c.source()}" for n, c in sorted(prog.comps.items()))
    s = re.sub(r"[PAB]\d+ ", "T ", s)
    return hashlib.sha1(s.encode()).hexdigest()[:10] + ":" + s[:160]


def prog_spec(prog):
    return {"page": prog.page, "comps": {n: c.template for n, c in prog.comps.items()}}


# ------------------------------------------------------------------ three-level family
# page -> a -> b with fills handed down at both levels, pass-through slots and the default= alias: the
# shapes in which a slot could be resolved against the *wrong* instance need 8-13 nodes, beyond the
# node-bounded enumeration, so they are enumerated as a structured family (every combination of the
# choices below).
def family_programs():
    import itertools

    from mc.proggen import label

    T = ("T", None)
    for page_fills in itertools.product((False, True), repeat=3):  # page gives a: fill x / fill y / fill default
        for a_fill_x in ("none", "plain", "alias", "alias+slot", "passthrough-x", "passthrough-y", "loop-passthrough", "alias-nested"):
            for a_fill_y in ("none", "plain"):
                for a_own in ("none", "slot-y", "slot-x-default"):
                    for b_inner in ("y", "x", "y-default", "none", "loop-var"):
                        for b_outer_flag in ("", "d"):
                            # b: slot x { B1, [slot <inner> { B2 }] }
                            inner = ()
                            if b_inner != "none":
                                nm = b_inner.split("-")[0]
                                inner = (("Slot", nm, "d" if b_inner.endswith("default") else "", (), (T,)),)
                            b_tpl = (("Slot", "x", b_outer_flag, (), (T,) + inner),)
                            if b_inner == "loop-var":
                                # the slot sits in a loop and its own content shows the loop variable
                                b_tpl = (("For", "n", "xy", (("Slot", "x", b_outer_flag, (), (T, ("V", "n"))), T)),)
                            fills = []
                            if a_fill_x == "plain":
                                fills.append(("Fill", "x", None, None, (T,)))
                            elif a_fill_x == "alias":
                                fills.append(("Fill", "x", None, "d", (T, ("D", "d"))))
                            elif a_fill_x == "alias+slot":
                                fills.append(("Fill", "x", None, "d", (("D", "d"), ("Slot", "y", "", (), (T,)))))
                            elif a_fill_x == "alias-nested":
                                # the slot's own content re-emitted inside the body of a further (deferred) component
                                fills.append(("Fill", "x", None, "d", (T, ("Comp", "c", (), False, (("D", "d"), T)))))
                            elif a_fill_x.startswith("passthrough"):
                                fills.append(("Fill", "x", None, None, (T, ("Slot", a_fill_x[-1], "", (), (T,)))))
                            if a_fill_y == "plain":
                                fills.append(("Fill", "y", None, None, (T,)))
                            if a_fill_x == "loop-passthrough":
                                # the tag sits in a loop and the fill hands on the slot named by the loop variable
                                fills.insert(0, ("Fill", "x", None, None, (T, ("Slot", "$n", "", (), (T,)))))
                            b_tag = ("Comp", "b", (), False, tuple(fills) if fills else None)
                            if a_fill_x == "loop-passthrough":
                                b_tag = ("For", "n", "xy", (b_tag,))
                            own = ()
                            if a_own == "slot-y":
                                own = (("Slot", "y", "", (), (T,)),)
                            elif a_own == "slot-x-default":
                                own = (("Slot", "x", "d", (), (T,)),)
                            a_tpl = (T, b_tag) + own
                            pf = []
                            for given, nm in zip(page_fills, ("x", "y", "default")):
                                if given:
                                    pf.append(("Fill", nm, None, None, (T,)))
                            page = (("Comp", "a", (), False, tuple(pf) if pf else None),)
                            comps = {"a": make_spec("a", label(a_tpl, "A")), "b": make_spec("b", label(b_tpl, "B"))}
                            if a_fill_x == "alias-nested":
                                comps["c"] = make_spec("c", label((("Slot", "z", "d", (), (T,)),), "C"))
                            yield Program(label(page, "P"), comps, dict(PAGE_CTX))


def page_alias_programs():
    """The `default=` alias written in the PAGE template (no enclosing component): the slot's own content - which may hold
    component tags - is re-emitted once / twice / inside the body of a further component / inside that component rendered in a
    loop; the same page also as the template of a component `top`."""
    from mc.proggen import label

    T = ("T", None)
    E = ("Comp", "e", (), False, None)
    D = ("D", "d")
    for slot_body in ((T,), (T, E), (E,), (E, T, E), (("For", "n", "xy", (E,)),)):
        for flag in ("", "d"):
            for fill_body in ((D,), (D, T, D), (("Comp", "c", (), False, (D, T)),), (T, ("Comp", "r", (), False, (D,))), (("Comp", "c", (), False, (("Comp", "c", (), False, (D,)),)),)):
                for top in (False, True):
                    b_tpl = (T, ("Slot", "x", flag, (), slot_body))
                    page = (("Comp", "b", (), False, (("Fill", "x", None, "d", fill_body),)),)
                    comps = {"b": make_spec("b", label(b_tpl, "B")), "e": make_spec("e", label((T,), "E")),
                             "c": make_spec("c", label((("Slot", "z", "d", (), (T,)),), "C")),
                             "r": make_spec("r", label((("For", "n", "xy", (("Slot", "z", "d", (), ()),)),), "R"))}
                    if top:
                        comps["top"] = make_spec("top", label(page, "P"))
                        page = (("Comp", "top", (), False, None),)
                        yield Program(page, comps, dict(PAGE_CTX))
                    else:
                        yield Program(label(page, "P"), comps, dict(PAGE_CTX))


SIDE_VARIANTS = tuple((pos, kind) for pos in SIDE_POS for kind in SIDE_KINDS)
SIDE_VARIANTS_QUICK = (("before", "fail_child"), ("after", "fail"))


def family_worker(w, W, payload):
    mode, tier = payload
    boot.set_components_setting(context_behavior=mode)
    h = Harness()
    agg = par.Agg()
    for i, prog in enumerate(itertools.chain(family_programs(), page_alias_programs())):
        if i % W != w:
            continue
        agg.states += 1
        agg.nontrivial += 1
        exp = model_outcome(prog, mode)
        agg.expected[exp[0] if exp[0] != "err" else "err:" + exp[2]] += 1
        # side-<pos>-<kind>: the tag route with an unrelated Python-API render (succeeding / failing and caught) inside every
        # component's on_render_<pos> hook (mc/prog.py side_attrs) - the page must render exactly as without it
        sides = ["side-%s-%s" % pk for pk in (SIDE_VARIANTS if tier == "thorough" else SIDE_VARIANTS_QUICK)]
        for variant in ["tag", "dynamic"] + sides:
            dyn = variant == "dynamic"
            extra = side_attrs(prog, *variant.split("-")[1:]) if variant.startswith("side-") else None
            h.install(prog, dynamic=dyn, extra_attrs=extra)
            obs = h.render_page(prog, dynamic=dyn)
            boot.clear_render_registries()
            agg.transitions += 1
            agg.validated += 1
            if obs[0] == "ok":
                agg.observe(obs[1])
            bad = compare(mode, variant, prog, exp, obs)
            if bad:
                agg.fail(f"{mode}:{variant}:family:{bad[0]}:{core_of(prog)}", f"[{mode}/{variant}] {bad[1]}",
                         {"mode": mode, "variant": variant, "program": prog.to_json(mode, dyn), "expected": list(exp), "spec": prog_spec(prog)})
        python_variants(prog, mode, exp, h, agg, "family:")
        if agg.states == 4 and w == 7:
            agg.sample({"mode": mode, "page": prog.page_source(), "components": {n: c.source() for n, c in prog.comps.items()}, "expected": list(exp)})
    h.uninstall()
    return agg


def python_variants(prog, mode, exp, h, agg, tag=""):
    """Component.render(slots=...) for pages that are one component tag with closed text fills"""
    from django.utils.safestring import mark_safe

    pv = python_variant(prog)
    if pv is None:
        return
    cname, slots = pv
    classes = h.install(prog)
    for how in ("str", "func"):
        sl = {k: (mark_safe(v) if how == "str" else (lambda ctx, data, ref, _v=v: mark_safe(_v))) for k, v in slots.items()}
        try:
            out = ("ok", classes[cname].render(context=dict(PAGE_CTX), slots=sl, render_dependencies=False))
        except RecursionError:
            out = ("err", "RecursionError", "")
        except Exception as ex:  # noqa
            out = ("err", type(ex).__name__, str(ex)[:200])
        boot.clear_render_registries()
        agg.transitions += 1
        agg.validated += 1
        bad = compare(mode, "python-" + how, prog, exp, out)
        if bad:
            agg.fail(f"{mode}:python-{how}:{tag}{bad[0]}:{core_of(prog)}", f"[{mode}/Component.render slots as {how}] {bad[1]}",
                     {"mode": mode, "variant": "python-" + how, "program": prog.to_json(mode), "expected": list(exp), "spec": prog_spec(prog)})
    # further Python routes (each must give the page the tag route gives):
    #   forward        a wrapper receives the fills under RENAMED keys and hands the normalised Slot objects of its
    #                  `self.input.slots` on to the component under the real names, from get_context_data - once as a nested
    #                  render (context passed on) and once as a render of its own
    #   func-component every fill is a function that renders a helper component with the Context it receives
    from django_components import Component

    target = classes[cname]
    for nested in (True, False):
        def fwd_gcd(self, _nested=nested, **kw):
            fwd = {k[2:]: v for k, v in self.input.slots.items()}
            kwargs = {"context": self.input.context} if _nested else {"context": dict(PAGE_CTX)}
            return {"inner": target.render(slots=fwd, render_dependencies=False, **kwargs)}

        wrapper = type("P_forward", (Component,), {"template": "{{ inner }}", "get_context_data": fwd_gcd, "__module__": "verif_prog"})
        how = "forward-nested" if nested else "forward-root"
        try:
            out = ("ok", wrapper.render(context=dict(PAGE_CTX), slots={"r_" + k: mark_safe(v) for k, v in slots.items()}, render_dependencies=False))
        except RecursionError:
            out = ("err", "RecursionError", "")
        except Exception as ex:  # noqa
            out = ("err", type(ex).__name__, str(ex)[:200])
        boot.clear_render_registries()
        agg.transitions += 1
        agg.validated += 1
        bad = compare(mode, "python-" + how, prog, exp, out)
        if bad:
            agg.fail(f"{mode}:python-{how}:{tag}{bad[0]}:{core_of(prog)}", f"[{mode}/fills forwarded under other names by a wrapper ({how})] {bad[1]}",
                     {"mode": mode, "variant": "python-" + how, "program": prog.to_json(mode), "expected": list(exp), "spec": prog_spec(prog)})
    if slots:
        echo = type("P_echo", (Component,), {"template": "{{ t }}", "get_context_data": lambda self, t="", **kw: {"t": t}, "__module__": "verif_prog"})
        sl = {k: (lambda ctx, data, ref, _v=v: echo.render(context=ctx, kwargs={"t": mark_safe(_v)}, render_dependencies=False)) for k, v in slots.items()}
        try:
            out = ("ok", target.render(context=dict(PAGE_CTX), slots=sl, render_dependencies=False))
        except RecursionError:
            out = ("err", "RecursionError", "")
        except Exception as ex:  # noqa
            out = ("err", type(ex).__name__, str(ex)[:200])
        boot.clear_render_registries()
        agg.transitions += 1
        agg.validated += 1
        bad = compare(mode, "python-func-component", prog, exp, out)
        if bad:
            agg.fail(f"{mode}:python-func-component:{tag}{bad[0]}:{core_of(prog)}", f"[{mode}/fills are functions that render a component with the Context they receive] {bad[1]}",
                     {"mode": mode, "variant": "python-func-component", "program": prog.to_json(mode), "expected": list(exp), "spec": prog_spec(prog)})


def run(ctx):
    b = bounds(ctx.tier)
    ev = ctx.ev
    ev.rule = ("PROG: every component program (page + <=2 component templates; text, if, for, slots with default/required flags and "
               "dynamic names, component tags with no/implicit/fill bodies, conditional/looped/dynamically named fills, default= alias) "
               "with total node count <= N, after sound symmetry reduction; non-trivial = contains at least one slot or fill")
    for label_, pfkw, N, skip in b["parts"]:
        for mode in ("django", "isolated"):
            agg = par.run_sharded(worker, (pfkw, N, skip, b["N_variants"], mode))
            ev.add_part(f"{label_}_N{N}_{mode}", states=agg.states, transitions=agg.transitions, validated=agg.validated,
                        nontrivial=agg.nontrivial, observed_distinct=len(agg.observed), expected=agg.expected,
                        bound={"profile": label_, "profile_restrictions": pfkw, "N": N, "sizes_skipped_as_covered_above": skip,
                               "N_variants": b["N_variants"]}, samples=agg.samples[:1])
            ctx.fnd.merge_reports(sorted(agg.failures, key=lambda f: (len(json.dumps(f[2]["program"])), f[0])))
            if agg.failures_dropped:
                ev.extra["failures_dropped"] = ev.extra.get("failures_dropped", 0) + agg.failures_dropped
    for mode in ("django", "isolated"):
        agg = par.run_sharded(family_worker, (mode, ctx.tier))
        ev.add_part(f"three_level_family_{mode}", states=agg.states, transitions=agg.transitions, validated=agg.validated, nontrivial=agg.nontrivial,
                    observed_distinct=len(agg.observed), expected=agg.expected, bound={"levels": 3, "choices": "page fills x a fills (plain/alias/pass-through) x a own slots x b nested slots x flags"},
                    samples=agg.samples[:1])
        ctx.fnd.merge_reports(sorted(agg.failures, key=lambda f: (len(json.dumps(f[2]["program"])), f[0])))
    boot.set_components_setting(context_behavior="django")
    ev.assumptions = [
        "variables have the same value in every scope (scoping is C03)",
        "slots are only generated inside component templates (a slot in the page template is outside the statement)",
        "components are acyclic (a may use b or b may use a, never both; no self-reference)",
    ]


def _retuple(x):
    if isinstance(x, list):
        return tuple(_retuple(i) for i in x)
    return x


def replay(ctx, case):
    mode = case["mode"]
    variant = case["variant"]
    spec = case["spec"]
    comps = {n: make_spec(n, _retuple(t)) for n, t in spec["comps"].items()}
    prog = Program(_retuple(spec["page"]), comps, dict(PAGE_CTX))
    boot.set_components_setting(context_behavior=mode)
    h = Harness()
    dyn = variant == "dynamic"
    h.install(prog, dynamic=dyn, extra_attrs=side_attrs(prog, *variant.split("-")[1:]) if variant.startswith("side-") else None)
    exp = model_outcome(prog, mode)
    if variant.startswith("python"):
        agg = par.Agg()
        python_variants(prog, mode, exp, h, agg)
        boot.clear_render_registries()
        h.uninstall()
        print("page:      ", prog.page_source())
        for n, c in prog.comps.items():
            print(f"comp {n}:    ", c.source())
        print("expected:  ", exp)
        for f in agg.failures:
            print("python variant:", f[1])
        return not agg.failures
    obs = h.render_page(prog, dynamic=dyn)
    boot.clear_render_registries()
    h.uninstall()
    print("page:      ", prog.page_source(dyn))
    for n, c in prog.comps.items():
        print(f"comp {n}:    ", c.source(dyn))
    print("expected:  ", exp)
    print("observed:  ", (obs[0], strip_markers(obs[1])) if obs[0] == "ok" else obs)
    return compare(mode, variant, prog, exp, obs) is None
