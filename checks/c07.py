"""C07 - concurrent renders in different threads do not interfere (SCHED engine).

Real threads run real renders under the baton scheduler of mc/sched.py; every line that
touches process-global state of the library is a scheduling point (set recomputed from the
working tree by an AST scan).  All schedules with <= k preemptions are executed
(iterative preemption bounding; quick k=2 on S1, S3, S3b and k=1 elsewhere; thorough k=2
everywhere and k=3 on S3).

Scenarios (every pair is forced to collide on one piece of shared state):
  S1 provide->consumer in both threads, one consumer raising   (provide registries, error path)
  S2 sibling consumers under one provider in both threads      (register/unregister ping-pong)
  S3 compiling 4 distinct templates through a template cache of size 2 (LRU list/dict)
  S4 first render of a never-resolved component with js/css + Media (lazy media resolution, media caches)
  S5 first use of the lazily created caches and of component_node_subclasses_by_name
  S6 nested slot-bearing render vs a failing nested render     (component_context_cache, renderer cache, child attrs)
  L1a / L1b line-granular cold-start scenarios (slot fills of one component; first document renders): EVERY executed
     line of every file that holds module-level state (AST scan) is a scheduling point, every execution runs in a freshly forked process (lazily built globals
     cold, also unknown ones), preemption bound 1 = the other thread runs to completion inside every one-line window.
Oracle: each thread's result (output / exception class) equals its solo result; no deadlock;
after join the render registries are empty and the LRU list/dict invariant holds.
"""
from __future__ import annotations

import os
import re

from mc import boot, par, sched
from mc.prog import strip_markers

PID = "C07"
LEVEL = "model_checking"
DJANGO = {}


class Boom(Exception):
    pass


def _norm(html):
    return strip_markers(str(html))


def _mk(name, template, gcd=None, extra=None):
    from django_components import Component
    from django_components.component_registry import registry

    attrs = {"__module__": "verif_c07"}
    if template is not None:
        attrs["template"] = template
    if gcd:
        attrs["get_context_data"] = gcd
    attrs.update(extra or {})
    cls = type("S_" + name, (Component,), attrs)
    if name in registry.all():
        registry.unregister(name)
    registry.register(name, cls)
    return cls


def _consumer_gcd(self, **kw):
    return {"v": self.inject("k", None) and self.inject("k").v}


def _boom_gcd(self, **kw):
    self.inject("k")
    raise Boom("boom")


def _render_tpl(t, ctx=None):
    from django.template import Context

    def task():
        return _norm(t.render(Context(dict(ctx or {}))))

    return task


class Scenario:
    name = "?"
    bound_quick = 1
    bound_thorough = 2
    media = False  # include the lazy media-resolution code in the scheduling set
    extra_funcs = ()  # further functions of the library whose every line is a scheduling point in this scenario
    extra_attrs = ()  # further shared-object attributes whose every mention is a scheduling point
    opcode_files = ()  # package-relative files in which every BYTECODE of a scheduling-set line is a point (a switch inside one source line)

    def setup(self):
        """reset global state; -> list of task callables"""
        raise NotImplementedError

    def after(self):
        """post-join invariants -> list of problem strings"""
        return residue_problems()

    def reset_common(self):
        boot.clear_render_registries()
        boot.ID_SEAM.reset()


def residue_problems():
    snap = {k: v for k, v in boot.registries_snapshot().items() if v}
    return [f"residue after all renders finished: {snap}"] if snap else []


def lru_problems():
    from checks.c18 import walk
    from django_components import cache as djc_cache

    c = djc_cache.template_cache
    if c is None:
        return []
    fwd, bwd = walk(c, limit=200)
    if fwd is None:
        return ["template cache linked list broken"]
    out = []
    if fwd != list(reversed(bwd)):
        out.append(f"template cache forward list {len(fwd)} != reversed backward list {len(bwd)}")
    if sorted(map(repr, fwd)) != sorted(map(repr, c.cache.keys())):
        out.append(f"template cache list has {len(fwd)} keys, dict has {len(c.cache)}")
    if c.maxsize is not None and len(c.cache) > c.maxsize:
        out.append(f"template cache holds {len(c.cache)} > maxsize {c.maxsize}")
    return out


class S1(Scenario):
    name = "S1_provide_error_path"
    bound_quick = 2
    bound_thorough = 2

    def __init__(self):
        from django.template import Template

        _mk("s1c", "(c:{{ v }})", _consumer_gcd)
        _mk("s1boom", "never", _boom_gcd)
        self.ta = Template('{% provide "k" v="A" %}{% component "s1c" / %}{% component "s1c" / %}{% endprovide %}')
        self.tb = Template('{% provide "k" v="B" %}{% component "s1boom" / %}{% endprovide %}')

    def setup(self):
        self.reset_common()
        return [_render_tpl(self.ta), _render_tpl(self.tb)]


class S2(Scenario):
    name = "S2_provide_siblings"

    def __init__(self):
        from django.template import Template

        _mk("s2c", "(c:{{ v }})", _consumer_gcd)
        _mk("s2w", "(w:{% component 's2c' / %}{% slot 'x' %}{% endslot %})")
        self.ta = Template('{% provide "k" v="A" %}{% component "s2w" %}{% fill "x" %}{% component "s2c" / %}{% endfill %}{% endcomponent %}{% endprovide %}')
        self.tb = Template('{% provide "k" v="B" %}{% component "s2c" / %}{% component "s2c" / %}{% endprovide %}{% component "s2c" / %}')

    def setup(self):
        self.reset_common()
        return [_render_tpl(self.ta), _render_tpl(self.tb)]


class S3(Scenario):
    name = "S3_template_cache_lru"
    bound_quick = 2
    bound_thorough = 3
    SRCS = ["A{{ v }}", "B{{ v }}", "C{{ v }}", "D{{ v }}"]

    def setup(self):
        self.reset_common()
        boot.set_components_setting(template_cache_size=2)
        boot.drop_template_cache()
        from django_components.cache import get_template_cache

        get_template_cache()
        from django.template import Context

        from django_components.template import cached_template

        def mk(order):
            def task():
                out = []
                for i in order:
                    t = cached_template(self.SRCS[i])
                    out.append(t.render(Context({"v": i})))
                return "".join(out)

            return task

        return [mk([0, 1, 2]), mk([2, 0, 3])]

    def after(self):
        return residue_problems() + lru_problems()


class O1(S1):
    """S1 with a scheduling point at every BYTECODE of the provide registries' code: the GIL can switch inside a line such
    as `provide_references[provide_id].remove(reference_id)` (lookup, then mutation)"""
    name = "O1_provide_error_path_opcodes"
    bound_quick = 1
    bound_thorough = 2
    opcode_files = ("perfutil/provide.py",)


class O2(S2):
    name = "O2_provide_siblings_opcodes"
    bound_quick = 1
    bound_thorough = 2
    opcode_files = ("perfutil/provide.py",)


class O3(S3):
    """S3 with a scheduling point at every bytecode of the LRU cache, of cached_template (get-then-set) and of the lazily
    created cache singletons"""
    name = "O3_template_cache_lru_opcodes"
    bound_quick = 1
    bound_thorough = 2
    opcode_files = ("util/cache.py", "template.py", "cache.py")


class S3c(S3):
    """three threads through a cache of size 2"""
    name = "S3c_template_cache_lru_three_threads"
    bound_quick = 1
    bound_thorough = 2

    def setup(self):
        tasks = super().setup()
        from django.template import Context

        from django_components.template import cached_template

        def third():
            return "".join(cached_template(self.SRCS[i]).render(Context({"v": i})) for i in (1, 3, 0))

        return tasks + [third]


class S1c(Scenario):
    """three threads: two healthy provide->consumer renders around one failing render"""
    name = "S1c_provide_error_path_three_threads"
    bound_quick = 1
    bound_thorough = 2

    def __init__(self):
        from django.template import Template

        _mk("s1cc", "(c:{{ v }})", _consumer_gcd)
        _mk("s1cboom", "never", _boom_gcd)
        self.ta = Template('{% provide "k" v="A" %}{% component "s1cc" / %}{% endprovide %}')
        self.tb = Template('{% provide "k" v="B" %}{% component "s1cboom" / %}{% endprovide %}')
        self.tc = Template('{% provide "k" v="C" %}{% component "s1cc" / %}{% component "s1cc" / %}{% endprovide %}')

    def setup(self):
        self.reset_common()
        return [_render_tpl(self.ta), _render_tpl(self.tb), _render_tpl(self.tc)]


class S3b(Scenario):
    """component renders (inline templates) through a cache of size 1"""
    name = "S3b_component_templates_small_cache"
    bound_quick = 2

    def __init__(self):
        _mk("s3a", "<p>a{{ x }}</p>", lambda self, **kw: {"x": 1})
        _mk("s3b", "<p>b{{ x }}</p>", lambda self, **kw: {"x": 2})
        self.cls = None

    def setup(self):
        from django_components.component_registry import registry

        self.reset_common()
        boot.set_components_setting(template_cache_size=1)
        boot.drop_template_cache()
        a, b = registry.get("s3a"), registry.get("s3b")

        def mk(order):
            def task():
                return "".join(_norm(c.render(render_dependencies=False)) for c in order)

            return task

        return [mk([a, b]), mk([b, a])]

    def after(self):
        return residue_problems() + lru_problems()


class S4(Scenario):
    """first render of a never-resolved component class carrying js / css / Media"""
    name = "S4_first_media_resolution"
    media = True

    def __init__(self):
        self.n = 0

    def setup(self):
        from django_components import cache as djc_cache

        self.reset_common()
        if djc_cache.component_media_cache is not None:
            djc_cache.component_media_cache.clear()
        self.n += 1

        class Media:
            js = ["s4.js"]
            css = {"all": ["s4.css"]}

        base = _mk("s4base", "<i>base</i>", extra={"Media": type("Media", (), {"js": ["base.js"]}), "js": "console.log('base')"})
        cls = _mk("s4", "<div>s4</div>", extra={"Media": Media, "js": "console.log('s4')", "css": ".s4{}", "__qualname__": "S_s4"}, )
        sub = type("S_s4sub", (cls, ), {"template": "<div>sub</div>", "__module__": "verif_c07", "Media": type("Media", (), {"css": ["sub.css"]})})

        def t1():
            return _norm(cls.render()) + "|" + str(cls.media) + "|" + str(sub.media)

        def t2():
            return str(sub.media) + "|" + _norm(sub.render()) + "|" + str(cls.media)

        return [t1, t2]


class S4b(Scenario):
    """first render of a never-resolved component whose template / js / css live in FILES next to the
    component module (template_file, js_file, css_file): the lazy loading of the three files is a
    multi-step update of class-level state that a second first-render can observe half-done"""
    name = "S4b_first_file_asset_resolution"
    media = True

    def __init__(self):
        import os
        import sys
        import types

        d = os.path.join(boot.base_dir(), "components", "s4b")
        os.makedirs(d, exist_ok=True)
        for fn, content in (("s4b.html", "<div>file-template {{ v }}</div>"), ("s4b.js", "console.log('s4b');"), ("s4b.css", ".s4b{color:red}")):
            with open(os.path.join(d, fn), "w") as f:
                f.write(content)
        mod = types.ModuleType("verif_c07_s4b")
        mod.__file__ = os.path.join(d, "s4b.py")
        sys.modules["verif_c07_s4b"] = mod

    def setup(self):
        from django_components import cache as djc_cache

        self.reset_common()
        if djc_cache.component_media_cache is not None:
            djc_cache.component_media_cache.clear()
        cls = _mk("s4b", None, lambda self, **kw: {"v": 1},
                  extra={"template_file": "s4b.html", "js_file": "s4b.js", "css_file": "s4b.css", "__module__": "verif_c07_s4b"})

        def t1():
            return _norm(cls.render()) + "|" + str(cls.js) + "|" + str(cls.css)

        def t2():
            return str(cls.css) + "|" + _norm(cls.render()) + "|" + str(cls.js)

        return [t1, t2]


SCRIPT_CACHE_FUNCS = ("cache_component_js", "cache_component_css", "_cache_script", "_is_script_in_cache", "get_script_content",
                      "get_script_tag", "_prepare_tags_and_urls", "cache_component_js_vars", "cache_component_css_vars")


class S7(Scenario):
    """two first renders (document mode, dependencies rendered) of the SAME component with inline js/css on a cold
    script cache: has-key / set of the component script cache"""
    name = "S7_cold_script_cache_same_component"
    extra_funcs = SCRIPT_CACHE_FUNCS

    def __init__(self):
        self.cls = _mk("s7", "<html><head></head><body><div>s7</div></body></html>", extra={"js": "console.log('s7 js');", "css": ".s7{color:blue}"})

    def setup(self):
        from django_components import cache as djc_cache

        self.reset_common()
        if djc_cache.component_media_cache is not None:
            djc_cache.component_media_cache.clear()
        cls = self.cls

        def t1():
            return str(cls.render(type="document"))

        def t2():
            return str(cls.render(type="document"))

        return [t1, t2]

    def after(self):
        return residue_problems()


class S8(Scenario):
    """two threads render the same, never rendered Template object whose component tag carries list / dict / spread
    arguments: the lazily compiled argument structures of a parsed template are shared between threads"""
    name = "S8_first_render_of_shared_template"
    extra_attrs = ("compiled",)
    extra_funcs = ("compile",)

    def __init__(self):
        _mk("s8", "(s8:{{ a }}|{{ b }}|{{ c }})", lambda self, a=None, b=None, c=None, **kw: {"a": a, "b": b, "c": c})

    def setup(self):
        from django.template import Template

        self.reset_common()
        t = Template('{% component "s8" a=[1, x, *y] b={"k": x, **z} c=x|add:1 / %}')
        ctx = {"x": 2, "y": [3, 4], "z": {"m": 5}}
        return [_render_tpl(t, ctx), _render_tpl(t, ctx)]


class S9(Scenario):
    """one Template object shared between a component (nested in an `{% extends %}` block, so its render must NOT isolate the
    render context) in one thread and a stock `{% include %}` of the same object (must isolate: `{% cycle %}` restarts) in
    the other: whatever tells the patched `Template.render()` which of the two it is must not live on the shared Template"""
    name = "S9_shared_template_component_vs_include"
    bound_quick = 1
    bound_thorough = 2
    extra_funcs = ("_template_render", "_with_template_nested_flag", "_prepare_template")
    extra_attrs = ("_djc_is_component_nested", "_djc_nested_template")

    def __init__(self):
        from django.template import Template

        self.row = row = Template("{% cycle 'a' 'b' %}")
        _mk("s9row", None, extra={"get_template": lambda self, context: row})
        boot.LOCMEM_TEMPLATES["s9_base.html"] = "[{% block b %}{% endblock %}]"
        self.ta = Template("{% extends 's9_base.html' %}{% block b %}{% component 's9row' / %}{% component 's9row' / %}{% endblock %}")
        self.tb = Template("{% for i in '123' %}{% include t %}{% endfor %}")

    def setup(self):
        self.reset_common()
        return [_render_tpl(self.ta, {}), _render_tpl(self.tb, {"t": self.row})]

    def after(self):
        out = _render_tpl(self.tb, {"t": self.row})()
        leftovers = [k for k in vars(self.row) if k.startswith("_djc")]
        return residue_problems() + ([f"a later stock render of the shared template, alone, gives {out!r} instead of 'aaa'"] if out != "aaa" else []) + (
            [f"attributes left on the shared Template: {leftovers}"] if leftovers else [])


class S10(Scenario):
    """ONE Component instance renders in both threads - what `Component.as_view()` does for every request (one instance per
    view function): `self.input` / `self.id` inside get_context_data must be those of the thread's own render"""
    name = "S10_shared_instance_as_view"
    bound_quick = 2
    bound_thorough = 3
    extra_attrs = ("_metadata_stack", "_metadata_local")
    extra_funcs = ("_with_metadata",)

    def __init__(self):
        def gcd(self, who=None, **kw):
            return {"who": self.input.kwargs["who"], "my": self.id, "n": len(self.input.args)}

        def get(self, request, *args, **kwargs):
            return self.render_to_response(kwargs={"who": request.GET["who"]})

        self.cls = _mk("s10", "<p>{{ who }}/{{ n }}[{{ my }}]</p>", gcd, extra={"get": get})

    def setup(self):
        from django.test import RequestFactory

        self.reset_common()
        view = self.cls.as_view()
        rf = RequestFactory()

        def mk(who):
            return lambda: _norm(view(rf.get("/", {"who": who})).content.decode())

        return [mk("Alice"), mk("Bob")]


class S11(Scenario):
    """both threads render the SAME compiled Template (one ComponentNode) with different contexts; the component reads its
    input through `self.input` / `self.id`: nothing about one render may be kept on the shared node or class"""
    name = "S11_same_template_reads_self_input"
    bound_quick = 2
    bound_thorough = 3
    extra_attrs = ("_metadata_stack", "_metadata_local", "_component", "outer_context")
    extra_funcs = ("_with_metadata",)

    def __init__(self):
        from django.template import Template

        def gcd(self, who=None, **kw):
            return {"who": self.input.kwargs["who"], "my": self.id, "outer": self.outer_context.get("who") if self.outer_context is not None else "-"}

        _mk("s11", "<p>{{ who }}/{{ outer }}[{{ my }}]</p>", gcd)
        self.t = Template("{% component 's11' who=who / %}")

    def setup(self):
        self.reset_common()
        return [_render_tpl(self.t, {"who": "Alice"}), _render_tpl(self.t, {"who": "Bob"})]


class S12(Scenario):
    """two threads run render_dependencies() on two pre-rendered documents of different shape: one has no placeholders (tags go
    to the default locations), the other has both kinds of placeholder.  Every line of the dependency post-processing is a
    scheduling point: nothing about one call (found-a-placeholder flags, collected tags) may live outside it"""
    name = "S12_render_dependencies_two_documents"
    bound_quick = 1
    bound_thorough = 2
    extra_funcs = ("render_dependencies", "_find_default_locations", "_process_dep_declarations", "_prepare_tags_and_urls", "on_replace_match",
                   "_insert_js_css_to_default_locations", "_postprocess_media_tags", "get_script_tag", "get_script_content")

    def __init__(self):
        self.x = _mk("s12x", "<p>x</p>", extra={"js": "console.log('x');", "css": ".x{}"})
        self.y = _mk("s12y", "<p>y</p>", extra={"js": "console.log('y');", "css": ".y{}"})
        self.ph = _mk("s12ph", "{% component_css_dependencies %}|{% component_js_dependencies %}")

    def setup(self):
        from django_components.dependencies import render_dependencies

        self.reset_common()
        rx = self.x.render(render_dependencies=False)
        ry = self.y.render(render_dependencies=False)
        rp = self.ph.render(render_dependencies=False)
        doc_default = "<html><head><title>t</title></head><body>" + rx + "</body></html>"
        doc_placeholders = "<html><head>" + rp + "</head><body>" + ry + "</body></html>"
        self.reset_common()
        return [lambda: _norm_doc(render_dependencies(doc_default)), lambda: _norm_doc(render_dependencies(doc_placeholders))]


class S5(Scenario):
    """first use of the lazily created caches and of the component-tag subclass registry"""
    name = "S5_lazy_singletons"
    media = True

    def __init__(self):
        _mk("s5a", "<p>five{{ x }}</p>", lambda self, **kw: {"x": 5}, extra={"js": "console.log(5)"})

    def setup(self):
        from django_components import cache as djc_cache
        from django_components.component import component_node_subclasses_by_name

        self.reset_common()
        boot.set_components_setting(template_cache_size=128)
        djc_cache.template_cache = None
        djc_cache.component_media_cache = None
        component_node_subclasses_by_name.pop("component", None)
        from django.template import Context, Template

        def task():
            t = Template("{% component 's5a' / %}")
            return _norm(t.render(Context({})))

        return [task, task]

    def after(self):
        from django_components import cache as djc_cache

        out = residue_problems() + lru_problems()
        if djc_cache.template_cache is None or djc_cache.component_media_cache is None:
            out.append("lazily created cache missing after use")
        return out


class S6(Scenario):
    """nested, slot-bearing render against a failing nested render"""
    name = "S6_nested_vs_failing_nested"

    def __init__(self):
        from django.template import Template

        # the leaves echo Component.id next to the element that carries it: ids are deterministic per thread
        # (thread-prefixed counters), so the un-normalised output of a thread must equal its solo output
        _mk("s6leaf", "<b>leaf{{ n }}[{{ my_id }}]</b>", lambda self, n=0, **kw: {"n": n, "my_id": self.id})
        _mk("s6mid", "<div>{% slot 'x' %}{% component 's6leaf' n=1 / %}{% endslot %}{% component 's6leaf' n=2 / %}</div>")
        _mk("s6bad", "<div>{% component 's6leaf' n=3 / %}{% component 's6boom' / %}</div>")
        _mk("s6boom", "never", lambda self, **kw: (_ for _ in ()).throw(Boom("boom")))
        self.ta = Template("{% component 's6mid' %}{% fill 'x' %}{% component 's6leaf' n=9 / %}{% endfill %}{% endcomponent %}")
        self.tb = Template("{% component 's6bad' / %}")

    def setup(self):
        from django.template import Context

        # warm-up in the main thread: the component templates are compiled (compilation draws node ids from the
        # id seam) before the threads start, so that the ids a thread sees do not depend on who compiles first
        for t in (self.ta, self.tb):
            try:
                t.render(Context({}))
            except Boom:
                pass
        self.reset_common()

        def raw(t):
            return lambda: str(t.render(Context({})))

        return [raw(self.ta), raw(self.tb)]


class L1(Scenario):
    """Line-granular, cold-start scenarios: EVERY executed source line of every stateful file of the package (see run_one) is a scheduling point and every
    execution runs in a freshly forked process whose library state is as imported (nothing rendered yet), so lazily
    built globals - also ones this harness does not know about - are cold in every execution.  Preemption bound 1:
    for every line of either thread, the other thread runs to completion inside that window.  This is the exhaustive
    form of the "per-call scratch object hoisted to module scope" / "lazily filled list, check-then-act" bug classes,
    whose racy window contains no mention of a module-level name.  after(): a further render, alone, must still be right."""
    all_lines = True
    cold = True
    bound_quick = 1
    bound_thorough = 1


class L1a(L1):
    """two threads render DIFFERENT pages of the same slot-bearing component (fill text A / B, default content, slot data)"""
    name = "L1a_lines_slot_fills"

    def __init__(self):
        _mk("l1a", "<div>{% slot 's' x=v default %}D{% endslot %}|{% slot 't' %}T{{ v }}{% endslot %}</div>", lambda self, v=None, **kw: {"v": v})

    def _page(self, tag):
        from django.template import Template

        return Template("{% component 'l1a' v='" + tag + "' %}{% fill 's' data='d' %}" + tag * 4 + "-{{ d.x }}{% endfill %}{% endcomponent %}")

    def setup(self):
        self.reset_common()
        return [_render_tpl(self._page("A"), {}), _render_tpl(self._page("B"), {})]

    def after(self):
        out = _norm(_render_tpl(self._page("C"), {})())
        want = "<div>CCCC-C|TC</div>"
        return residue_problems() + ([f"a later render, alone, gives {out!r} instead of {want!r}"] if out != want else [])


class L1b(L1):
    """two threads render two different components with inline js / css in document mode (first document renders of the process)"""
    name = "L1b_lines_first_document_renders"

    def __init__(self):
        self.x = _mk("l1bx", "<html><head></head><body><div>x</div></body></html>", extra={"js": "console.log('x');", "css": ".x{}"})
        self.y = _mk("l1by", "<html><head></head><body><div>y</div></body></html>", extra={"js": "console.log('y');", "css": ".y{}"})
        self.z = _mk("l1bz", "<html><head></head><body><div>z</div></body></html>", extra={"js": "console.log('z');"})

    def setup(self):
        self.reset_common()
        x, y = self.x, self.y
        return [lambda: _norm_doc(x.render(type="document")), lambda: _norm_doc(y.render(type="document"))]

    def after(self):
        out = _norm_doc(self.z.render(type="document"))
        problems = residue_problems()
        n = out.count("django_components.min.js")
        if n != 1 or "console.log('z')" not in out or "console.log('x')" in out or "console.log('y')" in out:
            problems.append(f"a later document render, alone, is wrong (core script x{n}): {out[:300]!r}")
        return problems


def _norm_doc(html):
    return re.sub(r'(?<=[\[ ,])"[A-Za-z0-9+/=]{16,}"', '"B64"', _norm(html))


# the cold-start scenarios come first: their executions are forked from this process, which must not have rendered anything yet
SCENARIOS = {c.name: c for c in (L1a, L1b, S1, S1c, S2, S3, S3b, S3c, S4, S4b, S5, S6, S7, S8, S9, S10, S11, S12, O1, O2, O3)}
_SC = {}
_SET = {}


def get_scenario(name):
    if name not in _SC:
        _SC[name] = SCENARIOS[name]()
    return _SC[name]


def get_set(media=True, extra_funcs=(), extra_attrs=()):
    key = (media, tuple(extra_funcs), tuple(extra_attrs))
    if key not in _SET:
        _SET[key] = sched.scheduling_set(media, extra_funcs, extra_attrs)
    return _SET[key]


class _AllLines:
    """every line of the traced files is a scheduling point"""

    def __init__(self, files):
        self.files = files

    def __contains__(self, key):
        return key[0] in self.files


_PKG_FILES = []


def _package_files():
    if not _PKG_FILES:
        for root, _dirs, fnames in os.walk(sched.package_dir()):
            _PKG_FILES.extend(os.path.join(root, fn) for fn in fnames if fn.endswith(".py"))
    return set(_PKG_FILES)


def run_one(name, prefix, solo=None):
    sc = get_scenario(name)
    if getattr(sc, "cold", False) and not _IN_CHILD[0]:
        return _run_one_forked(name, prefix, solo)
    if getattr(sc, "all_lines", False):
        # every line of every *stateful* file: a file in which the AST scan finds a module-level mutable, a lazily created
        # singleton or a `global` statement (recomputed from the working tree, so a file that gains such state joins the set).
        # Files without any (the character-level parsers, 80 % of the executed lines) are pure functions of their arguments.
        files = get_set(True)[1]
        lines = _AllLines(files)
    else:
        lines, files, _ = get_set(sc.media, sc.extra_funcs, sc.extra_attrs)
    tasks = sc.setup()
    opfiles = [os.path.join(sched.package_dir(), *f.split("/")) for f in getattr(sc, "opcode_files", ())]
    if solo is not None:
        s = sched.Scheduler([tasks[solo]], [], lines, files, opcode_files=opfiles, id_prefixes=[chr(ord("b") + solo)])
    else:
        s = sched.Scheduler(tasks, prefix, lines, files, opcode_files=opfiles)
    x = s.run()
    x.after = sc.after()
    return x


_IN_CHILD = [False]


def _run_one_forked(name, prefix, solo):
    """the execution runs in a forked child (cold library state); the Execution comes back pickled"""
    import pickle

    r, w = os.pipe()
    pid = os.fork()
    if pid == 0:
        code = 0
        try:
            os.close(r)
            _IN_CHILD[0] = True
            try:
                x = run_one(name, prefix, solo)
                payload = ("ok", x.choices, [(p.n_enabled, p.running_enabled, p.loc, p.tid) for p in x.points], x.results, x.deadlock,
                           x.npoints_total, x.after)
            except BaseException as e:  # noqa
                payload = ("exc", type(e).__name__, str(e)[:500])
            with os.fdopen(w, "wb") as f:
                pickle.dump(payload, f)
        except BaseException:  # noqa
            code = 3
        finally:
            os._exit(code)
    os.close(w)
    import select
    import signal

    data = b""
    with os.fdopen(r, "rb") as f:
        while True:
            ready, _, _ = select.select([f], [], [], 120)
            if not ready:
                os.kill(pid, signal.SIGKILL)
                os.waitpid(pid, 0)
                raise par.HarnessError(f"{name}: forked execution gave no answer within 120 s (prefix {prefix})")
            chunk = os.read(f.fileno(), 1 << 16)
            if not chunk:
                break
            data += chunk
    os.waitpid(pid, 0)
    if not data:
        raise par.HarnessError(f"{name}: forked execution died without an answer (prefix {prefix})")
    payload = pickle.loads(data)
    if payload[0] == "exc":
        raise par.HarnessError(f"{name}: forked execution raised {payload[1]}: {payload[2]}")
    x = sched.Execution()
    _, x.choices, pts, x.results, x.deadlock, x.npoints_total, x.after = payload
    x.points = [sched.Point(*p) for p in pts]
    return x


def solo_results(name):
    sc = get_scenario(name)
    n = len(sc.setup())
    out = []
    for i in range(n):
        x = run_one(name, [], solo=i)
        if x.after:
            raise par.HarnessError(f"{name}: solo run of task {i} leaves residue {x.after}")
        out.append(x.results[0])
    return out


def short_loc(loc):
    if isinstance(loc, tuple) and isinstance(loc[0], str) and loc[0].endswith(".py"):
        return os.path.relpath(loc[0], sched.package_dir()) + ":" + str(loc[1])
    return str(loc)


def check_execution(name, x, solo, failures, outcomes):
    problems = []
    if x.deadlock:
        problems.append(("deadlock", "deadlock: no enabled thread"))
    for i, r in enumerate(x.results):
        if r != solo[i]:
            problems.append((f"result:{i}:{r[0]}:{r[1] if r[0] == 'err' else ''}", f"thread {i} got {r}, alone it gets {solo[i]}"))
    for p in x.after:
        problems.append(("after:" + p.split(":")[0][:40], p))
    outcomes.add(repr(x.results))
    if problems and len(failures) < 5:
        sites = sorted(set(short_loc(l) for l in x.preemption_sites()))
        for clause, text in problems[:2]:
            failures.append((f"{name}:{clause}:{'|'.join(sites)}", f"{name}: {text}; preemptions at {sites}",
                             {"scenario": name, "choices": list(x.choices), "preemption_sites": sites}))


def subtree_task(arg):
    """explore the subtree below one deviation prefix"""
    name, prefix, bound, solo = arg
    failures = []
    outcomes = set()
    ex = sched.Explorer(lambda p: run_one(name, p), lambda x: check_execution(name, x, solo, failures, outcomes), bound)
    ex.explore(prefix)
    return name, ex.executions, ex.transitions, ex.points_max, failures, outcomes


def explore_scenario(name, bound):
    solo = solo_results(name)
    # determinism self-test: the default schedule twice
    x1 = run_one(name, [])
    x2 = run_one(name, [])
    sig = lambda x: ([(p.loc, p.n_enabled) for p in x.points], x.results)  # noqa: E731
    if sig(x1) != sig(x2):
        raise par.HarnessError(f"{name}: the same schedule gave two different executions")
    ex = sched.Explorer(None, None, bound)
    failures = []
    outcomes = set()
    executions = 1
    transitions = x1.npoints_total
    points_max = len(x1.points)
    check_execution(name, x1, solo, failures, outcomes)
    # Sharding: every first deviation from the default schedule is one task - except the free (non-preemptive)
    # ones such as "start with the other thread", whose subtree is as large as the whole tree: those are
    # executed here and split once more.
    tasks = []
    n_first = 0
    for p in ex.first_level(x1):
        n_first += 1
        i = len(p) - 1
        free = not x1.points[i].running_enabled
        if not free:
            tasks.append((name, p, bound, solo))
            continue
        x = run_one(name, p)
        executions += 1
        transitions += x.npoints_total
        points_max = max(points_max, len(x.points))
        check_execution(name, x, solo, failures, outcomes)
        for q in ex.first_level(x, len(p)):
            tasks.append((name, q, bound, solo))
    results = par.run_tasks(subtree_task, tasks) if tasks else []
    for _, e, t, pm, f, o in results:
        executions += e
        transitions += t
        points_max = max(points_max, pm)
        failures.extend(f)
        outcomes |= o
    return {"executions": executions, "transitions": transitions, "points_max": points_max, "failures": failures,
            "outcomes": len(outcomes), "solo": solo, "first_level": n_first, "tasks": len(tasks)}


def run(ctx):
    ev = ctx.ev
    thorough = ctx.tier == "thorough"
    lines, files, shared = get_set()
    ev.rule = ("SCHED: all schedules of 2-3 real threads with <= k preemptions, scheduling point = every executed line in the scheduling set "
               "(AST scan of the working tree); non-trivial = executions with >= 1 preemption (all but the default schedule)")
    ev.extra["scheduling_set_lines"] = len(lines)
    ev.extra["shared_globals_found"] = shared
    only = os.environ.get("VERIF_C07_SCENARIOS")  # maintenance aid: comma separated name prefixes
    for name, cls in SCENARIOS.items():
        if only and not any(name.startswith(o) for o in only.split(",")):
            continue
        bound = cls.bound_thorough if thorough else cls.bound_quick
        import time as _time

        _t0 = _time.time()
        r = explore_scenario(name, bound)
        r["wall_s"] = round(_time.time() - _t0, 1)
        ev.add_part(name, states=r["executions"], transitions=r["transitions"], validated=r["executions"], nontrivial=r["executions"] - 1,
                    observed_distinct=r["outcomes"], bound={"preemption_bound_completed": bound, "threads": len(r["solo"]), "points_max": r["points_max"], "wall_s": r["wall_s"]},
                    samples=[{"scenario": name, "solo_results": [list(map(str, s))[:2] for s in r["solo"]], "first_level_branches": r["first_level"]}])
        ctx.fnd.merge_reports(r["failures"])
    boot.set_components_setting(template_cache_size=128)
    boot.drop_template_cache()
    ev.assumptions = ["CPython with GIL; preemption only between source lines of the scheduling set (every explored schedule is realisable)",
                      "2-3 threads per scenario; scheduling set = AST scan (all lines of perfutil/provide.py, util/cache.py, cache.py, template.py + every line mentioning a module-level mutable global; the lazy media functions and shared attributes in the media scenarios)"]


def replay(ctx, case):
    name = case["scenario"]
    solo = solo_results(name)
    x = run_one(name, case["choices"])
    print("solo:   ", solo)
    print("results:", x.results)
    print("after:  ", x.after, "deadlock:", x.deadlock)
    print("preemptions at:", [short_loc(l) for l in x.preemption_sites()])
    return x.results == solo and not x.after and not x.deadlock
