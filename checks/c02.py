"""C02 - tag arguments reach Python with exactly the values they denote (ENUM engine).

Every case is an *abstract* argument list (mc/c02_gen.py).  It is printed in every layout
(compact / pythonic `, ` `: ` / padded / a space around every punctuation token / newline+tab
around every token / swapped quotes / trailing commas / explicit end tag / all at once, plus
"one-hot" layouts that put whitespace at exactly one kind of position), compiled and rendered
through two seams

    {% component "probe" <args> %}     component tag_fn: split + TagFormatter + re-join + parse_tag
    {% probe <args> %}                 @template_tag / BaseNode.render(context, *args, **kwargs)

against two context assignments, and what the receiver got is compared with

  * the reference evaluator: leaves through stock `django.template.base.FilterExpression`
    on the canonical leaf text, lists / dicts / `*` `**` `...` spreads / `prefix:key=`
    aggregation by Python semantics; documented-invalid forms -> TemplateSyntaxError;
  * the layout-metamorphic oracle: all layouts and both seams agree (type-exact).

Parts (quick / thorough)
  A leaf x frame   every leaf (27 atoms x 11 filter chains, nested-template atoms unfiltered: 227; + 34
                   nested-template strings with a quote character at the edge of their content; + 7
                   type-alphabet variables x 2 chains: 275) in every frame (33:
                   positional, kwarg, special / aggregate key, first / middle / last list entry,
                   dict key / value, spread operand at each level, depth-2 frames); main layouts +
                   one-hot layouts (thorough: also CRLF+tab one-hots)
                     quote-edge strings: for each outer quote kind q, content = <start> body <end>,
                       start / end in {nothing, the other quote kind bare, q backslash-escaped} (not both
                       nothing), body in {`{{ x }}` (a list), `{% lorem 1 w %}`}, + the other quote kind
                       in the middle only; they are text (several nodes), never the raw object, and keep
                       their outer quote kind in every layout (swapping it would change the value)
                     type alphabet: context values that are a Mapping but not a plain dict (ChainMap,
                       mappingproxy, UserDict; OrderedDict as dict-subclass control) or an Iterable but not
                       a list (tuple, a bare Iterable with nothing but __iter__, a dict-keys view), bare and
                       with `|default:""`; in every frame, i.e. passed through untouched as a value and as
                       operand of `...x` (Mapping -> keyword arguments incl. aggregate keys, any other
                       Iterable -> positional arguments), `*x` (Iterable -> list entries) and `**x`
                       (Mapping -> dict entries) at the first / last / only entry position
  B structure      all values with <= 4 / <= 5 nodes and depth <= 3 over 4 leaves, 2 keys, 1+1
                   spread variables (thorough: also <= 4 nodes over 6 leaves, 3 keys, 2+2 spread
                   variables); plus all values with <= 2 entries per container to depth 2 over 1 / 2
                   leaf fillers (thorough: also the 3-entry shapes: outer <= 2 x inner <= 3 and
                   outer 3 x inner <= 1)
  C arguments      all 1- and 2-argument lists over 105 items (positional values of <= 2 nodes,
                   10 keys incl. special / aggregate x 6 values, spreads of variables (list, dicts, tuple,
                   string, ChainMap, bare Iterable) and literals, the `only` flag); thorough: all
                   3-argument lists over the 36 smallest items
  D invalid        each documented-invalid production (spread inside a filter, `...` / `*` / `**`
                   with the wrong container, spread on a dict key / value position, `key=...x`,
                   `*x` / `**x` on the tag, aggregate + plain clash) at every container position of
                   small shapes (523 forms); TemplateSyntaxError in every layout through both seams

Excluded / agnostic corners (the statement does not fix them):
  * whitespace around `=` and after `...` (significant, as in stock Django / as documented);
    whitespace characters other than space, tab, CR, LF, FF;
  * filters applied to a nested-template string (`"{{ a }}"|upper`) and filter arguments that
    are nested-template strings; backslash escapes other than an escaped quote and an escaped
    backslash (both are in the alphabet); strings holding both quote characters unescaped;
  * a backslash-escaped quote inside a nested-template string (`"\\"{{ x }}\\""`): the docs say the text
    between the quotes is a template but not whether the escape is undone first, so both readings are
    accepted (backslash kept, as the tree does / bare quote, as in a plain string) - anything else is
    a violation, and all layouts must agree on one reading;
  * dict keys with a filter argument (`{"k"|default:"x": 1}`, documented as unsupported);
  * spreading a non-iterable into a list / a non-mapping into a dict / a mapping with
    non-string keys onto the tag; `*x` of a Mapping inside a list (Python would give the keys; the docs
    only speak of spreading lists there - not generated); objects that iterate only through
    `__getitem__` (not an `Iterable`); one-shot iterators / generators as context values (consumed by
    the first rendering); unhashable dict keys; keys starting with `:`;
  * spread of a translation string (`*_("t")`, rejected by design: "Cannot combine translation
    and spread syntax") and a dict-spread operand with a filter argument (`{**d|default:x}`:
    the `:` reads as the key colon, pinned by test_spread_with_colon_interpreted_as_key);
  * positional after keyword and the error class of repeated keywords (C11).  A keyword given
    twice is accepted under either reading: TypeError/TemplateSyntaxError (Python call) or the
    right-most value (docs of the spread operator) - anything else is a violation;
  * str vs SafeString of a value produced by a multi-node nested template (either accepted by
    the reference; the metamorphic oracle still requires all layouts to agree);
  * component *name* forms (`name=` kwarg), custom TagFormatters, `{# #}` inside a tag.
"""
from __future__ import annotations

import itertools

from mc.prog import strip_markers
from mc import boot, par
from mc import c02_gen as g

PID = "C02"
LEVEL = "model_checking"
DJANGO = {}

SENTINEL = "c02-outer"
_STATE = {}


# --------------------------------------------------------------------------- seams
def _setup():
    """Register the probe component and the probe tag once per process."""
    if _STATE:
        return _STATE
    from django.template import Library, engines
    from django_components import Component, template_tag
    from django_components.component_registry import registry

    rec = []

    class C02Probe(Component):
        template = "{{ c02_sentinel }}"

        def get_context_data(self, *args, **kwargs):
            rec.append((args, kwargs))
            return {}

    if "probe" in registry.all():
        registry.unregister("probe")
    registry.register("probe", C02Probe)

    lib = Library()

    @template_tag(lib, tag="probe", end_tag="endprobe", allowed_flags=["only"])
    def probe(node, context, *args, **kwargs):
        rec.append((args, kwargs, frozenset(k for k, v in node.flags.items() if v)))
        return ""

    engines["django"].engine.template_builtins.append(lib)
    boot.LOCMEM_TEMPLATES["c02inc.html"] = "INC"  # target of the nested `{% include %}` atoms
    _STATE.update(rec=rec, ref=g.Reference(), n=0)
    return _STATE


def execute(src, ctxs, seam):
    """-> tuple of observations, one per context: ('ok', args, kwargs, flags) | ('tse',) | ('exc', name, msg)"""
    from django.template import Context, Template, TemplateSyntaxError

    st = _setup()
    rec = st["rec"]
    st["n"] += 1
    if st["n"] % 2000 == 0:
        boot.clear_render_registries()
    try:
        tpl = Template(src)
    except TemplateSyntaxError:
        return (("tse",),) * len(ctxs)
    except Exception as e:  # noqa
        return (("exc", type(e).__name__, str(e)[:120]),) * len(ctxs)
    out = []
    for c in ctxs:
        del rec[:]
        try:
            text = tpl.render(Context({**c, "c02_sentinel": SENTINEL}))
        except TemplateSyntaxError:
            out.append(("tse",))
            continue
        except Exception as e:  # noqa
            out.append(("exc", type(e).__name__, str(e)[:120]))
            continue
        if len(rec) != 1:
            out.append(("exc", "ProbeNotCalledOnce", str(len(rec))))
            continue
        r = rec[0]
        if seam == "component":
            flags = frozenset() if SENTINEL in text else frozenset(["only"])
        else:
            flags = r[2]
        out.append(("ok", g.canon(r[0]), g.canon(r[1]), flags))
    return tuple(out)


_EMPTY_TPL = []


def bound_context(c):
    """a Context bound to an (empty) template of the default engine, as every Context is during a render: a failing
    lookup then evaluates to the engine's string_if_invalid (stock semantics) instead of crashing the reference"""
    from django.template import Context, Template

    if not _EMPTY_TPL:
        _EMPTY_TPL.append(Template(""))
    ctx = Context(c)
    ctx.template = _EMPTY_TPL[0]
    return ctx


def expected(args, ctxs):
    """-> per context: ('ok', args, kwargs, flags, alts) | ('tse',) | ('skip', why)"""
    Context = bound_context

    ref = _setup()["ref"]
    two_readings = ref.has_escaped_tpl(args)
    out = []
    for c in ctxs:
        try:
            a, k, f, alts = ref.arglist(args, Context(c))
            if two_readings:  # escaped quote inside a nested-template string: kept verbatim or unescaped
                ref.unescape_tpl = True
                try:
                    a2, k2, _, _ = ref.arglist(args, Context(c))
                finally:
                    ref.unescape_tpl = False
                alts = alts + (("or", g.canon(a2), g.canon(k2)),)
            out.append(("ok", g.canon(a), g.canon(k), f, alts))
        except g.Invalid:
            out.append(("tse",))
        except g.Skip as e:
            out.append(("skip", str(e)))
        except Exception as e:  # noqa - the stock evaluation itself fails: nothing to compare with
            out.append(("skip", "reference raises " + type(e).__name__))
    return out


def judge(exp, obs):
    """None when `obs` is what the statement requires, else a one-line explanation."""
    if exp[0] == "skip":
        return None
    if exp[0] == "tse":
        if obs[0] == "tse":
            return None
        return "documented-invalid form must raise TemplateSyntaxError, observed %s" % (_short(obs),)
    _, ea, ek, ef, alts = exp
    if obs[0] == "ok":
        readings = [(ea, ek)] + [(a[1], a[2]) for a in alts if a != "raises"]
        for ra, rk in readings:
            if g.matches(ra, obs[1]) and g.matches(rk, obs[2]) and ef == obs[3]:
                return None
        return "expected args=%s kwargs=%s flags=%s%s, observed args=%s kwargs=%s flags=%s" % (
            _show(ea), _show(ek), sorted(ef),
            "".join(" (or args=%s kwargs=%s)" % (_show(ra), _show(rk)) for ra, rk in readings[1:]),
            _show(obs[1]), _show(obs[2]), sorted(obs[3]))
    if "raises" in alts and (obs[0] == "tse" or (obs[0] == "exc" and obs[1] == "TypeError")):
        return None
    return "expected args=%s kwargs=%s, observed %s" % (_show(ea), _show(ek), _short(obs))


def _short(obs):
    if obs[0] == "ok":
        return "args=%s kwargs=%s flags=%s" % (_show(obs[1]), _show(obs[2]), sorted(obs[3]))
    if obs[0] == "tse":
        return "TemplateSyntaxError"
    return "%s(%s)" % (obs[1], obs[2])


def _show(c):
    """compact text of a canon() image"""
    if c[0] == "s":
        return "%s:%r" % (c[1], c[2])
    if c[0] == "c":
        return c[2]
    if c[0] == "l":
        return ("(%s)" if c[1] == "tuple" else "[%s]") % ", ".join(_show(x) for x in c[2])
    if c[0] == "d":
        return "{%s}" % ", ".join("%s: %s" % (_show(k), _show(v)) for k, v in c[2])
    return repr(c)


# --------------------------------------------------------------------------- one case
SEAMS = ("node", "component")


def check_case(agg, part, args, layouts, ctxs, marker):
    """Print `args` in every layout, execute through both seams, compare. Returns nothing."""
    exp = expected(args, ctxs)
    if all(e[0] == "skip" for e in exp):
        agg.extra["skipped_" + part] += 1
        return
    agg.states += 1
    for e in exp:
        if e[0] != "skip":
            label = e[0]
            if e[0] == "ok" and "raises" in e[4]:
                label = "ok-or-raises"
            elif e[0] == "ok" and e[4]:
                label = "ok-either-escape-reading"
            agg.expected[label] += 1
    canon_src = g.pr_args(args, g.CANON)
    seen = {}
    per_ctx_obs = [dict() for _ in ctxs]  # exact observation -> (layout, seam) of first occurrence
    reported = set()
    for lay in layouts:
        for seam in SEAMS:
            src = g.pr_template(seam, args, lay)
            if src in seen:
                continue
            seen[src] = lay.name
            obs = execute(src, ctxs, seam)
            for ci, (e, o) in enumerate(zip(exp, obs)):
                if e[0] == "skip":
                    continue
                agg.transitions += 1
                agg.validated += 1
                agg.observe(o)
                why = judge(e, o)
                if why is not None:
                    clause = "invalid-accepted" if e[0] == "tse" else ("raises" if o[0] != "ok" else "value")
                    if o[0] == "exc":
                        clause += ":" + o[1]
                    key = (clause, seam)
                    if key not in reported:
                        reported.add(key)
                        agg.fail(
                            "%s:%s:%s:%s" % (part, clause, seam, canon_src),
                            "%s through the %s seam, layout %s, context #%d: %s" % (src, seam, lay.name, ci, why),
                            {"args": g.thaw(args), "layout": _lay_json(lay), "seam": seam, "marker": marker, "source": src},
                        )
                per_ctx_obs[ci].setdefault(o, (lay, seam, src))
    # metamorphic oracle: every layout / seam gave the same observation
    for ci, d in enumerate(per_ctx_obs):
        if len(d) > 1 and exp[ci][0] != "skip" and not reported:
            if exp[ci][0] == "ok" and "raises" in exp[ci][4]:
                continue  # repeated keyword: either reading accepted per rendering
            (o1, (l1, s1, src1)), (o2, (l2, s2, src2)) = list(d.items())[:2]
            agg.fail(
                "%s:layout:%s" % (part, canon_src),
                "layouts disagree in context #%d: %s (%s) -> %s but %s (%s) -> %s" % (ci, src1, s1, _short(o1), src2, s2, _short(o2)),
                {"args": g.thaw(args), "layout": _lay_json(l2), "seam": s2, "marker": marker, "source": src2,
                 "other_layout": _lay_json(l1), "other_seam": s1},
            )
    if len(seen) > 2:
        agg.nontrivial += 1
    if agg.states % 997 == 1:
        agg.sample({"part": part, "args": canon_src, "renderings": len(seen),
                    "expected": [e[0] for e in exp]})


def _lay_json(lay):
    return {"name": lay.name, "ws": list(lay.ws), "sep": lay.sep, "quote": lay.quote, "trailing": lay.trailing,
            "closing": lay.closing}


def _lay_from_json(d):
    return g.Layout(d["name"], tuple(d["ws"]), d["sep"], d["quote"], bool(d["trailing"]), d["closing"])


# --------------------------------------------------------------------------- case streams
def stream_A(tier, marker):
    """leaf x frame"""
    from django.template import Context

    ref = _setup()["ref"]
    ctxs = [bound_context(c) for c in g.contexts(marker)]
    fr = g.frames()
    for lf in g.leaves_full(marker):
        # what the leaf is in each context decides which operand frames apply
        try:
            vals = [ref.leaf_value(lf, c) for c in ctxs]
        except Exception:  # noqa
            continue
        from collections.abc import Iterable, Mapping

        is_list = all(isinstance(v, Iterable) and not isinstance(v, Mapping) for v in vals)
        is_dict = all(isinstance(v, Mapping) for v in vals)
        keyable = all(f[1] is None for f in lf[2]) and lf[1][0] != "tpl" or (lf[1][0] == "tpl" and not lf[2])
        for name, (build, req) in fr.items():
            if req == "key" and not keyable:
                continue
            if req == "list" and not is_list:
                continue
            if req == "dict" and not is_dict:
                continue
            if req == "spreadable" and not (is_list or is_dict):
                continue
            yield ("A", build(lf))


def widths_values(leaves, keys, lsp, dsp, depth, width):
    """all values with <= width entries per container and depth <= depth"""
    if depth == 0:
        return list(leaves)
    inner = widths_values(leaves, keys, lsp, dsp, depth - 1, width)
    inner_lists = [v for v in inner if v[0] == "list"]
    inner_dicts = [v for v in inner if v[0] == "dict"]
    le = [("v", v) for v in inner] + [("sp", s) for s in lsp] + [("sp", v) for v in inner_lists]
    de = [("kv", k, v) for k in keys for v in inner] + [("sp", s) for s in dsp] + [("sp", v) for v in inner_dicts]
    out = list(leaves)
    for n in range(width + 1):
        for es in itertools.product(le, repeat=n):
            out.append(("list", es))
    for n in range(width + 1):
        for es in itertools.product(de, repeat=n):
            out.append(("dict", es))
    return out


def stream_B(tier, marker):
    alpha = g.struct_alphabet("quick", marker)
    n_quick = 5 if tier == "thorough" else 4
    en = g.StructEnum(alpha, 3)
    for v in en.upto(n_quick):
        yield ("B", (("kw", "a", v),))
    if tier == "thorough":
        alpha_t = g.struct_alphabet("thorough", marker)
        en_t = g.StructEnum(alpha_t, 3)
        quick_leaves = set(alpha.leaves) | set(alpha.keys) | set(alpha.list_spreads) | set(alpha.dict_spreads)
        for v in en_t.upto(4):
            if _only_uses(v, quick_leaves):
                continue  # already covered above
            yield ("B", (("kw", "a", v),))
    # per-container bound (DESIGN): <= 2 entries per container, depth 2
    one, k, x, d = g.leaf(g.I(1)), g.leaf(g.S("k")), g.leaf(g.V("x")), g.leaf(g.V("d"))
    fill = [one] if tier == "quick" else [one, g.leaf(g.T("t" + marker))]
    for v in widths_values(fill, [k], [x], [d], 2, 2):
        if v[0] != "leaf":
            yield ("Bw", (("pos", v),))
    if tier == "thorough":  # 3 entries per container: (outer <= 2, inner <= 3) and (outer 3, inner <= 1)
        seen = set()
        inner3 = widths_values([one], [k], [x], [d], 1, 3)
        inner1 = widths_values([one], [k], [x], [d], 1, 1)
        for v in itertools.chain(_outer(inner3, k, x, d, (0, 1, 2)), _outer(inner1, k, x, d, (3,))):
            if _max_width(v) == 3 and v not in seen:
                seen.add(v)
                yield ("Bw", (("pos", v),))


def _outer(inner, k, x, d, widths):
    """containers whose entries are drawn from `inner` (values of depth <= 1)"""
    le = [("v", v) for v in inner] + [("sp", x)] + [("sp", v) for v in inner if v[0] == "list"]
    de = [("kv", k, v) for v in inner] + [("sp", d)] + [("sp", v) for v in inner if v[0] == "dict"]
    for n in widths:
        for es in itertools.product(le, repeat=n):
            yield ("list", es)
        for es in itertools.product(de, repeat=n):
            yield ("dict", es)


def _max_width(v):
    if v[0] == "leaf":
        return 0
    m = len(v[1])
    for e in v[1]:
        for sub in e[1:]:
            if isinstance(sub, tuple):
                m = max(m, _max_width(sub))
    return m


def _only_uses(v, allowed):
    if v[0] == "leaf":
        return v in allowed
    for e in v[1]:
        for sub in e[1:]:
            if isinstance(sub, tuple) and not _only_uses(sub, allowed):
                return False
    return True


def arg_items(tier, marker):
    alpha = g.struct_alphabet("quick", marker)
    en = g.StructEnum(alpha, 1)
    vs1 = list(en.upto(1))  # 4 leaves, [], {}
    vs2 = list(en.upto(2))
    one = g.leaf(g.I(1))
    items = []
    for v in vs2:
        items.append(("pos", v))
    for key in g.KW_KEYS + g.AGG_KEYS + ("attrs",):
        for v in vs1:
            items.append(("kw", key, v))
    for v in (g.leaf(g.V("x")), g.leaf(g.V("d")), g.leaf(g.V("e")), g.leaf(g.V("y"), ("default", g.S(""))), g.leaf(g.V("s")),
              g.leaf(g.V("cm")), g.leaf(g.V("it"))):  # + a mapping that is not a dict, an iterable that is not a sequence
        items.append(("spread", v))
    for v in vs2:
        if v[0] in ("list", "dict"):
            items.append(("spread", v))
    items.append(("spread", ("dict", (("kv", g.leaf(g.S("a")), one), ("kv", g.leaf(g.S("attrs:class")), g.leaf(g.V("s")))))))
    items.append(("flag", "only"))
    return items


def stream_C(tier, marker):
    items = arg_items(tier, marker)
    for a in items:
        yield ("C", (a,))
    for a in items:
        for b in items:
            yield ("C", (a, b))
    if tier == "thorough":
        keep_vals = (g.leaf(g.I(1)), g.leaf(g.S("a b" + marker)))
        small = [it for it in items if _item_size(it) <= 1 and (it[0] != "kw" or it[2] in keep_vals)]
        for a in small:
            for b in small:
                for c in small:
                    yield ("C3", (a, b, c))


def _item_size(it):
    v = it[-1]
    if it[0] == "flag":
        return 1
    if v[0] == "leaf":
        return 1
    return 1 + len(v[1])


def stream_D(tier, marker):
    for args in g.invalid_sites(marker):
        yield ("D", args)


PART_LAYOUTS = {
    "A": "main+onehot",
    "B": "main",
    "Bw": "main",
    "C": "main",
    "C3": "main-lite",
    "D": "main+onehot",
}


def _layouts(kind, tier="thorough"):
    main = g.main_layouts()
    if kind == "main":
        return main
    if kind == "main-lite":
        return [lay for lay in main if lay.name in ("compact", "padded", "newline", "all")]
    return main + g.onehot_layouts(tier)


def all_cases(tier, marker):
    return itertools.chain(stream_A(tier, marker), stream_B(tier, marker), stream_C(tier, marker), stream_D(tier, marker))


def _worker_task(t):
    """worker w of W walks the same deterministic case stream and takes the indices i = w (mod W)"""
    w, W, (tier, marker) = t
    _setup()
    ctxs = g.contexts(marker)
    lay = {k: _layouts(v, tier) for k, v in PART_LAYOUTS.items()}
    aggs = {}
    for i, (part, args) in enumerate(all_cases(tier, marker)):
        if i % W != w:
            continue
        agg = aggs.get(part[0])
        if agg is None:
            agg = aggs[part[0]] = par.Agg()
        check_case(agg, part, args, lay[part], ctxs, marker)
    boot.clear_render_registries()
    return aggs


MARKERS = ["", "q", "7", "Zz"]


# --------------------------------------------------------------------------- part E
# "filter chains mean what they mean in a stock Django {{ }} expression" - *in that template*: the same
# argument text must resolve its filters against the libraries loaded by the template it is written in.
# All histories (<= 3 templates) over two {% load %}-able libraries that define the same filter names
# differently x 4 argument texts x both seams; oracle = stock {{ expr }} in the same template.
E_LIBS = ("verif_a", "verif_b")
E_EXPRS = ("price|money", "price|wrap", 'price|wrap:"+"', "price|money|upper")


def part_E(tier):
    import itertools

    from django.template import Context, Template

    st = _setup()
    rec = st["rec"]
    agg = par.Agg()
    depth = 3
    for hist in itertools.chain.from_iterable(itertools.product(E_LIBS, repeat=d) for d in range(1, depth + 1)):
        for expr in E_EXPRS:
            for seam in ("component", "node"):
                agg.states += 1
                agg.nontrivial += 1 if len(set(hist)) > 1 else 0
                for step, lib in enumerate(hist):
                    want = Template("{%% load %s %%}{{ %s }}" % (lib, expr)).render(Context({"price": 5}))
                    tag = ('{%% component "probe" %s / %%}' % expr) if seam == "component" else ("{%% probe %s / %%}" % expr)
                    del rec[:]
                    try:
                        Template("{%% load %s %%}%s" % (lib, tag)).render(Context({"price": 5}))
                        got = str(rec[0][0][0]) if rec and rec[0][0] else "<nothing received>"
                    except Exception as e:  # noqa
                        got = "%s: %s" % (type(e).__name__, str(e)[:100])
                    agg.transitions += 1
                    agg.validated += 1
                    agg.observe((lib, expr, got))
                    agg.expected[lib] += 1
                    if got != want:
                        agg.fail("E:filter-resolution:%s:%s:step%d-of-%s" % (seam, expr, step, "+".join(hist)),
                                 "[%s seam] template #%d of the history %s: `%s` after {%% load %s %%} received %r, stock {{ %s }} in the same template gives %r"
                                 % (seam, step + 1, list(hist), expr, lib, got, expr, want),
                                 {"part": "E", "history": list(hist), "expr": expr, "seam": seam})
                        break
    boot.clear_render_registries()
    return agg


# --------------------------------------------------------------------------- part F: words that are also flags
F_VALUE_FORMS = ("k=%s", "k=%s|default:'z'", "k=[%s]", 'k={"q": %s}', "k=[1, %s]", 'data-x=%s', "at:k=%s")


def part_F(tier):
    """A keyword argument whose VALUE is spelled like one of the tag's flags (`mode=only`, `data=default`) denotes the
    variable of that name; only a bare word is the flag.  Seams: component tag / plain node (flag `only`), slot tag
    (flags `default`, `required`; the value is observed as slot data in a fill).  Full product value form x genuine flag
    absent / before / after x variable bound / unbound."""
    from django.template import Context, Template

    from django_components import Component
    from django_components.component_registry import registry

    st = _setup()
    rec = st["rec"]
    agg = par.Agg()

    for seam in ("component", "node"):
        for form in F_VALUE_FORMS:
            for flag_pos in ("none", "before", "after"):
                for bound in (True, False):
                    w = "only"
                    arg = form % w
                    words = {"none": [arg], "before": [w, arg], "after": [arg, w]}[flag_pos]
                    src = ('{%% component "probe" %s / %%}' if seam == "component" else "{%% probe %s / %%}") % " ".join(words)
                    ctx = {"only": "W1"} if bound else {}
                    # reference: the same words with the variable renamed to a word that is no flag
                    ref_words = [x.replace("%s" % w, "c02_flagvar") if x is arg else x for x in words]
                    ref_src = ('{%% component "probe" %s / %%}' if seam == "component" else "{%% probe %s / %%}") % " ".join(ref_words)
                    ref_ctx = {"c02_flagvar": "W1"} if bound else {}
                    agg.states += 1
                    agg.nontrivial += 1
                    got = execute(src, [ctx], seam)[0]
                    ref = execute(ref_src, [ref_ctx], seam)[0]
                    agg.transitions += 2
                    agg.validated += 1
                    agg.observe(got)
                    agg.expected["flag-" + flag_pos] += 1
                    if ref[0] != "ok":
                        raise par.HarnessError("part F reference rendering failed: %s -> %r" % (ref_src, ref))
                    if got != ref:
                        agg.fail("F:flag-word-as-value:%s:%s:%s" % (seam, form, flag_pos),
                                 "[%s seam] `%s` with %s: received %s; the same tag with the variable called `c02_flagvar` receives %s"
                                 % (seam, src, ctx, _short(got), _short(ref)), {"part": "F", "src": src, "ctx": ctx, "ref_src": ref_src, "ref_ctx": ref_ctx, "seam": seam})
    # slot tag: flags `default` / `required`
    for w in ("default", "required"):
        for form in F_VALUE_FORMS[:5]:
            for bound in (True, False):
                name = "c02f_%s_%d_%d" % (w, F_VALUE_FORMS.index(form), bound)
                tpl = '{%% slot "s" %s %%}D{%% endslot %%}|{%% slot "t" default %%}T{%% endslot %%}' % (form % w)
                cls = type("C02F_" + name, (Component,), {"__module__": "verif_c02f", "template": tpl,
                                                          "get_context_data": lambda self, **kw: dict(kw)})
                if name in registry.all():
                    registry.unregister(name)
                registry.register(name, cls)
                kw = (' %s="W1"' % w) if bound else ""
                pages = {
                    # the value arrives as slot data; the slot is NOT `required` (no fill given -> default content) and NOT `default`
                    "filled": '{%% component "%s"%s %%}{%% fill "s" data="dd" %%}[{{ dd.k }}]{%% endfill %%}{%% endcomponent %%}' % (name, kw),
                    "unfilled": '{%% component "%s"%s / %%}' % (name, kw),
                    "implicit": '{%% component "%s"%s %%}I{%% endcomponent %%}' % (name, kw),
                }
                v = "W1" if bound else ""
                value = {"k=%s": v, "k=%s|default:'z'": v or "z", "k=[%s]": [v], 'k={"q": %s}': {"q": v}, "k=[1, %s]": [1, v]}[form]
                body = "[%s]" % (value,)
                want = {"filled": body + "|T", "unfilled": "D|T", "implicit": "D|I"}
                for pname, page in pages.items():
                    agg.states += 1
                    agg.nontrivial += 1
                    agg.transitions += 1
                    agg.validated += 1
                    try:
                        got = strip_markers(Template(page).render(Context({})))
                        import html as _html

                        got = _html.unescape(got)
                    except Exception as e:  # noqa
                        got = "%s: %s" % (type(e).__name__, str(e)[:120])
                    agg.observe(got)
                    agg.expected["slot-" + pname] += 1
                    if got != want[pname]:
                        agg.fail("F:flag-word-as-value:slot:%s:%s:%s" % (w, form, pname),
                                 "component template `%s`, page `%s`: rendered %r, expected %r (the keyword `%s` is slot data, not the `%s` flag)"
                                 % (tpl, page, got, want[pname], form % w, w), {"part": "F", "slot_template": tpl, "page": page, "want": want[pname], "name": name})
                registry.unregister(name)
    boot.clear_render_registries()
    return agg


# --------------------------------------------------------------------------- part G: every render receives fresh values
G_FORMS = ('a=[1, "x"]', 'a={"k": 1}', 'a=[[1], {"k": [2]}]', 'a=[1, v]', 'a=[*[1, 2]]', 'a={**{"k": [1]}}', '...{"k": [1]}', '[1, 2] {"k": []}', 'a=[_("t")]', "a=[]", "a={}")


def _mutate(x):
    if isinstance(x, list):
        for y in x:
            _mutate(y)
        x.append("MUT")
    elif isinstance(x, dict):
        for y in list(x.values()):
            _mutate(y)
        x["MUT"] = 1


def part_G(tier):
    """A list / dict literal denotes a NEW value every time the tag is rendered: the receiver of the first render may do to its
    arguments what it likes (here: it appends to every list and adds a key to every dict it received), the second render of the same
    tag node receives what the literal says.  Routes: the same Template object rendered twice; one template, the tag in a loop of 2."""
    import copy

    from django.template import Context, Template

    st = _setup()
    rec = st["rec"]
    agg = par.Agg()
    for seam in ("component", "node"):
        for form in G_FORMS:
            for route in ("template-twice", "loop"):
                tag = ('{%% component "probe" %s / %%}' if seam == "component" else "{%% probe %s / %%}") % form
                src = tag if route == "template-twice" else "{% for q in two %}" + tag + "{% endfor %}"
                agg.states += 1
                agg.nontrivial += 1
                agg.expected[route] += 1
                got = []
                try:
                    t = Template(src)
                    for _ in range(2 if route == "template-twice" else 1):
                        del rec[:]
                        t.render(Context({"v": "V", "two": [1, 2], "c02_sentinel": SENTINEL}))
                        for r in rec:
                            got.append(copy.deepcopy((r[0], r[1])))
                            _mutate(list(r[0]))
                            _mutate(r[1])
                        agg.transitions += 1
                except Exception as e:  # noqa
                    got = ["%s: %s" % (type(e).__name__, str(e)[:100])]
                agg.validated += 1
                agg.observe((seam, form, route, repr(got)[:200]))
                ok = len(got) == 2 and got[0] == got[1] and "MUT" not in repr(got)
                if not ok:
                    agg.fail("G:stale-literal:%s:%s:%s" % (seam, form, route),
                             "[%s seam, %s] `%s`: the two renders received %r - a receiver that changed its arguments in the first render must not be seen by the second"
                             % (seam, route, src, got), {"part": "G", "src": src, "seam": seam, "route": route})
    boot.clear_render_registries()
    return agg


def run(ctx):
    ev, fnd = ctx.ev, ctx.fnd
    marker = MARKERS[ctx.seed % len(MARKERS)]
    _setup()
    _selftest(ctx.tier, marker)
    e = part_E(ctx.tier)
    ev.add_part("filter_resolution_per_template", states=e.states, transitions=e.transitions, validated=e.validated, nontrivial=e.nontrivial,
                observed_distinct=len(e.observed), expected=e.expected, bound={"libraries": 2, "history_depth": 3, "expressions": len(E_EXPRS), "seams": 2},
                samples=[{"history": ["verif_a", "verif_b"], "expr": E_EXPRS[0], "seam": "component"}])
    fnd.merge_reports(e.failures[:20])
    f = part_F(ctx.tier)
    ev.add_part("flag_words_as_values", states=f.states, transitions=f.transitions, validated=f.validated, nontrivial=f.nontrivial,
                observed_distinct=len(f.observed), expected=f.expected, bound={"value_forms": list(F_VALUE_FORMS), "flags": ["only", "default", "required"], "seams": ["component", "node", "slot"]},
                samples=[{"src": '{% component "probe" k=only only / %}', "ctx": {"only": "W1"}}])
    fnd.merge_reports(f.failures[:20])
    gg = part_G(ctx.tier)
    ev.add_part("fresh_values_per_render", states=gg.states, transitions=gg.transitions, validated=gg.validated, nontrivial=gg.nontrivial,
                observed_distinct=len(gg.observed), expected=gg.expected, bound={"forms": list(G_FORMS), "routes": ["template-twice", "loop"], "seams": ["component", "node"]},
                samples=[{"src": '{% component "probe" a=[1, "x"] / %}', "expect": "both renders receive [1, 'x']"}])
    fnd.merge_reports(gg.failures[:20])
    W = par.NWORKERS
    results = par.run_tasks(_worker_task, [(w, W, (ctx.tier, marker)) for w in range(W)])
    total = {}
    for parts in results:
        for k, a in parts.items():
            total.setdefault(k, par.Agg()).merge(a)
    names = {"A": "leaf_x_frame", "B": "structure", "C": "argument_lists", "D": "documented_invalid"}
    bounds = {
        "A": {"leaves": len(g.leaves_full(marker)), "frames": len(g.frames()), "layouts": len(_layouts("main+onehot", ctx.tier)), "seams": 2, "contexts": 2,
              "quote_edge_nested_strings": len(g.tpl_quote_atoms(marker)), "spread_operand_types": list(g.TYPE_VARS)},
        "B": {"max_nodes": 5 if ctx.tier == "thorough" else 4, "max_depth": 3, "per_container": {"entries": 3 if ctx.tier == "thorough" else 2, "depth": 2},
              "layouts": len(_layouts("main")), "seams": 2, "contexts": 2},
        "C": {"max_arguments": 3 if ctx.tier == "thorough" else 2, "items": len(arg_items(ctx.tier, marker)), "layouts": len(_layouts("main"))},
        "D": {"forms": len(g.invalid_sites(marker)), "layouts": len(_layouts("main+onehot", ctx.tier)), "seams": 2},
    }
    for k in ("A", "B", "C", "D"):
        a = total.get(k) or par.Agg()
        ev.add_part(names[k], states=a.states, transitions=a.transitions, validated=a.validated, nontrivial=a.nontrivial,
                    observed_distinct=len(a.observed), expected=a.expected, bound=bounds[k], samples=a.samples[:3],
                    extra={"skipped_outside_statement": sum(v for kk, v in a.extra.items() if kk.startswith("skipped_"))})
        fnd.merge_reports(a.failures)
        if a.failures_dropped:
            ev.caps_hit.append("%s: %d further failures not recorded" % (names[k], a.failures_dropped))
    ev.rule = (
        "ENUM: a state is an abstract argument list; a transition is one compile+render of one textual rendering "
        "(layout x seam x context) whose received (args, kwargs, flags) is compared with the reference evaluator; "
        "non-trivial = argument lists with more than two textually distinct renderings"
    )
    ev.assumptions = [
        "value alphabet and layouts as listed in the module docstring; both seams receive *args/**kwargs",
        "leaves are judged by stock FilterExpression on the canonical leaf text (default filters only)",
        "corners the statement leaves open are skipped or accepted under either reading (module docstring)",
    ]
    boot.clear_render_registries()


def _selftest(tier, marker):
    """DESIGN 1.3: the first cases give identical observations when executed twice."""
    ctxs = g.contexts(marker)
    lay = g.main_layouts()[1]
    for part, args in itertools.islice(all_cases(tier, marker), 50):
        for seam in SEAMS:
            src = g.pr_template(seam, args, lay)
            if execute(src, ctxs, seam) != execute(src, ctxs, seam):
                raise par.HarnessError("non-deterministic observation for " + src)


def replay(ctx, case):
    if case.get("part") == "G":
        _setup()
        gg = part_G("quick")
        for x in gg.failures[:8]:
            print(x[1])
        return not gg.failures
    if case.get("part") == "F":
        _setup()
        f = part_F("quick")
        for x in f.failures[:8]:
            print(x[1])
        return not f.failures
    if case.get("part") == "E":
        _setup()
        e = part_E("quick")
        for f in e.failures[:5]:
            print(f[1])
        return not e.failures
    _setup()
    args = g.freeze(case["args"])
    marker = case.get("marker", "")
    ctxs = g.contexts(marker)
    exp = expected(args, ctxs)
    ok = True
    todo = [(_lay_from_json(case["layout"]), case["seam"])]
    if "other_layout" in case:
        todo.append((_lay_from_json(case["other_layout"]), case["other_seam"]))
    seen = []
    for lay, seam in todo:
        src = g.pr_template(seam, args, lay)
        obs = execute(src, ctxs, seam)
        seen.append(obs)
        print("source  :", repr(src))
        for ci, (e, o) in enumerate(zip(exp, obs)):
            why = judge(e, o)
            print("  ctx #%d expected %s" % (ci, e[0] if e[0] != "ok" else "args=%s kwargs=%s flags=%s" % (_show(e[1]), _show(e[2]), sorted(e[3]))))
            print("         observed %s" % _short(o))
            if why:
                print("         MISMATCH:", why)
                ok = False
    if len(seen) == 2 and seen[0] != seen[1]:
        print("layouts disagree")
        ok = False
    return ok
