"""C10 part (b): Django's composition tags compose with components by inlining.

For every program of the C01 slot/fill profile (<= N nodes) and every *split* of one of its
templates T (the page or a component template): a contiguous region R of any nodelist of T
(top level, slot bodies, loop/if bodies, implicit component bodies, fill bodies) is moved
  V1  into `{% block r %}R{% endblock %}` of a base template; child = `{% extends base %}`
  V2  into the child:  base block holds other text, child overrides it with R
  V3  half and half:   base block holds R1, child block = `{{ block.super }}` + R2
  V4  into an included template: T[R := {% include "inc" %}], inc = R
  V5  block.super inside a component body: base block holds a text, the child overrides it with R in which
      `{{ block.super }}` is placed at the start of the first component body (reference: R with that text there)
and the family must render exactly like the unsplit program (same output / same error class),
in both context_behavior modes.  The unsplit program's own correctness is C01's business:
this is a differential oracle with no hand-written expected value.
Thorough additionally splits two templates of the same program.
Excluded: regions that contain {% fill %} tags of a component body (a block around fill tags);
whitespace-only component bodies (the "no fill" rule looks at text nodes, a block or include
holding only whitespace is a different - undocumented - corner).
"""
from __future__ import annotations

import json

from mc import boot, par
from mc.prog import CompSpec, Harness, Program, print_nodes, strip_markers
from mc.proggen import Gen, Profile
from mc.progrun import core_of, prog_size

PAGE_CTX = {"t": True, "f": False}
DATA = {"t": ("const", True), "f": ("const", False)}
CORE = dict(use_if=False, use_alias=False, fill_text_mix=False, use_ws_body=False, slot_flags=("", "d"))


def make_spec(name, template):
    return CompSpec(name, template, DATA, ())


def bounds(tier):
    if tier == "thorough":
        return {"N": 4, "profile": {"use_ws_body": False}, "double": 3, "dyn_max": 4}
    return {"N": 3, "profile": {"use_ws_body": False}, "N_core": 4, "double": 0, "dyn_max": 3}


def nodelists(nodes, path=()):
    """yields (path, nodelist) for every nodelist inside `nodes` (path = indices to reach it)"""
    yield path, nodes
    for i, n in enumerate(nodes):
        k = n[0]
        if k == "If":
            yield from nodelists(n[2], path + ((i, 2),))
        elif k in ("For",):
            yield from nodelists(n[3], path + ((i, 3),))
        elif k in ("Slot", "Fill"):
            yield from nodelists(n[4], path + ((i, 4),))
        elif k == "Comp" and n[4]:
            yield from nodelists(n[4], path + ((i, 4),))


def replace_at(nodes, path, i, j, new_node):
    """copy of `nodes` in which nodelist at `path` has [i:j) replaced by new_node"""
    if not path:
        return nodes[:i] + (new_node,) + nodes[j:]
    (idx, field), rest = path[0], path[1:]
    n = nodes[idx]
    child = replace_at(n[field], rest, i, j, new_node)
    n2 = n[:field] + (child,) + n[field + 1:]
    return nodes[:idx] + (n2,) + nodes[idx + 1:]


def insert_in_first_body(region, node):
    """region with `node` inserted at the start of the first component body (implicit body, or the first fill's body)"""
    for idx, n in enumerate(region):
        if n[0] == "Comp" and n[4]:
            body = n[4]
            if any(b[0] == "Fill" for b in body):
                for bi, b in enumerate(body):
                    if b[0] == "Fill":
                        body2 = body[:bi] + (b[:4] + ((node,) + b[4],),) + body[bi + 1:]
                        break
            elif any(b[0] in ("If", "For") for b in body) and has_fill(body):
                return None
            else:
                body2 = (node,) + body
            return region[:idx] + (n[:4] + (body2,),) + region[idx + 1:]
    return None


def has_fill(region):
    return any(n[0] == "Fill" or (n[0] in ("If",) and has_fill(n[2])) or (n[0] == "For" and has_fill(n[3])) for n in region)


def splits(template, dynamic=False):
    """yields (variant, main_nodes, {locmem name: source}) for every split of one template.
    main_nodes: the template that replaces T (a tuple of nodes, possibly a single Raw node)"""
    for path, nl in nodelists(template):
        for i in range(len(nl)):
            for j in range(i + 1, len(nl) + 1):
                R = nl[i:j]
                if has_fill(R):
                    continue
                r_src = print_nodes(R, dynamic)
                # V1: block in base holds R, child overrides nothing
                base = replace_at(template, path, i, j, ("Raw", "{% block r %}" + r_src + "{% endblock %}"))
                yield "V1", (("Raw", '{% extends "c10base" %}'),), {"c10base": print_nodes(base, dynamic)}
                # V2: override
                base2 = replace_at(template, path, i, j, ("Raw", "{% block r %}XX {% endblock %}"))
                yield "V2", (("Raw", '{% extends "c10base" %}{% block r %}' + r_src + "{% endblock %}"),), {"c10base": print_nodes(base2, dynamic)}
                # V3: block.super
                k = 1 if len(R) >= 2 else len(R)
                r1, r2 = print_nodes(R[:k], dynamic), print_nodes(R[k:], dynamic)
                base3 = replace_at(template, path, i, j, ("Raw", "{% block r %}" + r1 + "{% endblock %}"))
                yield "V3", (("Raw", '{% extends "c10base" %}{% block r %}{{ block.super }}' + r2 + "{% endblock %}"),), {"c10base": print_nodes(base3, dynamic)}
                # V6: block.super LAST - the child's block renders the first part itself and then {{ block.super }} (the base block
                # holds the last node): a component (with fills) rendered earlier in the same block must not disturb it
                if len(R) >= 2:
                    r1b, r2b = print_nodes(R[:-1], dynamic), print_nodes(R[-1:], dynamic)
                    base6 = replace_at(template, path, i, j, ("Raw", "{% block r %}" + r2b + "{% endblock %}"))
                    yield "V6", (("Raw", '{% extends "c10base" %}{% block r %}' + r1b + "{{ block.super }}{% endblock %}"),), {"c10base": print_nodes(base6, dynamic)}
                # V4: include
                main4 = replace_at(template, path, i, j, ("Raw", '{% include "c10inc" %}'))
                yield "V4", main4, {"c10inc": r_src}
                # V5: {{ block.super }} *inside the body of a component* of the overriding block: the base block holds the
                # text "SS "; the child overrides it with R in which {{ block.super }} is inserted at the start of the first
                # component body; flattened form = R with the text "SS " at that place
                r_super, r_flat = insert_in_first_body(R, ("Raw", "{{ block.super }}")), insert_in_first_body(R, ("T", "SS "))
                if r_super is not None:
                    base5 = replace_at(template, path, i, j, ("Raw", "{% block r %}SS {% endblock %}"))
                    flat5 = replace_at(template, path, i, j, ("Raw", print_nodes(r_flat, dynamic)))
                    yield "V5", (("Raw", '{% extends "c10base" %}{% block r %}' + print_nodes(r_super, dynamic) + "{% endblock %}"),), {"c10base": print_nodes(base5, dynamic), "__flat__": flat5}


def render(h, prog, locmem, dynamic=False):
    boot.LOCMEM_TEMPLATES.clear()
    boot.LOCMEM_TEMPLATES.update(locmem)
    h.install(prog, dynamic=dynamic)
    obs = h.render_page(prog, dynamic=dynamic)
    boot.clear_render_registries()
    if obs[0] == "ok":
        return ("ok", strip_markers(obs[1]))
    return obs[:2]


def rename(locmem, suffix):
    """second split of a program uses its own template names"""
    out = {}
    for k, v in locmem.items():
        out[k + suffix] = v
    return out


def families(prog, double, dynamic=False):
    """yields (description, split program, locmem templates)"""
    targets = [("page", prog.page)] + [(n, c.template) for n, c in prog.comps.items()]
    singles = []
    for tname, tpl in targets:
        if not tpl:
            continue
        for variant, main, locmem in splits(tpl, dynamic):
            flat_tpl = locmem.pop("__flat__", None)

            def with_tpl(t):
                if tname == "page":
                    return Program(t, prog.comps, prog.ctx)
                comps = dict(prog.comps)
                comps[tname] = CompSpec(tname, t, prog.comps[tname].data, prog.comps[tname].probes)
                return Program(prog.page, comps, prog.ctx)

            p2 = with_tpl(main)
            if flat_tpl is not None:
                # the reference is not the original program but its variant with the text in place of block.super
                yield f"{tname}:{variant}", p2, locmem, with_tpl(flat_tpl)
                continue
            singles.append((tname, variant, main, locmem))
            yield f"{tname}:{variant}", p2, locmem, None
    if double:
        # two different templates of the same program split at once (own template names)
        for a in range(len(singles)):
            ta, va, maina, la = singles[a]
            for b in range(a + 1, len(singles)):
                tb, vb, mainb, lb = singles[b]
                if ta == tb or va != vb or va not in ("V2", "V3"):
                    continue
                lb2 = {k + "2": v for k, v in lb.items()}
                mainb2 = tuple(("Raw", n[1].replace('"c10base"', '"c10base2"').replace('"c10inc"', '"c10inc2"')) if n[0] == "Raw" else n for n in mainb)
                comps = dict(prog.comps)
                page = prog.page
                for tname, main in ((ta, maina), (tb, mainb2)):
                    if tname == "page":
                        page = main
                    else:
                        comps[tname] = CompSpec(tname, main, prog.comps[tname].data, prog.comps[tname].probes)
                yield f"{ta}+{tb}:{va}", Program(page, comps, prog.ctx), {**la, **lb2}, None


PREDICATE_FINDING = "predicate:extends-based-component-nested-in-extends-based-component"


def nested_split_components(prog, mode, split_names):
    """trigger predicate of the known finding (DESIGN 1.6): in the flattened program some instance of a
    split component is rendered inside the output of an instance of a split component"""
    from mc.progrun import model_outcome

    exp, it = model_outcome(prog, mode)  # nesting is recorded up to the point of a model error, too
    return any(a in split_names and b in split_names for a, b in it.nested_pairs)


def classify(desc, prog, mode):
    """identity of a composition failure.  Failures of the block-override variants (V2/V3) on component
    templates whose component is nested inside (another) split component share ONE identity - the trigger
    predicate of the known finding; everything else is identified by split + program core."""
    targets, variant = desc.split(":")
    names = set(t for t in targets.split("+") if t != "page")
    if variant in ("V2", "V3") and names and nested_split_components(prog, mode, names):
        return f"{mode}:{PREDICATE_FINDING}:{variant}"
    return f"{mode}:{desc}:{core_of(prog)}"


def worker(w, W, payload):
    pfkw, N, skip, mode, (double, dyn_max) = payload
    boot.set_components_setting(context_behavior=mode)
    gen = Gen(Profile(**pfkw))
    h = Harness()
    agg = par.Agg()
    i = -1
    for prog in gen.programs(N, make_spec, PAGE_CTX):
        i += 1
        if i % W != w:
            continue
        size_ = prog_size(prog)
        if skip and size_ <= skip:
            continue
        nfam = 0
        for dyn in ((False, True) if size_ <= dyn_max else (False,)):
          flat = render(h, prog, {}, dyn)
          agg.transitions += 1
          for desc, p2, locmem, ref_prog in families(prog, double and size_ <= double and not dyn, dyn):
            if dyn:
                desc = desc.replace(":", ":dynamic-", 1)
            nfam += 1
            agg.states += 1
            flat_ = flat if ref_prog is None else render(h, ref_prog, {}, dyn)
            got = render(h, p2, locmem, dyn)
            agg.transitions += 1
            agg.validated += 1
            agg.expected[desc.split(":")[-1]] += 1
            if got[0] == "ok":
                agg.observe(got[1])
            if got != flat_:
                ident = classify(desc, prog, mode)
                if PREDICATE_FINDING in ident:
                    agg.extra["attributed_by_predicate"] += 1
                agg.fail(ident,
                         f"[{mode}] split {desc}: family renders {got}, the flattened program renders {flat_}",
                         {"part": "compose", "mode": mode, "desc": desc, "flat": prog.to_json(mode), "split": p2.to_json(mode), "templates": locmem,
                          "spec": {"page": prog.page, "comps": {n: c.template for n, c in prog.comps.items()}}})
            if agg.states == 30 and w == 2:
                agg.sample({"mode": mode, "split": desc, "program": p2.to_json(mode), "templates": locmem, "flattened": prog.to_json(mode)})
        if nfam:
            agg.nontrivial += nfam
    boot.LOCMEM_TEMPLATES.clear()
    h.uninstall()
    return agg


def run_part(ctx):
    ev = ctx.ev
    b = bounds(ctx.tier)
    parts = [("full", b["profile"], b["N"], 0)]
    if b.get("N_core"):
        parts.append(("core", CORE, b["N_core"], b["N"]))
    for label_, pfkw, N, skip in parts:
        for mode in ("django", "isolated"):
            agg = par.run_sharded(worker, (pfkw, N, skip, mode, (b["double"], b.get("dyn_max", 0))))
            ev.add_part(f"compose_{label_}_N{N}_{mode}", states=agg.states, transitions=agg.transitions, validated=agg.validated, nontrivial=agg.nontrivial,
                        observed_distinct=len(agg.observed), expected=agg.expected, bound={"N": N, "profile": label_, "double_splits_up_to_size": b["double"]},
                        samples=agg.samples[:1])
            ctx.fnd.merge_reports(sorted(agg.failures, key=lambda f: (len(json.dumps(f[2]["split"])), f[0])))
            if agg.failures_dropped:
                ev.extra["failures_dropped"] = ev.extra.get("failures_dropped", 0) + agg.failures_dropped
    boot.set_components_setting(context_behavior="django")


def replay(ctx, case):
    from mc.progrun import retuple

    mode = case["mode"]
    boot.set_components_setting(context_behavior=mode)
    spec = case["spec"]
    prog = Program(retuple(spec["page"]), {n: make_spec(n, retuple(t)) for n, t in spec["comps"].items()}, dict(PAGE_CTX))
    h = Harness()
    dyn = ":dynamic-" in case["desc"]
    flat = render(h, prog, {}, dyn)
    ok = True
    for desc, p2, locmem, ref_prog in families(prog, not dyn, dyn):
        if (desc.replace(":", ":dynamic-", 1) if dyn else desc) != case["desc"]:
            continue
        if ref_prog is not None:
            flat = render(h, ref_prog, {}, dyn)
        got = render(h, p2, locmem, dyn)
        print("split:", desc)
        print("page:", p2.page_source(dyn))
        for n, c in p2.comps.items():
            print(f"comp {n}:", c.source(dyn))
        for k, v in locmem.items():
            print(f"template {k}:", v)
        print("family renders:   ", got)
        print("flattened renders:", flat, " (page:", prog.page_source(), {n: c.source() for n, c in prog.comps.items()}, ")")
        ok = ok and got == flat
    h.uninstall()
    return ok
