"""C10 part (b) placeholder - filled in below."""


def run_part(ctx):
    pass


def replay(ctx, case):
    return True
