"""C13 - html_attrs / Python-passed slot content / JS-CSS end tags emit exactly the data given, escaped (ENUM).

Part A  {% html_attrs %}: rendered as `<div {% html_attrs ... %}>` and parsed back with html.parser.
   A1 values : per key, every (defaults value | absent) x (attrs value | absent) x every sequence of 0..2
               extra keywords over the full value alphabet (canonical forms: attrs positional, defaults=..).
   A2 forms  : every way the sources can be written - defaults {absent, defaults=d, 2nd positional,
               defaults:k=}, attrs {absent, attrs=a, positional, attrs:k=}, extras as keyword or `...spread`,
               dict keywords before / after the extras - x a 5-value sub-alphabet.
   A3 pairs  : two keys at once (cross-talk between keys), both interleavings of their extras.
   A4 names  : names that are not legal HTML attribute names - only "exactly one <div> start tag, nothing
               else, the well-named neighbour attribute intact" is asserted.
   After every render the objects handed to the tag (defaults / attrs / spread operands) must be unchanged.
   Model: final = defaults; final.update(attrs); every extra keyword, in tag order, is appended to the same-named
   entry as str(cur) + " " + str(value) (or sets it); None / False omitted, True bare, else name="escaped value".
Part B  slot content handed to Component.render: content kind x string x every chain of <= 3 hops
        (first hop: render / render_to_response; later hops re-pass the normalised `self.input.slots` through
        Python `render`, through the dynamic component or through a template fill) x escape flag per hop.
Part B2 content-object histories: ONE pool of content objects is built per history - the value itself, a callable
        returning it (lambda / def function / functools.partial / instance with __call__ / bound method), one
        `Slot(callable)` and one `Slot(Slot(callable))` - and then handed to every sequence of 2..3 top-level
        `Component.render` calls, each step = (which pool object) x (receiving component: leaf with slot "s",
        another leaf class with slot "t", a parent that re-passes its `self.input.slots` through Python `render`
        with escaping on / off) x (escape_slots_content of THAT call). Every render of the history is judged by
        the escape-exactly-once model for its own flag - what an earlier render did with the same function /
        Slot object must not matter. (quick: 3-step histories only over the callable forms and the two leaves.)
Part C  component js / css = every sequence of <= 3 end-tag look-alike tokens, through Component.render()
        and through render_dependencies() with placeholders.

Agnostic / excluded corners
* appending where the current value *or* the appended value is None / True / False: any result (also an
  exception) is accepted for that key; the rest of the tag is still checked when it renders.
* SafeString values: the parsed value may be the verbatim or the escaped reading; a SafeString that was
  appended to may keep or lose its safe flag.
* order of the rendered attributes is not asserted (the statement speaks of an attribute *set*).
* combinations the tag documents as illegal (attrs given twice, e.g. positional + `attrs:k=`), repeated
  `attrs:k=` / `defaults:k=` keys, spreads carrying the keys `attrs` / `defaults`, and `:v=` written
  directly as a keyword (the tag parser rejects a key starting with ':') are not generated.
* slots: a template fill `{% fill %}{% slot %}{% endfill %}` hop followed by a Python re-pass hop is not generated
  (on the pinned tree the inner `{% slot %}` then resolves against the receiving component and recurses - that is
  slot resolution, C01's subject); a non-safe content whose first hop has escape_slots_content=False but a later re-pass has True may be
  escaped zero times or once (never twice); `Slot(fn, escaped=True)` built by the user is not generated.
* histories (B2) re-use only the objects the *user* built (value, callable, un-normalised `Slot`s); a normalised
  `Slot` captured from `self.input.slots` of an earlier render and handed to a later top-level render keeps the
  escaping decision of the render that normalised it - that is the 0-or-1 corner above and is not generated. The
  parent components of a history re-pass through Python `render` only (dynamic / template hops are part B's chains).
* js/css containing `</script` / `</style` (any case) that would *not* terminate the element (next character
  is not whitespace, '/' or '>'; or it only does so depending on the library's strip() of the content) may be
  refused or emitted; content without such a prefix must be emitted, content that terminates must be refused.
"""
from __future__ import annotations

import copy
import html as _html
import re
from collections import Counter
from html.parser import HTMLParser
from itertools import product

from mc import boot, par

PID = "C13"
LEVEL = "model_checking"
DJANGO = {}

# ====================================================================== part A
KEYS = ["class", "data-x", "@click", ":v", "ünï"]
NO_KW_KEYS = {":v"}  # cannot be written as `key=value` directly (tag parser) - extras go through a spread


def _vals():
    from django.utils.safestring import SafeString

    return {
        "a": "a", "a b": "a b", "dq": '"', "sq": "'", "lt": "<", "gt": ">", "amp": "&", "ampamp": "&amp;",
        "eacute": "é", "empty": "", "safe": SafeString("&lt;"), "True": True, "False": False, "None": None,
        "0": 0, "1": 1, "5": 5, "dqlt": '"<', "hostile": '"><script>', "ok": "ok",
    }


V_FULL = ["a", "a b", "dq", "sq", "lt", "gt", "amp", "ampamp", "eacute", "empty", "safe", "True", "False", "None", "0", "1", "5"]
V5 = ["a", "dqlt", "safe", "None", "5"]
V3 = ["a", "dq", "5"]
V2 = ["a", "5"]
HOSTILE_NAMES = ["a b", 'x"><script>', "g=h", "a'b", "/", ">", "<i>", "&amp;", "x y=z"]
_V: dict = {}


def V(name):
    if not _V:
        _V.update(_vals())
    return _V[name]


class _P(HTMLParser):
    def __init__(self):
        super().__init__(convert_charrefs=True)
        self.ev = []

    def handle_starttag(self, t, a):
        self.ev.append(("start", t, a))

    def handle_startendtag(self, t, a):
        self.ev.append(("startend", t, a))

    def handle_endtag(self, t):
        self.ev.append(("end", t))

    def handle_data(self, d):
        self.ev.append(("data", d))

    def handle_comment(self, d):
        self.ev.append(("comment", d))

    def handle_decl(self, d):
        self.ev.append(("decl", d))

    def handle_pi(self, d):
        self.ev.append(("pi", d))

    def unknown_decl(self, d):
        self.ev.append(("unknown", d))


def parse_events(s: str):
    p = _P()
    p.feed(s)
    p.close()
    return p.ev


# A case is a JSON-able dict:
# {"keys": [..], "dform": none|kw|pos|agg, "aform": none|kw|pos|agg, "front": bool, "inter": 0|1,
#  "per": [{"d": vname|None, "a": vname|None, "x": [[form, vname], ...]}, ...]}
def build_tag(case):
    """-> (template source, context dict, extras in tag order [(key, value)])"""
    keys, per = case["keys"], case["per"]
    ctx = {}
    pos, kw_da, extras_src, extras = [], [], [], []
    amap = {k: V(p["a"]) for k, p in zip(keys, per) if p["a"] is not None}
    dmap = {k: V(p["d"]) for k, p in zip(keys, per) if p["d"] is not None}
    if case["aform"] == "pos":
        pos.append("av")
        ctx["av"] = amap
    if case["dform"] == "pos":
        pos.append("dv")
        ctx["dv"] = dmap
    if case["dform"] == "kw":
        kw_da.append("defaults=dv")
        ctx["dv"] = dmap
    if case["aform"] == "kw":
        kw_da.append("attrs=av")
        ctx["av"] = amap
    for i, (k, p) in enumerate(zip(keys, per)):
        if case["dform"] == "agg" and p["d"] is not None:
            kw_da.append(f"defaults:{k}=d{i}")
            ctx[f"d{i}"] = V(p["d"])
        if case["aform"] == "agg" and p["a"] is not None:
            kw_da.append(f"attrs:{k}=a{i}")
            ctx[f"a{i}"] = V(p["a"])
    order = list(range(len(keys)))
    if case.get("inter"):
        order.reverse()
    for i in order:
        k = keys[i]
        for j, (form, vn) in enumerate(per[i]["x"]):
            if form == "kw":
                extras_src.append(f"{k}=x{i}_{j}")
                ctx[f"x{i}_{j}"] = V(vn)
            else:
                extras_src.append(f"...s{i}_{j}")
                ctx[f"s{i}_{j}"] = {k: V(vn)}
            extras.append((k, V(vn)))
    kwargs = kw_da + extras_src if case["front"] else extras_src + kw_da
    src = "<div {% html_attrs " + " ".join(pos + kwargs) + " %}>"
    return src, ctx, dmap, amap, extras


def _special(v):
    return v is None or v is True or v is False


def _parts_alternatives(parts):
    """parts: list of (text, is_safe) -> set of acceptable parsed values."""
    alts = {""}
    first = True
    for text, safe in parts:
        opts = {text, _html.unescape(text)} if safe else {text}
        alts = {(a if first else a + " ") + o for a in alts for o in opts}
        first = False
    return alts


def attrs_model(dmap, amap, extras):
    """-> (expected: key -> ('absent'|'bare'|'value', alternatives), agnostic keys)"""
    from django.utils.safestring import SafeData

    final = {}
    final.update(dmap)
    final.update(amap)
    state = {k: ("raw", v) for k, v in final.items()}  # raw value or list of parts after an append
    agnostic = set()
    for k, v in extras:
        if k not in state:
            state[k] = ("raw", v)
            continue
        kind, cur = state[k]
        if kind == "raw":
            if _special(cur) or _special(v):
                agnostic.add(k)
            parts = [(str(cur), isinstance(cur, SafeData))]
        else:
            if _special(v):
                agnostic.add(k)
            parts = list(cur)
        parts.append((str(v), isinstance(v, SafeData)))
        state[k] = ("parts", parts)
    exp = {}
    for k, (kind, cur) in state.items():
        if kind == "parts":
            exp[k] = ("value", _parts_alternatives(cur))
        elif cur is None or cur is False:
            exp[k] = ("absent", None)
        elif cur is True:
            exp[k] = ("bare", None)
        else:
            exp[k] = ("value", _parts_alternatives([(str(cur), isinstance(cur, SafeData))]))
    return exp, agnostic


_TPL: dict = {}


def _template(src):
    t = _TPL.get(src)
    if t is None:
        from django.template import Template

        t = _TPL[src] = Template(src)
    return t


def check_attrs(case):
    """-> (clause or None, what, observation, outcome class, nontrivial?)"""
    from django.template import Context
    from django.utils.safestring import SafeData

    src, ctx, dmap, amap, extras = build_tag(case)
    exp, agnostic = attrs_model(dmap, amap, extras)
    appended = {k for k in dict(extras) if k in dmap or k in amap or sum(1 for x in extras if x[0] == k) > 1}
    klass = "agnostic-append" if agnostic else ("append" if appended else ("override" if set(dmap) & set(amap) else "plain"))
    nontrivial = bool(dmap or amap or extras)
    before = copy.deepcopy(ctx)
    try:
        out = _template(src).render(Context(ctx))
    except Exception as e:
        if agnostic:
            return None, "", ("exc-agnostic",), klass, nontrivial
        return f"exception:{type(e).__name__}", f"raised {type(e).__name__}: {e}", ("exc", type(e).__name__), klass, nontrivial
    # the mappings handed to the tag (defaults / attrs / spread operands) belong to the caller: a tag that merges
    # into them would emit data it was not given the next time the same object is passed
    if ctx != before or any(type(ctx[k]) is not type(before[k]) for k in ctx):
        changed = sorted(k for k in ctx if ctx[k] != before[k])
        return "input-mutated", f"the tag changed its input object(s) {changed}: {[before[k] for k in changed]!r} -> {[ctx[k] for k in changed]!r}", out, klass, nontrivial
    if not isinstance(out, SafeData):
        return "not-safe", f"output {out!r} is not marked safe (would be escaped again by the template)", out, klass, nontrivial
    ev = parse_events(out)
    if len(ev) != 1 or ev[0][0] != "start" or ev[0][1] != "div":
        return "breakout", f"{out!r} does not parse as exactly one <div> start tag: {ev!r}", out, klass, nontrivial
    got = ev[0][2]
    names = [n for n, _ in got]
    for n in names:
        if names.count(n) > 1:
            return "duplicate", f"attribute {n!r} rendered {names.count(n)} times in {out!r}", out, klass, nontrivial
        if n not in exp:
            return "extra-attribute", f"unexpected attribute {n!r} in {out!r}", out, klass, nontrivial
    gotd = dict(got)
    for k, (kind, alts) in exp.items():
        if k in agnostic:
            continue
        if kind == "absent":
            if k in gotd:
                return "not-omitted", f"{k!r} is None/False in the merged set but was rendered: {out!r}", out, klass, nontrivial
        elif kind == "bare":
            if k not in gotd or gotd[k] is not None:
                return "not-bare", f"{k!r} is True in the merged set, expected a bare attribute, got {out!r}", out, klass, nontrivial
        else:
            if k not in gotd:
                return "missing", f"{k!r} expected with value {sorted(alts)!r} but is missing from {out!r}", out, klass, nontrivial
            if gotd[k] not in alts:
                return "value", f"{k!r} parsed as {gotd[k]!r}, the merge model gives {sorted(alts)!r}; output {out!r}", out, klass, nontrivial
    return None, "", out, klass, nontrivial


def _mk_case(keys, dform, aform, front, per, inter=0):
    return {"keys": list(keys), "dform": dform, "aform": aform, "front": front, "inter": inter,
            "per": [{"d": d, "a": a, "x": [list(x) for x in xs]} for d, a, xs in per]}


def _extras_seqs(vals, forms, maxn=2):
    """all sequences of 0..maxn extras, each (form, value)"""
    items = [(f, v) for f in forms for v in vals]
    for n in range(maxn + 1):
        for seq in product(items, repeat=n):
            yield seq


def gen_a1():
    for k in KEYS:
        xform = ["spread"] if k in NO_KW_KEYS else ["kw"]
        seqs = list(_extras_seqs(V_FULL, xform))
        for d in [None] + V_FULL:
            for a in [None] + V_FULL:
                for xs in seqs:
                    yield ("A1", (k,), "kw", "pos", True, ((d, a, xs),), 0)


def gen_a2():
    for k in ("class", ":v"):
        xforms = ["spread"] if k in NO_KW_KEYS else ["kw", "spread"]
        for dform in ("none", "kw", "pos", "agg"):
            for aform in ("none", "kw", "pos", "agg"):
                if dform == "pos" and aform != "pos":
                    continue
                dvals = [None] if dform == "none" else [None] + V5
                avals = [None] if aform == "none" else [None] + V5
                if dform == "agg":
                    dvals = V5  # `defaults:k=` absent is the form "none"
                if aform == "agg":
                    avals = V5
                for front in (True, False):
                    for xs in _extras_seqs(V5, xforms):
                        for d in dvals:
                            for a in avals:
                                yield ("A2", (k,), dform, aform, front, ((d, a, xs),), 0)


def gen_a3(thorough):
    if thorough:
        pairs = [(KEYS[i], KEYS[j]) for i in range(len(KEYS)) for j in range(i + 1, len(KEYS))]
        vals = V3
    else:
        pairs = [("class", "data-x"), ("@click", ":v")]
        vals = V2
    for k1, k2 in pairs:
        per_key = []
        for k in (k1, k2):
            xform = ["spread"] if k in NO_KW_KEYS else ["kw"]
            per_key.append([(d, a, xs) for d in [None] + vals for a in [None] + vals for xs in _extras_seqs(vals, xform)])
        for dform, aform in (("kw", "pos"), ("agg", "agg"), ("pos", "pos"), ("kw", "kw")):
            for inter in (0, 1):
                for p1 in per_key[0]:
                    for p2 in per_key[1]:
                        yield ("A3", (k1, k2), dform, aform, True, (p1, p2), inter)


def _case_from_tuple(t):
    _, keys, dform, aform, front, per, inter = t
    return _mk_case(keys, dform, aform, front, per, inter)


def _describe(case):
    bits = [f"D={case['dform']}", f"A={case['aform']}", "kw-first" if case["front"] else "kw-last"]
    if case.get("inter"):
        bits.append("interleaved")
    for k, p in zip(case["keys"], case["per"]):
        xs = ",".join(f"{f}:{v}" for f, v in p["x"])
        bits.append(f"{k}[d={p['d']} a={p['a']} x=({xs})]")
    return " ".join(bits)


_CANON_VALUES = ["a", "5", "None", "True", "safe", "dq"]


def _canon_rank(vn):
    return _CANON_VALUES.index(vn) if vn in _CANON_VALUES else len(_CANON_VALUES)


def _shrink_attrs(case, clause):
    """greedy: drop keys / sources / extras, simplify forms and values while the same clause fails."""
    import copy

    def fails(c):
        try:
            return check_attrs(c)[0] == clause
        except Exception:
            return False

    cur = copy.deepcopy(case)
    changed = True
    while changed:
        changed = False
        cands = []
        if len(cur["keys"]) > 1:
            for i in range(len(cur["keys"])):
                c = copy.deepcopy(cur)
                del c["keys"][i]
                del c["per"][i]
                cands.append(c)
        for i, p in enumerate(cur["per"]):
            for f in ("d", "a"):
                if p[f] is not None:
                    c = copy.deepcopy(cur)
                    c["per"][i][f] = None
                    cands.append(c)
            for j in range(len(p["x"])):
                c = copy.deepcopy(cur)
                del c["per"][i]["x"][j]
                cands.append(c)
        if cur.get("inter"):
            c = copy.deepcopy(cur)
            c["inter"] = 0
            cands.append(c)
        if not cur["front"]:
            c = copy.deepcopy(cur)
            c["front"] = True
            cands.append(c)
        for f, canon in (("dform", "kw"), ("aform", "pos")):
            has = any(p[f[0]] is not None for p in cur["per"])
            want = canon if has else "none"
            if cur[f] != want:
                c = copy.deepcopy(cur)
                c[f] = want
                if not (c["dform"] == "pos" and c["aform"] != "pos"):
                    cands.append(c)
        for i, p in enumerate(cur["per"]):
            for j, (form, vn) in enumerate(p["x"]):
                if form == "spread" and cur["keys"][i] not in NO_KW_KEYS:
                    c = copy.deepcopy(cur)
                    c["per"][i]["x"][j][0] = "kw"
                    cands.append(c)
                for simpler in _CANON_VALUES[:_canon_rank(vn)]:
                    c = copy.deepcopy(cur)
                    c["per"][i]["x"][j][1] = simpler
                    cands.append(c)
            for f in ("d", "a"):
                if p[f] is not None:
                    for simpler in _CANON_VALUES[:_canon_rank(p[f])]:
                        c = copy.deepcopy(cur)
                        c["per"][i][f] = simpler
                        cands.append(c)
            if p["d"] is not None and p["a"] is None:
                c = copy.deepcopy(cur)
                c["per"][i]["a"], c["per"][i]["d"] = p["d"], None
                if c["aform"] == "none":
                    c["aform"] = "pos"
                if not any(q["d"] is not None for q in c["per"]):
                    c["dform"] = "none"
                if not (c["dform"] == "pos" and c["aform"] != "pos"):
                    cands.append(c)
        for i, k in enumerate(cur["keys"]):
            for simpler in ("class", "data-x"):
                if k != simpler and simpler not in cur["keys"] and KEYS.index(simpler) < KEYS.index(k):
                    c = copy.deepcopy(cur)
                    c["keys"][i] = simpler
                    cands.append(c)
        for c in cands:
            if fails(c):
                cur = c
                changed = True
                break
    return cur


def _attrs_worker(w, W, payload):
    agg = par.Agg()
    thorough = payload["thorough"]
    seen = set()
    per_part = Counter()
    i = -1
    for gen in (gen_a1(), gen_a2(), gen_a3(thorough)):
        for t in gen:
            i += 1
            if i % W != w:
                continue
            case = _case_from_tuple(t)
            agg.states += 1
            agg.transitions += 1
            clause, what, obs, klass, nontrivial = check_attrs(case)
            agg.validated += 1
            agg.expected[klass] += 1
            per_part[t[0]] += 1
            if nontrivial:
                agg.nontrivial += 1
            agg.observe(obs)
            if clause is not None:
                agg.extra["failing_cases"] += 1
                key = (clause, tuple(sorted((vn for p in case["per"] for vn in [p["d"], p["a"]] + [x[1] for x in p["x"]] if vn), key=str)))
                if key in seen:
                    continue
                seen.add(key)
                core = _shrink_attrs(case, clause)
                ident = f"attrs:{clause}:{_describe(core)}"
                if ident in seen:
                    continue
                seen.add(ident)
                what2 = check_attrs(core)[1]
                src = build_tag(core)[0]
                agg.fail(ident, f"{src} with {_describe(core)}: {what2}", {"part": "attrs", "case": core, "clause": clause})
    for k, v in per_part.items():
        agg.extra["cases_" + k] += v
    return agg


def check_hostile_name(name, form, vname, with_extra):
    """-> (clause or None, what, observation)"""
    from django.template import Context

    if form == "attrs":
        src, ctx = "<div {% html_attrs av %}>", {"av": {"class": "ok", name: V(vname)}}
    elif form == "defaults":
        src, ctx = "<div {% html_attrs attrs:class=c defaults=dv %}>", {"c": "ok", "dv": {name: V(vname)}}
    else:
        src, ctx = "<div {% html_attrs class=c ...sv %}>", {"c": "ok", "sv": {name: V(vname)}}
    if with_extra:
        src = src.replace(" %}", " ...ev %}")
        ctx["ev"] = {name: "a"}
    try:
        out = _template(src).render(Context(ctx))
    except Exception as e:
        return f"exception:{type(e).__name__}", f"raised {type(e).__name__}: {e}", ("exc",)
    ev = parse_events(out)
    if len(ev) != 1 or ev[0][0] not in ("start", "startend") or ev[0][1] != "div":
        return "breakout", f"name {name!r}: {out!r} does not parse as exactly one <div> start tag: {ev!r}", out
    if ev[0][2].count(("class", "ok")) != 1 or [n for n, _ in ev[0][2]].count("class") != 1:
        return "neighbour", f"name {name!r}: neighbour attribute class=\"ok\" not intact in {out!r}", out
    return None, "", out


# ====================================================================== part B
S_STRINGS = ["<b>&", "&amp;", "\"'<>", "{{ x }}é"]
S_KINDS = ["str", "safe", "fn_str", "fn_safe", "slot_str", "slot_safe", "slotslot_str"]
HOP0 = [("render", True), ("render", False), ("response", True), ("response", False)]
HOPN = [("py", True), ("py", False), ("dyn", True), ("dyn", False), ("tpl", None)]
_SLOT_COMPS: dict = {}
_MARK_RE = re.compile(r"<!-- _RENDERED [^>]*?-->")
_ID_RE = re.compile(r' data-djc-id-\w+=""')


def _content(kind, s):
    from django.utils.safestring import mark_safe

    from django_components import Slot

    safe = kind.endswith("safe")
    val = mark_safe(s) if safe else s
    if kind in ("str", "safe"):
        return val
    fn = lambda ctx, data, ref: val  # noqa: E731
    if kind.startswith("fn"):
        return fn
    if kind.startswith("slotslot"):
        return Slot(Slot(fn))
    return Slot(fn)


def _chain_classes(chain):
    """Build (and cache) the component classes of a chain of later hops; returns the outermost class."""
    key = tuple(chain)
    if key in _SLOT_COMPS:
        return _SLOT_COMPS[key]
    from django_components import Component
    from django_components.component_registry import registry
    from django_components.components.dynamic import DynamicComponent

    if not chain:
        cls = type("C13Leaf", (Component,), {"__module__": "verif_c13", "template": '[{% slot "s" / %}]'})
    else:
        (via, flag), rest = chain[0], chain[1:]
        nxt = _chain_classes(rest)
        name = "c13s_" + "_".join(f"{v}{'' if f is None else int(f)}" for v, f in rest) + "_n"
        if via == "tpl":
            if name not in registry.all():
                registry.register(name, nxt)
            tpl = "({% component '" + name + "' %}{% fill 's' %}{% slot 's' / %}{% endfill %}{% endcomponent %})"
            cls = type("C13Mid", (Component,), {"__module__": "verif_c13", "template": tpl})
        else:
            def gcd(self, _nxt=nxt, _via=via, _flag=flag):
                if _via == "py":
                    inner = _nxt.render(slots=self.input.slots, escape_slots_content=_flag, render_dependencies=False)
                else:
                    inner = DynamicComponent.render(kwargs={"is": _nxt}, slots=self.input.slots,
                                                    escape_slots_content=_flag, render_dependencies=False)
                return {"inner": inner}

            cls = type("C13Mid", (Component,), {"__module__": "verif_c13", "template": "({{ inner }})", "get_context_data": gcd})
    _SLOT_COMPS[key] = cls
    return cls


def _slot_model(s, safe, flag0, chain):
    """escape-exactly-once model of ONE top-level render -> (set of acceptable slot texts, outcome class)"""
    from django.utils.html import escape

    later_true = any(f is True for _, f in chain)
    if safe or (not flag0 and not later_true):
        return {s}, "verbatim"
    if flag0:
        return {escape(s)}, "escaped-once"
    return {s, escape(s)}, "agnostic-0-or-1"


def check_slot(kind, si, hop0, chain):
    """-> (clause or None, what, observation, outcome class)"""
    from django.utils.html import escape

    s = S_STRINGS[si]
    cls = _chain_classes(tuple(tuple(h) for h in chain))
    how, flag0 = hop0
    allowed, klass = _slot_model(s, kind.endswith("safe"), flag0, chain)
    wrap_l = "".join("(" for _ in chain) + "["
    wrap_r = "]" + "".join(")" for _ in chain)
    try:
        if how == "render":
            out = cls.render(slots={"s": _content(kind, s)}, escape_slots_content=flag0, render_dependencies=False)
        else:
            resp = cls.render_to_response(slots={"s": _content(kind, s)}, escape_slots_content=flag0)
            out = resp.content.decode("utf-8")
    except Exception as e:
        return f"exception:{type(e).__name__}", f"raised {type(e).__name__}: {e}", ("exc",), klass
    finally:
        boot.clear_render_registries()
    got = _ID_RE.sub("", _MARK_RE.sub("", out))
    if got not in {wrap_l + a + wrap_r for a in allowed}:
        times = "twice" if got == wrap_l + escape(escape(s)) + wrap_r else "differently"
        return ("escape", f"slot text {got!r}: content {s!r} ({kind}) was escaped {times}; expected {sorted(wrap_l + a + wrap_r for a in allowed)!r}",
                got, klass)
    return None, "", got, klass


def gen_slots(maxhops):
    for kind in S_KINDS:
        for si in range(len(S_STRINGS)):
            for hop0 in HOP0:
                for n in range(maxhops):
                    for chain in product(HOPN, repeat=n):
                        # a template-made fill that itself holds `{% slot %}` and is re-passed through Python
                        # `render` is a slot-*resolution* question (C01), not an escaping one: tpl hops come last
                        if any(chain[j][0] == "tpl" and chain[j + 1][0] != "tpl" for j in range(len(chain) - 1)):
                            continue
                        yield (kind, si, hop0, chain)


# ====================================================================== part B2 (content-object histories)
H_BASES = ["lambda", "def", "partial", "obj", "method"]  # what kind of callable returns the value
H_FORMS = ["fn", "slot", "slotslot", "val"]  # which object of the history's pool is handed to a render
H_FORMS_CALLABLE = ["fn", "slot", "slotslot"]
H_COMPS = ["A", "B", "py1", "py0"]  # receiving component of a step
H_COMPS_LEAF = ["A", "B"]
# comp -> (later hops of the receiving component, slot name, text left / right of the slot)
_H_COMP = {"A": ((), "s", "[", "]"), "B": ((), "t", "B:", ":B"),
           "py1": ((("py", True),), "s", "([", "])"), "py0": ((("py", False),), "s", "([", "])")}


class _CallableContent:
    def __init__(self, val):
        self.val = val

    def __call__(self, ctx, data, ref):
        return self.val

    def method(self, ctx, data, ref):
        return self.val


def _first_arg(val, ctx, data, ref):
    return val


def _hist_pool(base, val):
    """the content objects of one history - built once, every step re-uses these very objects"""
    import functools

    from django_components import Slot

    if base == "lambda":
        fn = lambda ctx, data, ref: val  # noqa: E731
    elif base == "def":
        def fn(ctx, data, ref):
            return val
    elif base == "partial":
        fn = functools.partial(_first_arg, val)
    elif base == "obj":
        fn = _CallableContent(val)
    elif base == "method":
        fn = _CallableContent(val).method
    else:
        raise ValueError(base)
    slot = Slot(fn)
    return {"val": val, "fn": fn, "slot": slot, "slotslot": Slot(slot)}


def _hist_class(comp):
    if comp == "B":
        cls = _SLOT_COMPS.get("B")
        if cls is None:
            from django_components import Component

            cls = _SLOT_COMPS["B"] = type("C13LeafB", (Component,), {"__module__": "verif_c13", "template": 'B:{% slot "t" / %}:B'})
        return cls
    return _chain_classes(_H_COMP[comp][0])


def _step_str(step):
    form, comp, flag = step
    return f"{form}@{comp}/{int(flag)}"


def check_history(base, safe, si, steps):
    """-> (clause or None, what, observations, index of the failing step or None, outcome classes of the steps run)"""
    from django.utils.html import escape
    from django.utils.safestring import mark_safe

    s = S_STRINGS[si]
    pool = _hist_pool(base, mark_safe(s) if safe else s)
    obs, klasses = [], []
    for j, (form, comp, flag) in enumerate(steps):
        chain, slot_name, wl, wr = _H_COMP[comp]
        allowed, klass = _slot_model(s, safe, flag, chain)
        klasses.append(klass)
        try:
            out = _hist_class(comp).render(slots={slot_name: pool[form]}, escape_slots_content=flag, render_dependencies=False)
        except Exception as e:
            obs.append(("exc", type(e).__name__))
            return f"exception:{type(e).__name__}", f"step {j + 1} ({_step_str(steps[j])}) raised {type(e).__name__}: {e}", tuple(obs), j, klasses
        finally:
            boot.clear_render_registries()
        got = _ID_RE.sub("", _MARK_RE.sub("", out))
        obs.append(got)
        if got not in {wl + a + wr for a in allowed}:
            if got == wl + escape(escape(s)) + wr:
                times = "escaped twice"
            elif got == wl + escape(s) + wr:
                times = "escaped once"
            elif got == wl + s + wr:
                times = "not escaped"
            else:
                times = "rendered differently"
            earlier = ", ".join(_step_str(x) for x in steps[:j]) or "-"
            return ("escape", f"step {j + 1} ({_step_str(steps[j])}, escape_slots_content={flag}) after [{earlier}] on the same content "
                    f"objects: slot text {got!r} - content {s!r} ({'safe' if safe else 'plain'}, {base}) was {times}; "
                    f"expected {sorted(wl + a + wr for a in allowed)!r}", tuple(obs), j, klasses)
    return None, "", tuple(obs), None, klasses


def _hist_strings(thorough, n):
    """string indices of the n-step histories (the strings themselves are part B's subject; a history needs one whose
    0 / 1 / 2-fold escapings differ)"""
    if not thorough:
        return (0,)
    return tuple(range(len(S_STRINGS))) if n == 2 else (0,)


def gen_histories(thorough):
    """(base, safe, string index, steps); shortest histories first. A history that never hands over a callable form
    does not depend on the base - generated for the first base only."""
    for n in (2, 3):
        wide = thorough or n == 2
        strings = _hist_strings(thorough, n)
        step_opts = [(f, c, fl) for f in (H_FORMS if wide else H_FORMS_CALLABLE) for c in (H_COMPS if wide else H_COMPS_LEAF)
                     for fl in (True, False)]
        for steps in product(step_opts, repeat=n):
            only_val = all(f == "val" for f, _, _ in steps)
            for base in H_BASES:
                if only_val and base != H_BASES[0]:
                    continue
                for safe in (False, True):
                    for si in strings:
                        yield (base, safe, si, steps)


def _shrink_history(base, safe, si, steps, clause):
    """greedy: cut everything after the failing step, drop earlier steps, canonical component / form / base"""
    def fails(b, st):
        r = check_history(b, safe, si, st)
        return r[0] == clause and r[3] == len(st) - 1

    j = check_history(base, safe, si, steps)[3]
    cur = list(steps[: j + 1])
    if not fails(base, cur):
        return base, tuple(steps)
    changed = True
    while changed:
        changed = False
        cands = []
        for k in range(len(cur) - 1):
            cands.append((base, cur[:k] + cur[k + 1:]))
        for k, (f, c, fl) in enumerate(cur):
            if c != "A":
                cands.append((base, cur[:k] + [(f, "A", fl)] + cur[k + 1:]))
            if f not in ("fn", "val"):
                cands.append((base, cur[:k] + [("fn", c, fl)] + cur[k + 1:]))
        if base != H_BASES[0]:
            cands.append((H_BASES[0], cur))
        for b, st in cands:
            if fails(b, st):
                base, cur, changed = b, list(st), True
                break
    return base, tuple(cur)


# ====================================================================== part C
E_TOKENS = ["x", "</script", "</SCRIPT", "</ScRiPt\n>", "<\\/script", "</style", "</STYLE ", "</sty le", ">"]
_TERM = {"js": re.compile(r"</script[\t\n\f\r />]", re.I), "css": re.compile(r"</style[\t\n\f\r />]", re.I)}
_PREFIX = {"js": re.compile(r"</script", re.I), "css": re.compile(r"</style", re.I)}
_CLOSE = {"js": "</script>", "css": "</style>"}
_OPEN = {"js": "<script>", "css": "<style>"}
_ECOUNT = [0]


def endtag_expectation(kind, content):
    """'refuse' | 'emit' | 'either'"""
    if not _PREFIX[kind].search(content):
        return "emit"
    close = _CLOSE[kind]
    early = []
    for c in (content, content.strip()):
        m = _TERM[kind].search(c + close)
        early.append(m is not None and m.start() < len(c))
    return "refuse" if all(early) else "either"


def check_endtag(kind, content, path):
    """-> (clause or None, what, observation, expectation)"""
    from django_components import Component
    from django_components.dependencies import render_dependencies

    exp = endtag_expectation(kind, content)
    _ECOUNT[0] += 1
    tpl = ("<html><head></head><body><p>t</p></body></html>" if path in ("render", "redefined")
           else "{% component_css_dependencies %}<p>t</p>{% component_js_dependencies %}")
    name = f"C13E{_ECOUNT[0]:05d}_{path}"
    if path == "redefined":
        # history: a class with the SAME import path and harmless code was rendered before (module reload / class factory),
        # then the script cache was flushed: the verdict must be about the code at hand, not about the import path
        from django_components.cache import get_component_media_cache

        old_cls = type(name, (Component,), {"__module__": "verif_c13", "template": tpl, kind: "x"})
        old_cls.render()
        boot.clear_render_registries()
        del old_cls
        get_component_media_cache().clear()
    cls = type(name, (Component,), {"__module__": "verif_c13", "template": tpl, kind: content})
    try:
        if path in ("render", "redefined"):
            out = cls.render()
        else:
            out = render_dependencies(cls.render(render_dependencies=False))
    except Exception as e:
        boot.clear_render_registries()
        if exp == "emit":
            return f"refused:{type(e).__name__}", f"{kind}={content!r} cannot end its element but was refused: {type(e).__name__}: {e}", ("exc",), exp
        return None, "", ("refused",), exp
    boot.clear_render_registries()
    if exp == "refuse":
        return "emitted", f"{kind}={content!r} terminates its own <{_OPEN[kind][1:-1]}> element but was emitted: {out!r}", out, exp
    stripped = content.strip()
    if not stripped:
        n = out.count(_OPEN[kind] + _CLOSE[kind])
        if n not in (0, 1):
            return "count", f"empty {kind} emitted {n} times", out, exp
        return None, "", out, exp
    n = out.count(_OPEN[kind] + stripped + _CLOSE[kind])
    if n != 1:
        return "count", f"{kind}={content!r} expected verbatim exactly once, found {n} times in {out!r}", out, exp
    return None, "", out, exp


def gen_endtags(maxlen):
    for kind in ("js", "css"):
        for n in range(1, maxlen + 1):
            for seq in product(range(len(E_TOKENS)), repeat=n):
                for path in ("render", "placeholders") + (("redefined",) if n <= 2 else ()):
                    yield (kind, seq, path)


def _misc_worker(w, W, payload):
    """parts A4, B and C (small) share one sharded stream."""
    agg = par.Agg()
    i = -1
    seen = set()
    for name in HOSTILE_NAMES:
        for form in ("attrs", "defaults", "spread"):
            for vn in ("a", "hostile", "True", "5", "safe"):
                for with_extra in (False, True):
                    if with_extra and vn in ("True", "5"):
                        continue  # appending to True is an agnostic corner; number appends are covered by A1-A3
                    i += 1
                    if i % W != w:
                        continue
                    agg.states += 1
                    agg.transitions += 1
                    agg.validated += 1
                    agg.nontrivial += 1
                    agg.extra["cases_A4"] += 1
                    clause, what, obs = check_hostile_name(name, form, vn, with_extra)
                    agg.expected["hostile-name"] += 1
                    agg.observe(obs)
                    if clause:
                        ident = f"names:{clause}:{name}:{form}:{vn}:{int(with_extra)}"
                        agg.fail(ident, what, {"part": "names", "name": name, "form": form, "value": vn, "with_extra": with_extra})
    for kind, si, hop0, chain in gen_slots(payload["slot_hops"]):
        i += 1
        if i % W != w:
            continue
        agg.states += 1
        agg.transitions += 1
        agg.validated += 1
        agg.extra["cases_B"] += 1
        clause, what, obs, klass = check_slot(kind, si, hop0, chain)
        agg.expected["slot:" + klass] += 1
        if klass == "escaped-once":
            agg.nontrivial += 1
        agg.observe(obs)
        if clause:
            core = f"{kind}:{hop0[0]}{int(hop0[1])}:" + ">".join(f"{v}{'' if f is None else int(f)}" for v, f in chain)
            ident = f"slots:{clause}:{core}"
            if ident in seen:
                continue
            seen.add(ident)
            agg.fail(ident, f"chain {core} string {S_STRINGS[si]!r}: {what}",
                     {"part": "slots", "kind": kind, "string": si, "hop0": list(hop0), "chain": [list(h) for h in chain]})
    for base, safe, si, steps in gen_histories(payload["thorough"]):
        i += 1
        if i % W != w:
            continue
        clause, what, obs, j, klasses = check_history(base, safe, si, steps)
        agg.states += 1
        agg.transitions += len(klasses)
        agg.validated += len(klasses)
        agg.extra["cases_B2"] += 1
        agg.extra["renders_B2"] += len(klasses)
        for klass in klasses:
            agg.expected["history:" + klass] += 1
        if len(set(klasses)) > 1:  # the same objects must come out escaped in one render and verbatim in another
            agg.nontrivial += 1
        agg.observe(obs)
        if clause:
            key = ("hist", clause, base, safe, steps[j][0], steps[j][2], frozenset((f, fl) for f, _, fl in steps[:j]))
            if key in seen:
                continue
            seen.add(key)
            cbase, csteps = _shrink_history(base, safe, si, steps, clause)
            ident = f"history:{clause}:{cbase}:{'safe' if safe else 'plain'}:" + ">".join(_step_str(x) for x in csteps)
            if ident in seen:
                continue
            seen.add(ident)
            what2 = check_history(cbase, safe, si, csteps)[1] or what
            agg.fail(ident, f"history {ident.split(':', 2)[2]} string {S_STRINGS[si]!r}: {what2}",
                     {"part": "history", "base": cbase, "safe": safe, "string": si, "steps": [list(x) for x in csteps]})
    for kind, seq, path in gen_endtags(payload["endtag_len"]):
        i += 1
        if i % W != w:
            continue
        content = "".join(E_TOKENS[t] for t in seq)
        agg.states += 1
        agg.transitions += 1
        agg.validated += 1
        agg.extra["cases_C"] += 1
        clause, what, obs, exp = check_endtag(kind, content, path)
        agg.expected["endtag:" + exp] += 1
        if exp != "emit" or _PREFIX["js" if kind == "css" else "css"].search(content):
            agg.nontrivial += 1
        agg.observe(obs if isinstance(obs, tuple) else (kind, content, path))
        if clause:
            cur = list(seq)
            again = True
            while again:  # greedy token deletion keeping the same clause
                again = False
                for j in range(len(cur)):
                    cand = cur[:j] + cur[j + 1:]
                    if cand and check_endtag(kind, "".join(E_TOKENS[t] for t in cand), path)[0] == clause:
                        cur, again = cand, True
                        break
            for j in range(len(cur)):  # canonical filler token
                if cur[j] != 0:
                    cand = cur[:j] + [0] + cur[j + 1:]
                    if check_endtag(kind, "".join(E_TOKENS[t] for t in cand), path)[0] == clause:
                        cur = cand
            core = "".join(E_TOKENS[t] for t in cur)
            ident = f"endtag:{kind}:{clause}:{core!r}"
            if ident in seen:
                continue
            seen.add(ident)
            what2 = check_endtag(kind, core, path)[1]
            agg.fail(ident, what2, {"part": "endtag", "kind": kind, "content": core, "path": path})
    return agg


# ====================================================================== entry points
def run(ctx):
    ev, fnd = ctx.ev, ctx.fnd
    thorough = ctx.tier == "thorough"
    ev.rule = (
        "ENUM: every (defaults, attrs, extras) assignment / slot chain / js-css token string up to the bound is rendered by the "
        "real library and compared with the merge / escape-once / refuse-or-emit model; non-trivial = at least one source or extra "
        "is given (A), the model demands exactly one escape (B), the renders of one history over the same content objects "
        "demand different outcomes (B2), the string holds an end-tag look-alike (C)"
    )
    # determinism self-test
    for t, _ in zip(gen_a2(), range(40)):
        c = _case_from_tuple(t)
        if check_attrs(c)[2] != check_attrs(c)[2]:
            raise par.HarnessError("non-deterministic html_attrs output")
    n_a = sum(1 for _ in gen_a1()) + sum(1 for _ in gen_a2()) + sum(1 for _ in gen_a3(thorough))
    print(f"C13: part A {n_a} tags", flush=True)
    agg = par.run_sharded(_attrs_worker, {"thorough": thorough})
    fnd.merge_reports(agg.failures)
    ev.add_part(
        "html_attrs", states=agg.states, transitions=agg.transitions, validated=agg.validated, nontrivial=agg.nontrivial,
        observed_distinct=len(agg.observed), expected=agg.expected,
        bound={"keys": KEYS, "values_full": V_FULL, "values_forms": V5, "values_pairs": V3 if thorough else V2,
               "extras_per_key": 2, "A1": int(agg.extra["cases_A1"]), "A2": int(agg.extra["cases_A2"]), "A3": int(agg.extra["cases_A3"])},
        samples=[_mk_case(("class",), "kw", "pos", True, (("a", "dq", (("kw", "5"), ("kw", "lt"))),)),
                 _mk_case(("class", ":v"), "agg", "agg", True, (("a", None, (("kw", "5"),)), (None, "dq", (("spread", "a"),))), 1)],
        extra={"failing_cases": int(agg.extra.get("failing_cases", 0)), "failures_dropped": agg.failures_dropped},
    )
    slot_hops = 4 if thorough else 3  # chains of 0 .. hops-1 later hops
    endtag_len = 4 if thorough else 3
    n_h = sum(1 for _ in gen_histories(thorough))
    print(f"C13: part B2 {n_h} content-object histories", flush=True)
    misc = par.run_sharded(_misc_worker, {"slot_hops": slot_hops, "endtag_len": endtag_len, "thorough": thorough})
    fnd.merge_reports(misc.failures)
    ev.add_part(
        "names_slots_endtags", states=misc.states, transitions=misc.transitions, validated=misc.validated,
        nontrivial=misc.nontrivial, observed_distinct=len(misc.observed), expected=misc.expected,
        bound={"hostile_names": HOSTILE_NAMES, "slot_kinds": S_KINDS, "slot_strings": S_STRINGS, "later_hops_max": slot_hops - 1,
               "endtag_tokens": E_TOKENS, "endtag_len": endtag_len,
               "history_bases": H_BASES, "history_forms": H_FORMS, "history_components": H_COMPS, "history_steps": [2, 3],
               "history_3step_space": "all forms x all components" if thorough else "callable forms x leaf components",
               "history_strings": {str(n): [S_STRINGS[k] for k in _hist_strings(thorough, n)] for n in (2, 3)},
               "A4": int(misc.extra["cases_A4"]), "B": int(misc.extra["cases_B"]), "B2": int(misc.extra["cases_B2"]),
               "B2_renders": int(misc.extra["renders_B2"]), "C": int(misc.extra["cases_C"])},
        samples=[{"part": "slots", "kind": "fn_str", "string": "<b>&", "hop0": ["render", True], "chain": [["py", False], ["dyn", True]]},
                 {"part": "history", "base": "lambda", "safe": False, "string": "<b>&", "steps": [["fn", "A", False], ["slot", "B", True]]},
                 {"part": "endtag", "kind": "js", "content": "x</SCRIPT>"}],
    )
    boot.reset_library()
    ev.assumptions = [
        "values reach the tag through context variables (literal syntax is C02's subject)",
        "html.parser is the HTML parser of record; attribute names are lower-case so its name folding is the identity",
        "appends involving None/True/False, the safe flag after an append, and attribute order are agnostic (see module docstring)",
        "js/css strings: must-refuse = a case-insensitive end tag followed by whitespace, '/' or '>' (HTML raw-text rule)",
    ]


def replay(ctx, case):
    part = case["part"]
    if part == "attrs":
        clause, what, obs, klass, _ = check_attrs(case["case"])
        print(build_tag(case["case"])[0], _describe(case["case"]))
        print("output:", repr(obs))
        print(what or "matches the model")
        return clause is None
    if part == "names":
        clause, what, obs = check_hostile_name(case["name"], case["form"], case["value"], case["with_extra"])
        print("output:", repr(obs))
        print(what or "ok")
        return clause is None
    if part == "slots":
        clause, what, obs, klass = check_slot(case["kind"], case["string"], tuple(case["hop0"]), [tuple(h) for h in case["chain"]])
        print("output:", repr(obs))
        print(what or "matches the model")
        return clause is None
    if part == "history":
        clause, what, obs, j, klasses = check_history(case["base"], case["safe"], case["string"], [tuple(x) for x in case["steps"]])
        print("outputs:", repr(obs))
        print(what or "matches the model")
        return clause is None
    if part == "endtag":
        clause, what, obs, exp = check_endtag(case["kind"], case["content"], case["path"])
        print("expectation:", exp)
        print(what or "matches the model")
        return clause is None
    raise ValueError(part)
