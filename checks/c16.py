"""C16 - component assets = own class plus the bases selected by Media.extend (ENUM x SEQ).

Every case builds *fresh* Component subclasses with type() (unique class names, one fake
module per case whose __file__ lies in a private COMPONENTS.dirs directory) and reads the
lazily resolved attributes of the real classes / instances.

Part S  structure: every hierarchy of n classes (bases = any MRO-consistent ordered subset of
        earlier classes; own Media absent / `Media = None` / empty / with files; extend =
        True / False / ordered list of earlier classes), every class declaring its own files,
        x every order (n <= 3 and the small n = 4 alphabet in thorough) or every choice of
        the first accessed class (+ descending order) of `.media` on classes and instances.
Part L  lists: every hierarchy n <= 3 in which every class declares an ordered sub-list (<= 2
        entries) of a shared pool (2 files in quick, 3 in thorough; css mirrored: "all" same
        order, "print" reversed) - duplicates and the order clause.  n = 4 (>= 3 levels on one
        branch + a sibling base, diamonds, chains with shortcuts, ...): every single-sink
        hierarchy with <= 2 bases per class and extend = True x every 4-tuple of sub-lists of
        a 3-file pool, modulo two symmetries: renaming of the pool (kept: files first used in
        the order 0, 1, 2 - 1 675 of the 10 000 tuples) and, in quick only, the creation order
        of unrelated classes (12 of the 20 creation-ordered shapes); VERIF_SEED rotates the
        representative (which renaming / which creation order).  Read ancestors-first and
        sink-first.  Thorough also keeps the unreduced pool-2 product over the 20 shapes.
Part F  forms: all js forms x all css forms (absent, empty, str, list, dict of str / list,
        all+print) on one class and on parent x child (extend True / False) + rendered tags.
Part P  pair rule: template/js/css x {absent, inline (incl. ""), file} per class - the full
        27^n product for n <= 2 and per-pair products for n = 3 (4 in thorough) over every
        shape, two opposite access sweeps; "both members in one class" must be rejected.
Part A  partial access orders of the pair attributes: per class and pair {absent, inline,
        file} (3^n states); a visit of a class reads one kind of member ({template, js, css}
        on the class / the three *_file members on the class / {template, js, css} on an
        instance); every order of the n classes is visited and every read is checked when it
        happens, so the prefixes are all ordered subsets of the classes - in particular "top,
        then bottom, the overriding middle class never touched".  n = 3: all shapes (chain:
        all 3^3 kind assignments, other shapes one kind throughout; thorough: all assignments
        everywhere); n = 4: the chain, one kind throughout (thorough: all 3^4 assignments, +
        every other single-sink shape with <= 2 bases, + the n = 5 chain, one kind throughout).
Part H  histories: for every hierarchy with n <= 2 (n = 3 in thorough; <= 2 bases, extend lists of one
        class) x 3 assignments of inline / file / absent pair members, BFS to a fixpoint over all accesses
        (.media/.template/.js/.css/.*_file on class, .media/.template/.js/.css on instance),
        states merged by the complete lazy-resolution state (ComponentMedia fields, Media
        attributes, media_cache entry); every observation is compared with the model and
        with the observation the same access gives on an untouched hierarchy; an unmerged
        search to depth 2 cross-checks the canonicalisation.

Measured (16 workers; CPU seconds because the box was shared): quick 83 616 cases / 1.41 M reads,
~390 core-s (~25 s wall on 16 idle cores; the n = 4 lists of part L ~70 core-s, part A ~17 core-s);
thorough 522 543 cases / 18.2 M reads, ~5 500 core-s (~6 min).
Failure identities are "<part>/<oracle clause>/<n or attribute>"; the smallest failing hierarchy is kept.

Oracle (only what the statement fixes)
  * media: per medium (js, css "all", css "print", ...) the set of files equals the union of
    the files declared by the contributing classes (own Media + transitively the bases
    selected by extend); no file twice in a medium; when the contributing declared lists of
    a medium are mutually consistent (union of their successor relations acyclic) every one
    of them is a subsequence of the result; otherwise only the set is asserted.
  * the raw result of an access is identical for every access order of the same hierarchy.
  * template / js / css: value of the nearest class in the real `__mro__` that defines
    either member of the pair (inline text, or the content of the file); `*_file` is the
    declared name (also accepted: the name relative to the components dir) or None when the
    nearest definer used the inline member; a class defining both members must be rejected
    (at class creation or at the latest when either member is read).

Agnostic / excluded corners
  * A class without an own `Media` may be read as "extend = True, no files" (statement: own
    Media) or as inheriting the `Media` attribute of the first class in the MRO that has one
    (code, Django).  Both readings are computed; where they differ (needs >= 2 bases
    somewhere below, DESIGN C16) either is accepted.  Order-independence is still asserted.
  * A path that names a file next to the component module may be reported as declared or
    relative to the components dir ("<subdir>/name"): both denote the same file for the
    set / order clauses.  The *raw* value must still be the same for every access order.
  * Empty media (no files) may be reported with or without the medium key.
  * Never generated: one css file under two media, lists with internal duplicates,
    explicit `js = None`, missing `*_file` targets, bytes / Path / callable / SafeString
    entries, extend lists naming later classes or repeating a class, `template_name`
    together with `template_file`, plain (non-Component) mixins carrying a Media, a custom
    `media_class`, Media subclassing another Media.  Classes of one hierarchy in different
    directories only in part D (parent / child / grandchild, same-named files in both directories, every
    ordered choice of the first reads): a relative name denotes the file next to the module of the class
    that declared it, whatever is read first.
"""
from __future__ import annotations

import copy
import itertools
import os
import shutil
import sys
import tempfile
import types
import warnings

from mc import boot, par, seq

PID = "C16"
LEVEL = "model_checking"
DJANGO = {}

REL = "c16sub"  # component modules "live" in <root>/c16sub/
NMAX = 6
PAIRS = (("template", "template_file"), ("js", "js_file"), ("css", "css_file"))
PAIR_EXT = {"template": "html", "js": "js", "css": "css"}
FILE_OF = dict(PAIRS)

_ENV = None
_CASE = itertools.count()


# ------------------------------------------------------------------ environment
def pair_file(mark, inl, i):
    return f"{mark}_{inl}{i}.{PAIR_EXT[inl]}"


def pair_file_content(mark, inl, i):
    return f"/*{mark}:{inl}{i}:file*/"


def pair_inline(mark, inl, i):
    return "" if (inl == "js" and i == 1) else f"/*{mark}:{inl}{i}:inline*/"


def mfile(mark, i, ext):  # own file of class i (parts S, H, P)
    return f"{mark}_m{i}.{ext}"


def pfile(mark, i):
    return f"{mark}_p{i}.css"


def xfile(mark, k, ext):  # shared pool (parts L, F)
    return f"{mark}_x{k}.{ext}"


def env_open(seed):
    global _ENV
    mark = "abcdefgh"[seed % 8]
    root = tempfile.mkdtemp(prefix="verif-c16-")
    sub = os.path.join(root, REL)
    os.makedirs(sub)

    def write(path, text):
        with open(path, "w") as f:
            f.write(text)

    for i in range(NMAX):
        d = sub if i % 2 == 0 else root  # next to the module / in the components dir itself
        for inl, _ in PAIRS:
            write(os.path.join(d, pair_file(mark, inl, i)), pair_file_content(mark, inl, i))
        # own Media files: js exists next to the module for even i, css for odd i
        if i % 2 == 0:
            write(os.path.join(sub, mfile(mark, i, "js")), "/**/")
        else:
            write(os.path.join(sub, mfile(mark, i, "css")), "/**/")
    write(os.path.join(sub, xfile(mark, 0, "js")), "/**/")
    write(os.path.join(sub, xfile(mark, 1, "css")), "/**/")
    boot.set_components_setting(dirs=[root])
    _ENV = {"root": root, "mark": mark}
    warnings.simplefilter("ignore")
    return _ENV


def env_close():
    global _ENV
    if _ENV and os.path.isdir(_ENV["root"]):
        shutil.rmtree(_ENV["root"], ignore_errors=True)
    _ENV = None


def norm_name(name):
    name = str(name)
    return name[len(REL) + 1:] if name.startswith(REL + "/") else name


# ------------------------------------------------------------------ building real classes
class World:
    """Fresh real classes for one hierarchy spec."""

    last = None

    def __init__(self, spec):
        from django_components import Component

        if World.last is not None:
            World.last.close()
        World.last = self
        self.spec = spec
        k = next(_CASE)
        self.modname = f"verif_c16_m{os.getpid()}_{k}"
        mod = types.ModuleType(self.modname)
        mod.__file__ = os.path.join(_ENV["root"], REL, "comp.py")
        sys.modules[self.modname] = mod
        self.classes = []
        self.insts = {}
        self.error = None  # (index, exception) when class creation failed
        for i, cs in enumerate(spec["classes"]):
            attrs = {"__module__": self.modname}
            m = cs.get("media")
            if m == "none":
                attrs["Media"] = None
            elif m is not None:
                d = {}
                if "js" in m:
                    d["js"] = copy.deepcopy(m["js"])
                if "css" in m:
                    d["css"] = copy.deepcopy(m["css"])
                if "extend" in m:
                    e = m["extend"]
                    d["extend"] = e if isinstance(e, bool) else [self.classes[j] for j in e]
                attrs["Media"] = type("Media", (), d)
            for inl, fil in PAIRS:
                p = cs.get(inl)
                if not p:
                    continue
                if p[0] == "inline":
                    attrs[inl] = p[1]
                elif p[0] == "file":
                    attrs[p[2] if len(p) > 2 else fil] = p[1]
                elif p[0] == "both":
                    attrs[inl] = p[1]
                    attrs[p[3] if len(p) > 3 else fil] = p[2]
            bases = tuple(self.classes[j] for j in cs["bases"]) or (Component,)
            try:
                cls = type(f"C16_{k}_{i}", bases, attrs)
            except Exception as e:  # noqa
                self.error = (i, e)
                break
            self.classes.append(cls)
        self.model = Model(spec, self.classes)

    def obj(self, i, via):
        if via == "cls":
            return self.classes[i]
        if i not in self.insts:
            self.insts[i] = self.classes[i]()
        return self.insts[i]

    def close(self):
        sys.modules.pop(self.modname, None)
        try:
            import django_components.component_media as cm

            cache = getattr(cm, "media_cache", None)
            if cache is not None:
                cache.clear()
        except Exception:
            pass
        self.classes = []
        self.insts = {}
        if World.last is self:
            World.last = None


def access(world, i, attr, via):
    """One read of a lazily resolved attribute -> JSON-able, hashable observation."""
    try:
        v = getattr(world.obj(i, via), attr)
        if attr == "media":
            return ("media", tuple(str(x) for x in v._js),
                    tuple(sorted((str(m), tuple(str(x) for x in lst)) for m, lst in v._css.items())))
    except Exception as e:  # noqa
        return ("exc", type(e).__name__, str(e)[:160])
    return ("val", v)


# ------------------------------------------------------------------ reference model
def _as_list(v):
    return [v] if isinstance(v, str) else list(v)


def declared(cs):
    """medium -> declared list of the class's own Media ({} when it has none)."""
    m = cs.get("media")
    if not isinstance(m, dict):
        return {}
    out = {}
    if m.get("js"):
        out["js"] = _as_list(m["js"])
    css = m.get("css")
    if css:
        if isinstance(css, dict):
            for medium, v in css.items():
                if v:
                    out["css:" + medium] = _as_list(v)
        else:
            out["css:all"] = _as_list(css)
    return out


def consistent(lists):
    """True when some total order is consistent with every list (successor graph acyclic)."""
    succ = {}
    for lst in lists:
        for a, b in zip(lst, lst[1:]):
            succ.setdefault(a, set()).add(b)
    state = {}

    def visit(x):
        state[x] = 1
        for y in succ.get(x, ()):
            s = state.get(y)
            if s == 1 or (s is None and not visit(y)):
                return False
        state[x] = 2
        return True

    return all(state.get(x) == 2 or visit(x) for x in list(succ))


def is_subsequence(small, big):
    it = iter(big)
    return all(x in it for x in small)


class Model:
    def __init__(self, spec, classes):
        self.spec = spec
        self.cs = spec["classes"]
        self.classes = classes
        self.idx = {c: i for i, c in enumerate(classes)}
        self.decl = [declared(cs) for cs in self.cs]
        self._memo = {}

    # which Media governs class i: (index of the class whose files are "own" | None, extend)
    def lookup(self, i, reading):
        if reading == "A":  # statement: the class's own Media
            m = self.cs[i].get("media")
            if isinstance(m, dict):
                return i, m.get("extend", True)
            return None, True
        for c in self.classes[i].__mro__:  # reading B: plain attribute lookup
            j = self.idx.get(c)
            if j is None:
                continue
            m = self.cs[j].get("media")
            if isinstance(m, dict):
                return j, m.get("extend", True)
            if m == "none":
                return None, True
        return None, True

    def contrib(self, i, reading):
        key = (i, reading)
        if key not in self._memo:
            own, ext = self.lookup(i, reading)
            sel = self.cs[i]["bases"] if ext is True else ([] if ext is False else ext)
            out = set() if own is None else {own}
            for b in sel:
                out |= self.contrib(b, reading)
            self._memo[key] = frozenset(out)
        return self._memo[key]

    def contrib_all_bases(self, i):
        """what class i would contribute with extend = True (to measure whether extend selects anything)"""
        own, _ = self.lookup(i, "A")
        out = set() if own is None else {own}
        for b in self.cs[i]["bases"]:
            out |= self.contrib(b, "A")
        return frozenset(out)

    def agnostic(self, i):
        return self.contrib(i, "A") != self.contrib(i, "B")

    def _check_media_reading(self, obs, contributing):
        got = {"js": [norm_name(x) for x in obs[1]]}
        for medium, lst in obs[2]:
            got["css:" + medium] = [norm_name(x) for x in lst]
        lists = {}
        for k in sorted(contributing):
            for medium, lst in self.decl[k].items():
                lists.setdefault(medium, []).append((k, lst))
        for medium in sorted(set(got) | set(lists)):
            res = got.get(medium, [])
            exp = set()
            for _, lst in lists.get(medium, []):
                exp |= set(lst)
            if len(set(res)) != len(res):
                return "dup", f"{medium}: a file appears twice in {res}"
            if set(res) != exp:
                return "set", f"{medium}: files {sorted(res)} != union {sorted(exp)} of classes {sorted(contributing)}"
            ls = [lst for _, lst in lists.get(medium, [])]
            if consistent(ls):
                for k, lst in lists.get(medium, []):
                    if not is_subsequence(lst, res):
                        return "order", (f"{medium}: result {res} breaks the list {lst} declared by class {k} although "
                                         f"the declared lists {ls} are mutually consistent")
        return None

    def check(self, i, attr, obs):
        """-> None | (clause, text)"""
        if obs[0] == "exc":
            return "exception", f"{attr} of class {i} raised {obs[1]}: {obs[2]}"
        if attr == "media":
            pa = self._check_media_reading(obs, self.contrib(i, "A"))
            if pa is None:
                return None
            if self.agnostic(i) and self._check_media_reading(obs, self.contrib(i, "B")) is None:
                return None
            return pa[0], f"media of class {i}: {pa[1]}"
        inl = attr[:-5] if attr.endswith("_file") else attr
        exp_val, exp_files = self.pair_expected(i, inl)
        v = obs[1]
        if attr.endswith("_file"):
            ok = (v is None) if exp_files is None else (v in exp_files)
            if not ok:
                return "pair", f"{attr} of class {i} is {v!r}, expected {sorted(exp_files) if exp_files else None}"
            return None
        if v != exp_val:
            return "pair", f"{attr} of class {i} is {v!r}, nearest definer in the MRO gives {exp_val!r}"
        return None

    def definer(self, i, inl):
        for c in self.classes[i].__mro__:
            j = self.idx.get(c)
            if j is not None and self.cs[j].get(inl):
                return j
        return None

    def pair_expected(self, i, inl):
        j = self.definer(i, inl)
        if j is None:
            return None, None
        p = self.cs[j][inl]
        if p[0] == "inline":
            return p[1], None
        name = p[1]
        return file_content(name), {name, REL + "/" + name}


def file_content(name):
    # inverse of pair_file(): "<mark>_<inl><i>.<ext>"
    mark, rest = name.split("_", 1)
    stem = rest.rsplit(".", 1)[0]
    inl = stem.rstrip("0123456789")
    return pair_file_content(mark, inl, int(stem[len(inl):]))


# ------------------------------------------------------------------ hierarchy enumeration
_SHAPES = {}


def shapes(n, max_bases):
    """All creation-ordered hierarchies: bases = () (Component only) or an ordered subset of earlier
    classes that Python accepts (MRO-consistent, linearised by Python itself)."""
    key = (n, max_bases)
    if key in _SHAPES:
        return _SHAPES[key]

    class Root:
        pass

    out = []

    def rec(i, cur, classes):
        if i == n:
            out.append(tuple(cur))
            return
        opts = [()]
        for k in range(1, max_bases + 1):
            opts += list(itertools.permutations(range(i), k))
        for b in opts:
            try:
                c = type("X", tuple(classes[j] for j in b) or (Root,), {})
            except TypeError:
                continue
            rec(i + 1, cur + [b], classes + [c])

    rec(0, [], [])
    _SHAPES[key] = out
    return out


def single_sink(shape):
    seen, st = set(), [len(shape) - 1]
    while st:
        x = st.pop()
        if x not in seen:
            seen.add(x)
            st += list(shape[x])
    return len(seen) == len(shape)


def ext_options(i, max_ext):
    out = [True, False]
    for k in range(1, max_ext + 1):
        out += [list(p) for p in itertools.permutations(range(i), k)]
    return out


def s_media(mark, i, kind, ext):
    m = {}
    if kind == "files":
        js = mfile(mark, i, "js")
        css = mfile(mark, i, "css")
        m["js"] = js if i % 2 == 0 else [js]
        m["css"] = css if i % 3 == 0 else [css] if i % 3 == 1 else {"all": css, "print": [pfile(mark, i)]}
    if not (ext is True and i % 2 == 1):  # extend=True is explicit on even classes, implied on odd ones
        m["extend"] = ext
    return m


def label_options(mark, i, max_ext, mode):
    exts = ext_options(i, min(max_ext, i))
    if mode == "tf":
        exts = [True, False]
    out = [None]
    if mode in ("full", "mid"):
        out.append("none")
    out += [s_media(mark, i, "files", e) for e in exts]
    if mode == "full":
        out += [s_media(mark, i, "empty", e) for e in exts]
    elif mode == "mid":
        out.append(s_media(mark, i, "empty", False))
    return out


def gen_S(mark, n, max_bases, max_ext, mode, sink_only=False):
    for shape in shapes(n, max_bases):
        if sink_only and not single_sink(shape):
            continue
        for labels in itertools.product(*[label_options(mark, i, max_ext, mode) for i in range(n)]):
            classes = []
            for i in range(n):
                c = {"bases": list(shape[i])}
                if labels[i] is not None:
                    c["media"] = labels[i]
                classes.append(c)
            yield {"classes": classes}


def orders_for(n, mode):
    """Access orders as lists of [class, via]."""
    if mode == "all":
        perms = list(itertools.permutations(range(n)))
    else:  # every choice of the class accessed first (rest ascending) + descending
        perms = [tuple([k] + [j for j in range(n) if j != k]) for k in range(n)]
        d = tuple(range(n - 1, -1, -1))
        if d not in perms:
            perms.append(d)
    out = []
    for pi, p in enumerate(perms):
        out.append([[c, "cls" if (pi + pos) % 2 == 0 else "inst"] for pos, c in enumerate(p)])
    return out


def describe(spec):
    """one-line rendering of a hierarchy for failure messages"""
    out = []
    for i, c in enumerate(spec["classes"]):
        bases = ",".join(f"c{j}" for j in c["bases"]) or "Component"
        body = []
        m = c.get("media")
        if m == "none":
            body.append("Media=None")
        elif m is not None:
            inner = []
            for k in ("js", "css"):
                if k in m:
                    inner.append(f"{k}={m[k]!r}")
            if "extend" in m:
                e = m["extend"]
                inner.append("extend=" + (repr(e) if isinstance(e, bool) else "[" + ",".join(f"c{j}" for j in e) + "]"))
            body.append("Media(" + ", ".join(inner) + ")")
        for inl, fil in PAIRS:
            p_ = c.get(inl)
            if p_:
                if p_[0] in ("inline", "both"):
                    body.append(f"{inl}={p_[1]!r}")
                if p_[0] == "file":
                    body.append(f"{p_[2] if len(p_) > 2 else fil}={p_[1]!r}")
                if p_[0] == "both":
                    body.append(f"{p_[3] if len(p_) > 3 else fil}={p_[2]!r}")
        out.append(f"c{i}({bases}): " + ("; ".join(body) or "pass"))
    return " | ".join(out)


# ------------------------------------------------------------------ media cases (parts S, L, F)
def run_media_case(agg, part, idx, spec, orders, tags=False, verbose=False):
    """All orders of .media over the classes of one hierarchy. Returns True when clean."""
    n = len(spec["classes"])
    first = {}
    ok = True
    agg.states += 1
    nontrivial = False
    for oi, order in enumerate(orders):
        w = World(spec)
        if w.error:
            raise par.HarnessError(f"class creation failed for {spec}: {w.error[1]!r}")
        if oi == 0:
            mo = w.model
            for i in range(n):
                ca = mo.contrib(i, "A")
                if part == "L":  # two contributing lists share a file: de-duplication / ordering is exercised
                    for medium in ("js",):
                        ls = [set(mo.decl[k].get(medium, [])) for k in ca]
                        if any(a & b for a, b in itertools.combinations(ls, 2)):
                            nontrivial = True
                elif len(ca) >= 2 or ca != mo.contrib_all_bases(i):  # a real merge, or extend really selects
                    nontrivial = True
                agg.expected["agnostic" if mo.agnostic(i) else f"contrib{min(len(ca), 4)}"] += 1
        for c, via in order:
            obs = access(w, c, "media", via)
            agg.transitions += 1
            agg.validated += 1
            agg.observe((c, obs))
            if verbose:
                print(f"  order {oi} class {c} via {via}: {obs}")
            problem = w.model.check(c, "media", obs)
            if problem is None and oi == 0 and w.model.agnostic(c):
                a_ok = w.model._check_media_reading(obs, w.model.contrib(c, "A")) is None
                agg.extra["agnostic_obs_matching_own_Media_reading" if a_ok else "agnostic_obs_matching_only_attribute_lookup_reading"] += 1
            if problem is None and c in first and first[c][0] != obs:
                problem = ("access-order", f"media of class {c} is {obs[1:]} in access order {order} but "
                                           f"{first[c][0][1:]} in access order {first[c][1]}")
            first.setdefault(c, (obs, order))
            if problem is None and tags and obs[0] == "media":
                problem = check_tags(w, c, via, obs)
            if problem:
                ok = False
                agg.fail(f"{part}/{problem[0]}/n={n}", f"[{part}] {problem[1]} -- {describe(spec)}",
                         {"part": part, "idx": idx, "spec": spec, "orders": [order] if problem[0] != "access-order" else [first[c][1], order],
                          "tags": tags})
                break
        w.close()
        if not ok:
            break
    if nontrivial:
        agg.nontrivial += 1
    return ok


def check_tags(w, c, via, obs):
    media = getattr(w.obj(c, via), "media")
    js_tags = list(media.render_js())
    css_tags = list(media.render_css())
    for name in obs[1]:
        if sum(1 for t in js_tags if (name + '"') in t) != 1:
            return "tags", f"js file {name} of class {c} is not in exactly one rendered tag: {js_tags}"
    ncss = sum(len(lst) for _, lst in obs[2])
    if len(js_tags) != len(obs[1]) or len(css_tags) != ncss:
        return "tags", f"class {c}: {len(js_tags)} js / {len(css_tags)} css tags for {len(obs[1])} / {ncss} files"
    return None


def s_stream(mark, tier):
    """(spec, orders) in size order; the same stream in every worker."""
    for n in (1, 2, 3):
        for spec in gen_S(mark, n, 3, 2, "full"):
            yield spec, orders_for(n, "all")
    if tier == "quick":
        for spec in gen_S(mark, 4, 3, 1, "lite"):
            yield spec, orders_for(4, "first")
    else:
        for spec in gen_S(mark, 4, 3, 1, "lite"):
            yield spec, orders_for(4, "all")
        for spec in gen_S(mark, 4, 3, 2, "mid", sink_only=True):
            yield spec, orders_for(4, "first")
        for spec in gen_S(mark, 5, 2, 0, "tf", sink_only=True):
            yield spec, orders_for(5, "first")
        for spec in gen_S6(mark):
            yield spec, [o for o in orders_for(6, "first") if o[0][0] in (0, 5)]


def gen_S6(mark):
    """n = 6: every single-sink shape (<= 2 bases); every class has files and extend = True except at most one
    class without Media and at most one class with extend = False (cut alphabet, DESIGN C16)."""
    n = 6
    for shape in shapes(n, 2):
        if not single_sink(shape):
            continue
        for absent in [None] + list(range(n)):
            for false in [None] + list(range(n)):
                if absent is not None and absent == false:
                    continue
                classes = []
                for i in range(n):
                    c = {"bases": list(shape[i])}
                    if i != absent:
                        c["media"] = s_media(mark, i, "files", i != false)
                    classes.append(c)
                yield {"classes": classes}


def l_lists(pool, maxlen):
    out = [[]]
    for k in range(1, maxlen + 1):
        out += [list(p) for p in itertools.permutations(pool, k)]
    return out


def l_spec(mark, shape, exts, lists):
    classes = []
    for i, b in enumerate(shape):
        js = [xfile(mark, k, "js") for k in lists[i]]
        css = [xfile(mark, k, "css") for k in lists[i]]
        m = {"extend": exts[i]}
        if js:
            m["js"] = js
            m["css"] = {"all": css, "print": [pfile(mark, k) for k in reversed(lists[i])]}
        classes.append({"bases": list(b), "media": m})
    return {"classes": classes}


def iso_classes(shape_list):
    """Groups creation-ordered shapes that differ only in the order in which unrelated classes were created
    (a relabelling of the classes that keeps every ordered base list).  -> sorted list of sorted groups."""
    groups = {}
    for shape in shape_list:
        n = len(shape)
        best = None
        for sigma in itertools.permutations(range(n)):
            if any(sigma[b] >= sigma[i] for i in range(n) for b in shape[i]):
                continue
            t = [None] * n
            for i in range(n):
                t[sigma[i]] = tuple(sigma[b] for b in shape[i])
            t = tuple(t)
            if best is None or t < best:
                best = t
        groups.setdefault(best, []).append(shape)
    return [sorted(g) for _, g in sorted(groups.items())]


def first_use_canonical(ls):
    """True when the pool files appear in the order 0, 1, 2, ... on their first use (classes in creation order,
    each list left to right): exactly one representative of every orbit of the pool-renaming symmetry."""
    nxt = 0
    for lst in ls:
        for k in lst:
            if k > nxt:
                return False
            if k == nxt:
                nxt += 1
    return True


def l4_stream(mark, shape_list, rot):
    """n = 4, extend = True everywhere, pool of 3 files, every ordered sub-list of <= 2 entries per class, modulo
    renaming of the pool; `rot` (from VERIF_SEED) only chooses which renaming represents an orbit."""
    perm = list(itertools.permutations(range(3)))[rot % 6]
    lists = l_lists([0, 1, 2], 2)
    o = orders_for(4, "first")
    orders = [o[0], o[-1]]  # ancestors first (ascending) and sink first (descending)
    for shape in shape_list:
        for ls in itertools.product(lists, repeat=4):
            if first_use_canonical(ls):
                yield l_spec(mark, shape, [True] * 4, [[perm[k] for k in lst] for lst in ls]), orders


def l_stream(mark, tier):
    pool = [0, 1] if tier == "quick" else [0, 1, 2]
    lists = l_lists(pool, 2)
    for n in (2, 3):
        for shape in shapes(n, 3):
            ext_opts = [[True] + [e for e in ext_options(i, 2) if not isinstance(e, bool)] for i in range(n)]
            for exts in itertools.product(*ext_opts):
                for ls in itertools.product(lists, repeat=n):
                    yield l_spec(mark, shape, exts, ls), orders_for(n, "first")
    rot = "abcdefgh".index(mark)
    sinks4 = [s for s in shapes(4, 2) if single_sink(s)]
    if tier == "quick":
        # one creation order per hierarchy (the seed rotates which one): 12 of the 20 single-sink shapes
        yield from l4_stream(mark, [g[rot % len(g)] for g in iso_classes(sinks4)], rot)
    else:
        lists2 = l_lists([0, 1], 2)
        for shape in sinks4:
            for ls in itertools.product(lists2, repeat=4):
                yield l_spec(mark, shape, [True] * 4, ls), orders_for(4, "first")[-2:]
        yield from l4_stream(mark, sinks4, rot)


def f_forms(mark):
    a, b = xfile(mark, 0, "js"), xfile(mark, 1, "js")
    s, t, p = xfile(mark, 0, "css"), xfile(mark, 1, "css"), pfile(mark, 0)
    js = [None, [], a, [a], [a, b]]
    css = [None, {}, [], s, [s], [s, t], {"all": s}, {"all": [s, t]}, {"all": s, "print": [p]}, {"print": p},
           {"all": [s], "print": p}]
    out = []
    for j in js:
        for c in css:
            m = {}
            if j is not None:
                m["js"] = j
            if c is not None:
                m["css"] = c
            out.append(m)
    return out


def f_stream(mark, tier):
    forms = f_forms(mark)
    for m in forms:
        yield {"classes": [{"bases": [], "media": dict(m)}]}, orders_for(1, "all")
        yield {"classes": [{"bases": [], "media": dict(m, extend=False)}]}, orders_for(1, "all")
    for m0 in forms:
        for m1 in forms:
            for ext in (True, False):
                yield {"classes": [{"bases": [], "media": dict(m0)}, {"bases": [0], "media": dict(m1, extend=ext)}]}, orders_for(2, "all")


MEDIA_STREAMS = {"S": s_stream, "L": l_stream, "F": f_stream}


def _worker_media(w, W, payload):
    part, tier, mark = payload
    agg = par.Agg()
    for idx, (spec, orders) in enumerate(MEDIA_STREAMS[part](mark, tier)):
        if idx % W != w:
            continue
        if not run_media_case(agg, part, idx, spec, orders, tags=(part == "F")):
            if len(agg.failures) >= 40:
                break
        elif idx % 997 == 0:
            agg.sample({"part": part, "spec": spec, "orders": orders[:1]})
    if World.last:
        World.last.close()
    return agg


# ------------------------------------------------------------------ part P: pair rule
def p_pair(mark, inl, i, state, spelling=False):
    if state == 0:
        return None
    if state == 1:
        return ["inline", pair_inline(mark, inl, i)]
    p = ["file", pair_file(mark, inl, i)]
    if spelling and inl == "template":
        p.append("template_name")
    return p


def p_spec(mark, shape, states, rot, full=False):
    """states[i] in 0..2 (rot scheme) or a triple per class (full product)."""
    classes = []
    for i, b in enumerate(shape):
        c = {"bases": list(b)}
        for pi, (inl, _) in enumerate(PAIRS):
            st = states[i][pi] if full else (states[i] + (pi - rot)) % 3
            p = p_pair(mark, inl, i, st, spelling=(i == 1))
            if p:
                c[inl] = p
        if i % 2 == 1:  # some classes also carry a Media with a component-relative file
            c["media"] = {"js": mfile(mark, i - 1, "js"), "css": [mfile(mark, i, "css")]}
        classes.append(c)
    return {"classes": classes}


P_ATTRS = ["template", "template_file", "js", "js_file", "css", "css_file"]


def p_stream(mark, tier):
    triples = list(itertools.product(range(3), repeat=3))
    for n in (1, 2):
        for shape in shapes(n, 3):
            for states in itertools.product(triples, repeat=n):
                yield p_spec(mark, shape, states, 0, full=True)
    for n in ((3,) if tier == "quick" else (3, 4)):
        for shape in shapes(n, 3 if n == 3 else 2):
            for states in itertools.product(range(3), repeat=n):
                for rot in range(3):
                    yield p_spec(mark, shape, states, rot)


def run_pair_case(agg, idx, spec, verbose=False):
    n = len(spec["classes"])
    agg.states += 1
    sweeps = [
        [(i, a, "cls") for i in range(n) for a in P_ATTRS] + [(i, a, "inst") for i in range(n) for a in ("css", "js", "template")],
        [(i, a, "inst" if a in ("template", "js", "css") else "cls") for i in reversed(range(n)) for a in reversed(P_ATTRS)]
        + [(i, "media", "cls") for i in range(n)],
    ]
    first = {}
    inherited = False
    for si, sweep in enumerate(sweeps):
        w = World(spec)
        if w.error:
            agg.fail(f"P/create/n={n}", f"[P] creating class {w.error[0]} raised {w.error[1]!r} although no class defines both members of a pair",
                     {"part": "P", "idx": idx, "spec": spec})
            w.close()
            return False
        if si == 0:
            for i in range(n):
                for inl, _ in PAIRS:
                    j = w.model.definer(i, inl)
                    agg.expected["undefined" if j is None else "own" if j == i else "inherited"] += 1
                    if j is not None and j != i:
                        inherited = True
        for i, attr, via in sweep:
            obs = access(w, i, attr, via)
            agg.transitions += 1
            agg.validated += 1
            agg.observe((i, attr, obs))
            if verbose:
                print(f"  sweep {si}: class {i}.{attr} via {via}: {obs}")
            problem = w.model.check(i, attr, obs)
            if problem is None and (i, attr) in first and first[(i, attr)] != obs:
                problem = ("access-order", f"{attr} of class {i} is {obs[1:]} in sweep {si} but {first[(i, attr)][1:]} in sweep 0")
            first.setdefault((i, attr), obs)
            if problem:
                agg.fail(f"P/{problem[0]}/{attr}", f"[P] {problem[1]} -- {describe(spec)}", {"part": "P", "idx": idx, "spec": spec})
                w.close()
                return False
        w.close()
    if inherited:
        agg.nontrivial += 1
    return True


def pb_stream(mark, tier):
    """A class that defines both members of one pair; everything else varies."""
    for n in (1, 2, 3):
        for shape in shapes(n, 2):
            for k in range(n):
                for inl, _ in PAIRS:
                    for others in range(3):
                        for anc in range(3):
                            classes = []
                            for i, b in enumerate(shape):
                                c = {"bases": list(b)}
                                for pi, (inl2, _) in enumerate(PAIRS):
                                    if i == k and inl2 == inl:
                                        c[inl2] = ["both", pair_inline(mark, inl2, i) or "x", pair_file(mark, inl2, i)]
                                    else:
                                        p = p_pair(mark, inl2, i, ((others if i == k else anc) + pi) % 3)
                                        if p:
                                            c[inl2] = p
                                classes.append(c)
                            yield {"classes": classes}, k, inl
    # template_name is an alias of template_file
    yield {"classes": [{"bases": [], "template": ["both", "x", pair_file(mark, "template", 0), "template_name"]}]}, 0, "template"


def run_both_case(agg, idx, spec, k, inl, verbose=False):
    agg.states += 1
    agg.nontrivial += 1
    w = World(spec)
    agg.transitions += 1
    agg.validated += 1
    agg.expected["rejected"] += 1
    ok = True
    if w.error is not None:
        if w.error[0] != k:
            agg.fail(f"P/create/n={len(spec['classes'])}", f"[P] creating class {w.error[0]} raised {w.error[1]!r}; only class {k} defines both {inl} and {FILE_OF[inl]}",
                     {"part": "PB", "idx": idx, "spec": spec, "k": k, "inl": inl})
            ok = False
        agg.observe(("rejected-at-creation", type(w.error[1]).__name__))
    else:
        o1 = access(w, k, inl, "cls")
        o2 = access(w, k, FILE_OF[inl], "cls")
        agg.transitions += 2
        agg.observe(("late", o1[0], o2[0]))
        if verbose:
            print("  created; reads:", o1, o2)
        if o1[0] != "exc" and o2[0] != "exc":
            agg.fail(f"P/both-accepted/{inl}", f"[P] class {k} defines both {inl} and {FILE_OF[inl]} and is accepted: {inl} -> {o1[1]!r} -- {describe(spec)}",
                     {"part": "PB", "idx": idx, "spec": spec, "k": k, "inl": inl})
            ok = False
    w.close()
    return ok


def _worker_pairs(w, W, payload):
    tier, mark = payload
    agg = par.Agg()
    idx = -1
    for idx, spec in enumerate(p_stream(mark, tier)):
        if idx % W != w:
            continue
        ok = run_pair_case(agg, idx, spec)
        if ok and idx % 499 == 0:
            agg.sample({"part": "P", "spec": spec})
        if len(agg.failures) >= 40:
            break
    base = idx + 1
    for j, (spec, k, inl) in enumerate(pb_stream(mark, tier)):
        if (base + j) % W != w:
            continue
        run_both_case(agg, base + j, spec, k, inl)
        if len(agg.failures) >= 40:
            break
    if World.last:
        World.last.close()
    return agg


# ------------------------------------------------------------------ part A: partial first-access orders of the pair attributes
A_KINDS = {
    "ci": [(a, "cls") for a in ("template", "js", "css")],  # inline members read on the class
    "cf": [(a, "cls") for a in ("template_file", "js_file", "css_file")],  # file members read on the class
    "in": [(a, "inst") for a in ("template", "js", "css")],  # inline members read on an instance
}


def chain_shape(n):
    return tuple(() if i == 0 else (i - 1,) for i in range(n))


def a_visit_seqs(n, mode):
    """Every order of the n classes x a kind of read per visited class ("all": every assignment of kinds to the
    positions, "uniform": the same kind at every position).  Each read is checked when it happens, so the prefixes of
    these sequences are exactly all ordered subsets of the classes: every choice of which classes have been touched
    (and in which order) before a given class is read for the first time."""
    kinds = sorted(A_KINDS)
    for perm in itertools.permutations(range(n)):
        if mode == "all":
            assignments = itertools.product(kinds, repeat=n)
        else:
            assignments = [[k] * n for k in kinds]
        for ks in assignments:
            yield [[c, k] for c, k in zip(perm, ks)]


def a_stream(mark, tier):
    """(spec, n, mode): per class one state in {absent, inline, file} for each pair (the pairs of one class are
    shifted against each other, so each pair sees the full 3^n product; part P has the cross-pair product)."""
    plan = []
    for shape in shapes(3, 3):
        plan.append((shape, "all" if (tier != "quick" or shape == chain_shape(3)) else "uniform"))
    if tier == "quick":
        plan.append((chain_shape(4), "uniform"))
    else:
        plan.append((chain_shape(4), "all"))
        plan += [(s, "uniform") for s in shapes(4, 2) if single_sink(s) and s != chain_shape(4)]
        plan.append((chain_shape(5), "uniform"))
    for shape, mode in plan:
        n = len(shape)
        for states in itertools.product(range(3), repeat=n):
            yield p_spec(mark, shape, states, 0), n, mode


def run_access_case(agg, idx, spec, seqs, verbose=False):
    """One hierarchy, many visit sequences (a fresh set of real classes for each)."""
    n = len(spec["classes"])
    agg.states += 1
    first = {}
    measured = False
    for seq_ in seqs:
        w = World(spec)
        if w.error:
            agg.fail(f"A/create/n={n}", f"[A] creating class {w.error[0]} raised {w.error[1]!r} although no class defines both members of a pair",
                     {"part": "A", "idx": idx, "spec": spec, "seqs": [seq_]})
            w.close()
            return False
        if not measured:
            measured = True
            shadow = False
            for i in range(n):
                for inl, _ in PAIRS:
                    definers = [w.model.idx[c] for c in w.classes[i].__mro__ if c in w.model.idx and spec["classes"][w.model.idx[c]].get(inl)]
                    kind = "undefined" if not definers else "own" if definers[0] == i else "inherited"
                    if definers and definers[0] != i and len(definers) >= 2:
                        kind = "inherited, nearest definer shadows a farther one"
                        shadow = True
                    agg.expected[kind] += 1
            if shadow:  # the answer for some class depends on *which* ancestor is consulted
                agg.nontrivial += 1
        for pos, (c, kind) in enumerate(seq_):
            done = seq_[:pos + 1]  # the visits so far (the shortest history that shows a problem)
            for attr, via in A_KINDS[kind]:
                obs = access(w, c, attr, via)
                agg.transitions += 1
                agg.validated += 1
                agg.observe((c, attr, obs))
                if verbose:
                    print(f"  visit class {c} ({kind}): {attr} via {via}: {obs}")
                problem = w.model.check(c, attr, obs)
                if problem is None and (c, attr) in first and first[(c, attr)][0] != obs:
                    problem = ("access-order", f"{attr} of class {c} is {obs[1:]} after the visits {done} but "
                                               f"{first[(c, attr)][0][1:]} after the visits {first[(c, attr)][1]}")
                first.setdefault((c, attr), (obs, done))
                if problem:
                    seqs_out = [done] if problem[0] != "access-order" else [first[(c, attr)][1], done]
                    agg.fail(f"A/{problem[0]}/{attr}", f"[A] visits {done}: {problem[1]} -- {describe(spec)}",
                             {"part": "A", "idx": idx, "spec": spec, "seqs": seqs_out})
                    w.close()
                    return False
        w.close()
    return True


def _worker_access(w, W, payload):
    tier, mark = payload
    agg = par.Agg()
    for idx, (spec, n, mode) in enumerate(a_stream(mark, tier)):
        if idx % W != w:
            continue
        ok = run_access_case(agg, idx, spec, a_visit_seqs(n, mode))
        agg.extra["a_visit_sequences"] += sum(1 for _ in a_visit_seqs(n, mode))
        if ok and idx % 97 == 0:
            agg.sample({"part": "A", "spec": spec, "seqs": list(itertools.islice(a_visit_seqs(n, mode), 1, 2))})
        if len(agg.failures) >= 40:
            break
    if World.last:
        World.last.close()
    return agg


# ------------------------------------------------------------------ part H: access histories (SEQ)
def h_ops(n):
    ops = []
    for i in range(n):
        for attr in ("media", "template", "js", "css", "template_file", "js_file", "css_file"):
            ops.append([attr, i, "cls"])
        for attr in ("media", "template", "js", "css"):
            ops.append([attr, i, "inst"])
    return ops


def h_spec(mark, base_spec, rot):
    spec = copy.deepcopy(base_spec)
    for i, c in enumerate(spec["classes"]):
        for pi, (inl, _) in enumerate(PAIRS):
            p = p_pair(mark, inl, i, (i + rot + pi) % 3)
            if p:
                c[inl] = p
    return spec


def h_stream(mark, tier):
    for n in (1, 2):
        for base in gen_S(mark, n, 2, 1, "mid"):
            for rot in range(3):
                yield h_spec(mark, base, rot)
    if tier != "quick":
        for base in gen_S(mark, 3, 2, 1, "lite"):
            for rot in range(3):
                yield h_spec(mark, base, rot)


class HWorld(World):
    def __init__(self, spec, solo):
        super().__init__(spec)
        self.solo = solo


def h_step(w, op):
    attr, i, via = op
    obs = access(w, i, attr, via)
    problem = w.model.check(i, attr, obs)
    if problem is None:
        s = w.solo.get((attr, i))
        if s is not None and s != obs:
            problem = ("access-order", f"{attr} of class {i} read via {via} is {obs[1:]}; the same read on an untouched hierarchy gives {s[1:]}")
    return obs, (f"{problem[0]}|{problem[1]}" if problem else None)


def h_canon(w):
    import dataclasses

    import django_components.component_media as cm

    cache = getattr(cm, "media_cache", {})
    out = []
    for c in w.classes:
        d = c.__dict__.get("_component_media")
        if d is not None and dataclasses.is_dataclass(d):
            fields = tuple((f.name, repr(getattr(d, f.name))) for f in dataclasses.fields(d) if f.name not in ("comp_cls", "Media"))
        else:
            fields = repr(d)
        M = c.__dict__.get("Media")
        mrepr = None if M is None else (repr(M.__dict__.get("js")), repr(M.__dict__.get("css")))
        e = cache.get(c)
        crepr = None if e is None else (repr(getattr(e, "_js_lists", None)), repr(getattr(e, "_css_lists", None)))
        out.append((fields, mrepr, crepr))
    return tuple(out)


def run_history_case(agg, idx, spec, unmerged_depth=0, verbose=False):
    n = len(spec["classes"])
    ops = h_ops(n)
    solo = {}
    w = World(spec)
    if w.error:
        raise par.HarnessError(f"class creation failed for {spec}: {w.error[1]!r}")
    for attr, i, via in ops:
        if via == "cls":
            w = World(spec)
            solo[(attr, i)] = access(w, i, attr, "cls")
    r = seq.bfs(lambda: HWorld(spec, solo), ops, h_step, h_canon, max_states=4000, fail_limit=3)
    agg.states += r.states
    agg.transitions += r.transitions
    agg.validated += r.transitions
    agg.nontrivial += max(0, r.states - 1)
    agg.expected[f"states{min(r.states, 64)}"] += 1
    for o in r.outcomes:
        agg.observe(o)
    agg.extra["h_hierarchies"] += 1
    if not r.fixpoint:
        agg.caps.append(f"history BFS of hierarchy {idx} did not reach a fixpoint")
    ok = True
    for problem, hist in r.failures[:1]:
        clause, text = problem.split("|", 1)
        ok = False
        if verbose:
            print("  history", hist, "->", text)
        agg.fail(f"H/{clause}/{hist[-1][0]}", f"[H] after {hist[:-1]}: {text} -- {describe(spec)}", {"part": "H", "idx": idx, "spec": spec, "history": hist})
    if ok and unmerged_depth:
        n_seq, n_tr, failures, outcomes, canon_states = seq.all_sequences(lambda: HWorld(spec, solo), ops, h_step, unmerged_depth, canon=h_canon)
        agg.extra["h_unmerged_sequences"] += n_seq
        agg.transitions += n_tr
        agg.validated += n_tr
        extra = canon_states - set(r.seen.keys())
        if extra and not failures:
            raise par.HarnessError(f"history canonicalisation unsound for hierarchy {idx}: unmerged search reached {len(extra)} states the BFS did not")
        for problem, hist in failures[:1]:
            clause, text = problem.split("|", 1)
            ok = False
            agg.fail(f"H/{clause}/{hist[-1][0]}", f"[H] after {hist[:-1]}: {text} -- {describe(spec)}", {"part": "H", "idx": idx, "spec": spec, "history": hist})
    if World.last:
        World.last.close()
    return ok


def _worker_hist(w, W, payload):
    tier, mark = payload
    agg = par.Agg()
    for idx, spec in enumerate(h_stream(mark, tier)):
        if idx % W != w:
            continue
        n = len(spec["classes"])
        ok = run_history_case(agg, idx, spec, unmerged_depth=2 if (n <= 2 and idx % 5 == 0) else 0)
        if ok and idx % 97 == 0:
            agg.sample({"part": "H", "spec": spec})
        if len(agg.failures) >= 20:
            break
    return agg


# ------------------------------------------------------------------ driver
def _selftest(mark):
    """DESIGN 1.3: the first cases give identical observations when executed twice."""
    runs = []
    for _ in range(2):
        obs = []
        for idx, (spec, orders) in enumerate(s_stream(mark, "quick")):
            if idx >= 50:
                break
            w = World(spec)
            for c, via in orders[-1]:
                obs.append(access(w, c, "media", via))
            w.close()
        runs.append(obs)
    if runs[0] != runs[1]:
        raise par.HarnessError("non-deterministic observations in the self test")


_T = [0.0]


# ------------------------------------------------------------------ part D: one hierarchy, two directories
# Parent P lives in <root>/c16sub/, child C (and, n = 3, grandchild G next to P again) in <root>/c16sub2/.  Both directories
# hold files with the SAME names and different content: a relative name declared by a class denotes the file next
# to the module of the class that DECLARED it - whoever is read first.
REL2 = "c16sub2"
D_CHILD_MEDIA = ("absent", "empty", "own")     # C has no Media / an empty Media / a Media with a file of its own dir
D_CHILD_PAIR = ("absent", "file")               # C.js_file absent (inherits P's) / declared again (same name, C's directory)
D_READS = (("P", "media"), ("C", "media"), ("C", "js"), ("P", "js"), ("Ci", "media"), ("G", "media"), ("G", "js"))


def d_env(mark):
    for rel in (REL, REL2):
        d = os.path.join(_ENV["root"], rel)
        os.makedirs(d, exist_ok=True)
        for name, text in ((f"{mark}_d_same.js", "/*m %s*/"), (f"{mark}_d_same.css", "/*m %s*/"), (f"{mark}_d_pair.js", "/*pair %s*/"),
                           (f"{mark}_d_own.js", "/*own %s*/")):
            with open(os.path.join(d, name), "w") as f:
                f.write(text % rel)


def d_world(mark, cmedia, cpair, with_g):
    from django_components import Component

    k = next(_CASE)
    mods = {}
    for tag, rel in (("p", REL), ("c", REL2)):
        name = f"verif_c16_d{os.getpid()}_{k}_{tag}"
        mod = types.ModuleType(name)
        mod.__file__ = os.path.join(_ENV["root"], rel, "comp.py")
        sys.modules[name] = mod
        mods[tag] = name
    P = type(f"D{k}P", (Component,), {"__module__": mods["p"], "template": "<p>p</p>", "js_file": f"{mark}_d_pair.js",
                                      "Media": type("Media", (), {"js": [f"{mark}_d_same.js"], "css": [f"{mark}_d_same.css"]})})
    cattrs = {"__module__": mods["c"]}
    if cmedia == "empty":
        cattrs["Media"] = type("Media", (), {})
    elif cmedia == "own":
        cattrs["Media"] = type("Media", (), {"js": [f"{mark}_d_own.js"]})
    if cpair == "file":
        cattrs["js_file"] = f"{mark}_d_pair.js"
    C = type(f"D{k}C", (P,), cattrs)
    classes = {"P": P, "C": C}
    if with_g:
        classes["G"] = type(f"D{k}G", (C,), {"__module__": mods["p"]})
    return classes, list(mods.values())


def d_read(classes, insts, who, attr):
    if who == "Ci":
        if "Ci" not in insts:
            insts["Ci"] = classes["C"]()
        obj = insts["Ci"]
    else:
        obj = classes[who]
    v = getattr(obj, attr)
    if attr == "media":
        return ("media", tuple(str(x) for x in v._js), tuple(sorted((m, tuple(str(x) for x in fs)) for m, fs in v._css.items())))
    return ("text", v)


def d_expected(mark, cmedia, cpair, who, attr):
    """-> predicate over the observation (set semantics per medium; either spelling of a resolved path)"""
    cls = "C" if who == "Ci" else who

    def spell(rel, name):
        return {name, rel + "/" + name}

    if attr == "js":
        rel = REL if (cls == "P" or cpair == "absent") else REL2
        return lambda o: o == ("text", "/*pair %s*/" % rel), f"content of {rel}/{mark}_d_pair.js"
    want_js = [spell(REL, f"{mark}_d_same.js")]
    if cls in ("C", "G") and cmedia == "own":
        want_js.append(spell(REL2, f"{mark}_d_own.js"))
    want_css = [spell(REL, f"{mark}_d_same.css")]

    def ok(o):
        if o[0] != "media":
            return False
        js, css = list(o[1]), dict(o[2]).get("all", ())
        return (len(js) == len(want_js) and all(any(j in w for j in js) for w in want_js) and len(set(js)) == len(js)
                and len(css) == 1 and css[0] in want_css[0])

    return ok, f"js {[sorted(w)[0] for w in want_js]} (files of the declaring class's directory), css {sorted(want_css[0])[0]}"


def _worker_dirs(w, W, payload):
    tier, mark = payload
    agg = par.Agg()
    i = -1
    for cmedia in D_CHILD_MEDIA:
        for cpair in D_CHILD_PAIR:
            for with_g in (False, True):
                reads = [r for r in D_READS if with_g or r[0] != "G"]
                # every order of every subset of <= 3 reads (quick) / <= 4 (thorough), then the remaining reads in canonical order
                k = 4 if tier == "thorough" else 3
                for first in itertools.permutations(reads, k):
                    i += 1
                    if i % W != w:
                        continue
                    order = list(first) + [r for r in reads if r not in first]
                    classes, modnames = d_world(mark, cmedia, cpair, with_g)
                    insts = {}
                    agg.states += 1
                    agg.nontrivial += 1
                    try:
                        for who, attr in order:
                            agg.transitions += 1
                            try:
                                obs = d_read(classes, insts, who, attr)
                            except Exception as e:  # noqa
                                obs = ("exc", type(e).__name__, str(e)[:200])
                            ok, want = d_expected(mark, cmedia, cpair, who, attr)
                            agg.validated += 1
                            agg.observe((who, attr, obs))
                            agg.expected[f"{who}.{attr}"] += 1
                            if not ok(obs):
                                agg.fail(f"D/{attr}/{'inherits' if (who != 'P') else 'own'}-{cmedia}-{cpair}",
                                         f"part D [child Media {cmedia}, child js_file {cpair}, reads {order[:order.index((who, attr)) + 1]}] "
                                         f"{who}.{attr} = {obs}, expected {want}",
                                         {"part": "D", "cmedia": cmedia, "cpair": cpair, "with_g": with_g, "order": [list(r) for r in order], "spec": {"classes": []}})
                                break
                    finally:
                        for m in modnames:
                            sys.modules.pop(m, None)
    return agg


# ------------------------------------------------------------------ part R: a file that appears after a failed first access
R_KINDS = (("js", "js_file", "js", "/*late js*/"), ("css", "css_file", "css", ".late{}"), ("template", "template_file", "html", "<p>late</p>"))
R_READS = ("class_attr", "instance_attr", "media", "render")


def r_cases():
    for kind in R_KINDS:
        for first in R_READS:
            for second in R_READS:
                yield kind, first, second


def _r_read(cls, attr, how):
    if how == "class_attr":
        return getattr(cls, attr)
    if how == "instance_attr":
        return getattr(cls(), attr)
    if how == "media":
        str(cls.media)
        return getattr(cls, attr)
    from mc.prog import strip_markers

    return strip_markers(cls.render())


def run_retry_part(mark):
    """`js_file` / `css_file` / `template_file` name a file that does not exist yet: the first access fails (or yields nothing);
    once the file exists the member must be its content - a failed resolution must not be remembered as "resolved"."""
    from django_components import Component

    agg = par.Agg()
    sub = os.path.join(_ENV["root"], REL)
    for n, ((attr, fattr, ext, content), first, second) in enumerate(r_cases()):
        k = next(_CASE)
        modname = f"verif_c16_r{os.getpid()}_{k}"
        mod = types.ModuleType(modname)
        mod.__file__ = os.path.join(sub, "comp.py")
        sys.modules[modname] = mod
        fname = f"{mark}_late_{k}.{ext}"
        attrs = {"__module__": modname, fattr: fname}
        if attr != "template":
            attrs["template"] = "<html><head></head><body><p>t</p></body></html>"
        cls = type(f"R{k}", (Component,), attrs)
        agg.states += 1
        agg.nontrivial += 1
        path = os.path.join(sub, fname)
        try:
            agg.transitions += 1
            try:
                one = ("ok", _r_read(cls, attr, first))
            except Exception as e:  # noqa
                one = ("exc", type(e).__name__)
            with open(path, "w") as f:
                f.write(content)
            agg.transitions += 1
            try:
                two = ("ok", str(_r_read(cls, attr, second)))
            except Exception as e:  # noqa
                two = ("exc", type(e).__name__, str(e)[:200])
            agg.validated += 1
            agg.observe((attr, first, one[0], second, two[0]))
            agg.expected[f"{attr}:{first}>{second}"] += 1
            ok = two[0] == "ok" and content.strip() in two[1]
            if not ok:
                agg.fail(f"R/{attr}/{first}>{second}",
                         f"part R: class with {fattr} = {fname!r}; first access ({first}) while the file is missing gives {one}; after the file is "
                         f"created, access ({second}) gives {two}, expected the file's content {content!r}",
                         {"part": "R", "kind": attr, "first": first, "second": second, "spec": {"classes": []}})
        finally:
            sys.modules.pop(modname, None)
            if os.path.exists(path):
                os.unlink(path)
    boot.clear_render_registries()
    return agg


def _merge(ctx, name, agg, bound, extra=None):
    import time

    now = time.time()
    print(f"  part {name}: cases={agg.states} accesses={agg.transitions} nontrivial={agg.nontrivial} "
          f"failures={len(agg.failures)} wall={now - _T[0]:.1f}s", flush=True)
    _T[0] = now
    agg.failures.sort(key=lambda f: (len(f[2].get("spec", {}).get("classes", [])), f[2].get("idx", 0)))
    ctx.fnd.merge_reports(agg.failures)
    for c in agg.caps:
        ctx.ev.caps_hit.append(c)
    ex = dict(agg.extra)
    ex.update(extra or {})
    ctx.ev.add_part(name, states=agg.states, transitions=agg.transitions, validated=agg.validated, nontrivial=agg.nontrivial,
                    observed_distinct=len(agg.observed), expected=agg.expected, bound=bound, samples=agg.samples[:2], extra=ex)


def run(ctx):
    ev = ctx.ev
    tier = ctx.tier
    env = env_open(ctx.seed)
    mark = env["mark"]
    try:
        import time

        _T[0] = time.time()
        _selftest(mark)
        ev.rule = (
            "ENUM x SEQ: every hierarchy of the bounded alphabet is built from fresh real classes once per access order; "
            "non-trivial = hierarchies in which some class merges >= 2 classes or extend != True (S, L, F), some class takes a "
            "pair member from another class / must be rejected (P), some class inherits a pair member whose nearest definer shadows "
            "a farther one (A), lazy-resolution states beyond the initial one (H)"
        )
        quick = tier == "quick"
        agg = par.run_sharded(_worker_media, ("S", tier, mark))
        _merge(ctx, "S_structure", agg, {
            "n<=3": "all shapes, labels {absent, None, empty x extend, files x extend}, extend lists <= 2 classes, all n! orders",
            "n=4": ("<=3 bases, labels {absent, files x extend}, extend lists <= 1 class, every first class + descending" if quick else
                    "<=3 bases: lite labels x all 24 orders; single-sink x labels {absent, None, empty+False, files x extend<=2} x every first class + descending"),
            "n=5": None if quick else "single-sink, <=2 bases, labels {absent, extend True, extend False}, every first class + descending",
            "n=6": None if quick else "single-sink, <=2 bases, all classes with files, <=1 class without Media, <=1 extend False; orders: ascending, sink first, descending",
        })
        agg = par.run_sharded(_worker_media, ("L", tier, mark))
        _merge(ctx, "L_lists", agg, {
            "pool": 2 if quick else 3, "list_len": 2, "n": "2..3 all shapes, extend True / lists <= 2",
            "n=4": ("single-sink <= 2 bases, one creation order per hierarchy (12 shapes), extend True, pool 3 modulo renaming of the pool, "
                    "orders: ascending + descending" if quick else
                    "single-sink <= 2 bases (20 shapes), extend True: pool 2 (all list tuples, sink first) + pool 3 modulo renaming of the pool "
                    "(ascending + descending)"),
        })
        agg = par.run_sharded(_worker_media, ("F", tier, mark))
        _merge(ctx, "F_forms", agg, {"js_forms": 5, "css_forms": 11, "n": "1, parent x child x extend"})
        agg = par.run_sharded(_worker_pairs, (tier, mark))
        _merge(ctx, "P_pairs", agg, {"full_product_n": 2, "per_pair_product_n": 3 if quick else 4, "both": "n<=3, every position x pair"})
        agg = par.run_sharded(_worker_access, (tier, mark))
        _merge(ctx, "A_partial_access_orders", agg, {
            "reads_per_visit": "one of {3 inline members on the class, 3 *_file members on the class, 3 inline members on an instance}",
            "n=3": "all shapes x 3^3 pair states x all 3! class orders (every prefix = every ordered subset) x "
                   + ("all 3^3 kind assignments (chain) / one kind throughout (other shapes)" if quick else "all 3^3 kind assignments"),
            "n=4": "chain x 3^4 states x all 4! orders x one kind throughout" if quick else
                   "chain x 3^4 states x 4! orders x all 3^4 kind assignments; every other single-sink shape (<= 2 bases) x one kind throughout",
            "n=5": None if quick else "chain x 3^5 states x all 5! orders x one kind throughout",
        })
        d_env(mark)
        agg = par.run_sharded(_worker_dirs, (tier, mark))
        _merge(ctx, "D_two_directories", agg, {
            "hierarchy": "P in c16sub/ <- C in c16sub2/ (<- G in c16sub/), same-named files in both directories",
            "child_media": list(D_CHILD_MEDIA), "child_js_file": list(D_CHILD_PAIR),
            "reads": [".".join(r) for r in D_READS], "orders": "every ordered choice of the first %d reads, then the rest" % (3 if quick else 4)})
        agg = run_retry_part(mark)
        _merge(ctx, "R_retry_after_missing_file", agg, {"members": [k[1] for k in R_KINDS], "first_access": list(R_READS), "second_access": list(R_READS)})
        agg = par.run_sharded(_worker_hist, (tier, mark))
        _merge(ctx, "H_histories", agg, {"n": 2 if quick else 3, "ops_per_class": 11, "search": "BFS to fixpoint + unmerged depth 2"})
        ev.assumptions = [
            "classes that are unrelated by bases / extend do not influence each other beyond media_cache (keyed by class): n = 5, 6 only single-sink shapes",
            "file names are plain str; a path next to the component module may be reported relative to the components dir",
            "a class without own Media under multiple inheritance is accepted under either reading (docstring)",
            "part L, n = 4: renaming the files of the shared pool, and (quick) creating unrelated classes in another order, does not change "
            "the behaviour - one representative per orbit, rotated by VERIF_SEED; thorough enumerates every creation order",
            "part A reads the three members of one kind per visit; single-attribute interleavings are part H (n <= 2, n = 3 in thorough)",
            "part H merges histories by the visible lazy-resolution state; soundness of the merge is cross-checked by an unmerged search to depth 2",
        ]
    finally:
        if World.last:
            World.last.close()
        env_close()


def replay(ctx, case):
    env_open(ctx.seed)
    try:
        agg = par.Agg()
        part = case["part"]
        spec = case["spec"]
        # a replay file written under another seed carries that seed's marker in its file names
        for c in spec["classes"]:
            for inl, _ in PAIRS:
                if c.get(inl) and c[inl][0] in ("file", "both"):
                    name = c[inl][1] if c[inl][0] == "file" else c[inl][2]
                    if not name.startswith(_ENV["mark"] + "_"):
                        raise par.HarnessError(f"replay file was written with another VERIF_SEED (file {name})")
        if part == "D":
            d_env(_ENV["mark"])
            classes, modnames = d_world(_ENV["mark"], case["cmedia"], case["cpair"], case["with_g"])
            insts, ok = {}, True
            for who, attr in case["order"]:
                try:
                    obs = d_read(classes, insts, who, attr)
                except Exception as e:  # noqa
                    obs = ("exc", type(e).__name__, str(e)[:200])
                good, want = d_expected(_ENV["mark"], case["cmedia"], case["cpair"], who, attr)
                print(f"  {who}.{attr} -> {obs}   [{'ok' if good(obs) else 'EXPECTED ' + want}]")
                ok = ok and good(obs)
            return ok
        if part in ("S", "L", "F"):
            ok = run_media_case(agg, part, case.get("idx", 0), spec, case["orders"], tags=case.get("tags", False), verbose=True)
        elif part == "P":
            ok = run_pair_case(agg, case.get("idx", 0), spec, verbose=True)
        elif part == "PB":
            ok = run_both_case(agg, case.get("idx", 0), spec, case["k"], case["inl"], verbose=True)
        elif part == "A":
            ok = run_access_case(agg, case.get("idx", 0), spec, case["seqs"], verbose=True)
        elif part == "H":
            solo = {}
            for attr, i, via in h_ops(len(spec["classes"])):
                if via == "cls":
                    w = World(spec)
                    solo[(attr, i)] = access(w, i, attr, "cls")
            w = HWorld(spec, solo)
            ok = True
            for op in case["history"]:
                obs, problem = h_step(w, op)
                print(" ", op, "->", obs, problem or "")
                if problem:
                    ok = False
                    break
            w.close()
        else:
            raise ValueError(part)
        for _, what, _ in agg.failures:
            print("  ", what)
        return ok
    finally:
        if World.last:
            World.last.close()
        env_close()
