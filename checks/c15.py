"""C15 - registries behave as dictionaries and keep the tag library consistent (SEQ engine).

World   = 1 or 2 real ``ComponentRegistry`` objects on private ``Library`` instances (own
          library each, or one library shared by both), each registry with its own tag
          formatter: default (`{% component "n" %}`, every name shares the tag `component`),
          shorthand (`{% n %}`, tag == name) or a custom *prefix* formatter
          (tag == name up to the first `_`, so `a` and `a_x` share the tag `a`).
          A library is empty or pre-loaded with the seven built-in tags, and unprotected,
          protected with ``mark_protected_tags(lib)`` (the built-in list) or protected with a
          custom list.
Ops     = register(n, C) / unregister(n) / get(n) / all() / clear() per registry; four single-registry
          configurations are explored a second time with every registration going through the
          module-level decorator `@register(n, registry=...)` (must return the class unchanged).
Search  = BFS to a fixpoint (every history of every length over the alphabet) with
          canonical-state merging, plus all unmerged sequences up to a depth as a check of
          the canonicalisation.
Oracle  = (1) plain ``dict`` model: return values, AlreadyRegistered / NotRegistered exactly on
          conflicting / missing names, same-class re-registration is a no-op, a registration
          whose tag is protected is refused with TagProtectedError and changes nothing;
          ``all()`` and ``get()`` agree with the dict after every step.
          (2) per library L after every step, with used(L) = tags (computed by a 3-line
          reference formatter) of every component currently registered in any registry
          attached to L:
            * tag not pre-loaded:            tag in L.tags  <=>  tag in used(L)
            * tag pre-loaded, unprotected:   tag in used(L)  =>  tag in L.tags
            * tag protected:                 L.tags[tag] is the original function object
                                             (or still absent when it was never there).
          (3) part "template": in every reachable state of the single-registry configurations
          a real template `{% <tag> ... / %}` is compiled against the private library: a
          registered name renders its class' marker, an unused non-pre-loaded tag is an
          "Invalid block tag" TemplateSyntaxError.

Excluded / agnostic corners (the statement does not fix them)
  * an unprotected pre-loaded tag that a component overwrote (shorthand component `slot` on an
    unprotected library) may or may not exist once no component uses it any more;
  * the *order* of ``all()``; which registry's tag function sits in a shared library (only
    existence is asserted); private fields ``_registry`` / ``_tags`` are part of the canonical
    state (they influence the future) but are never asserted on;
  * a registry whose formatter changes between calls, protection lists changed after
    registrations, two different classes with the same import path (same ``_class_hash``),
    names a formatter rejects (spaces ...): not generated.
  * shared library: the statement's "exactly while at least one registered component uses it"
    is read over *all* registries attached to that library (the per-registry reading is
    unsatisfiable there).  Failures of that clause carry identities starting with ``shared/``.
"""
from __future__ import annotations

from mc import par, seq

PID = "C15"
LEVEL = "model_checking"
DJANGO = {}

# no failing transition may be dropped: an open known finding must not be able to crowd out a new one
FAIL_LIMIT = 1_000_000
BUILTIN_NAMES = ["component", "component_css_dependencies", "component_js_dependencies", "fill", "html_attrs", "provide", "slot"]

# ----------------------------------------------------------------------------- environment
_ENV = None


class _Env:
    pass


def env():
    """Classes, formatters and the pristine built-in tag table (created once per process)."""
    global _ENV
    if _ENV is not None:
        return _ENV
    from django_components import Component
    from django_components.component_registry import all_registries
    from django_components.tag_formatter import TagFormatterABC, TagResult
    from django_components.templatetags import component_tags

    e = _Env()
    e.classes = [
        type(f"C15Comp{c}", (Component,), {"template": f"[{c}]", "__module__": "verif_c15"}) for c in "ABC"
    ]

    class PrefixFormatter(TagFormatterABC):
        def start_tag(self, name):
            return name.split("_")[0]

        def end_tag(self, name):
            return "end" + name.split("_")[0]

        def parse(self, tokens):
            tag, name, *rest = tokens
            return TagResult(name.strip("'\""), rest)

    e.formatters = {
        "default": "django_components.component_formatter",
        "shorthand": "django_components.component_shorthand_formatter",
        "prefix": PrefixFormatter(),
    }
    # the genuine built-in tag functions (Node.parse), independent of what the global registry did
    e.builtin_tags = {n: getattr(component_tags, n) for n in BUILTIN_NAMES}
    e.all_registries = all_registries
    e.base_len = len(all_registries)
    _ENV = e
    return e


def ref_tag(fmt: str, name: str) -> str:
    """Reference formatter (independent of the implementation)."""
    if fmt == "default":
        return "component"
    if fmt == "shorthand":
        return name
    if fmt == "prefix":
        return name.split("_")[0]
    raise AssertionError(fmt)


def protected_list(spec):
    from django_components.library import PROTECTED_TAGS

    if spec is None:
        return []
    if spec == "builtin":
        return list(PROTECTED_TAGS)
    return list(spec)


# ----------------------------------------------------------------------------- configurations
def cfg_name(cfg) -> str:
    topo = cfg["topo"]
    fm = "+".join(r["fmt"] for r in cfg["regs"])
    lb = "+".join(("pre" if l["preload"] else "empty") + "/" + ("none" if l["protect"] is None else l["protect"] if isinstance(l["protect"], str) else "custom:" + (",".join(l["protect"]) or "<empty-list>")) for l in cfg["libs"])
    route = "/via-decorator" if cfg.get("route") == "decorator" else ""
    return f"{topo}{route}/{fm}/{lb}/n={','.join(cfg['names'])}/c={cfg['nclasses']}"


def names_for(fmts):
    if "prefix" in fmts:
        return ["a", "a_x", "slot_x"]
    return ["a", "b", "slot"]


def single_configs(thorough: bool):
    out = []
    for fmt in ("default", "shorthand", "prefix"):
        names = ["a", "a_x", "b", "slot_x"] if fmt == "prefix" else ["a", "b", "slot"]
        for preload in (True, False):
            # [] = `mark_protected_tags(lib, [])`: explicitly nothing protected (not "use the built-in list")
            for protect in (None, "builtin", ["a", "component"], []):
                if protect not in (None, "builtin") and not preload:
                    continue
                out.append({
                    "topo": "single",
                    "regs": [{"fmt": fmt, "lib": 0}],
                    "libs": [{"preload": preload, "protect": protect}],
                    "names": names,
                    "nclasses": 3,
                })
                if preload and protect in (None, "builtin") and fmt != "prefix":
                    # the same world driven through the module-level decorator `@register(name, registry=...)`
                    out.append(dict(out[-1], route="decorator"))
    return out


def double_configs(thorough: bool):
    out = []
    pairs = [("default", "default"), ("shorthand", "shorthand"), ("prefix", "prefix"),
             ("default", "shorthand"), ("default", "prefix"), ("shorthand", "prefix")]
    for topo in ("own", "shared"):
        for f1, f2 in pairs:
            for protect in (None, "builtin"):
                if topo == "own" and (f1 != f2 and protect is None):
                    continue  # independent registries: mixed pairs only once
                libs = [{"preload": True, "protect": protect}]
                if topo == "own":
                    libs.append({"preload": True, "protect": protect})
                out.append({
                    "topo": topo,
                    "regs": [{"fmt": f1, "lib": 0}, {"fmt": f2, "lib": 0 if topo == "shared" else 1}],
                    "libs": libs,
                    "names": names_for((f1, f2)),
                    # independent registries only probe for cross-talk through module globals: 2 classes suffice
                    "nclasses": 3 if (thorough and topo == "shared") else 2,
                })
    return out


def ops_for(cfg):
    ops = []
    for r in range(len(cfg["regs"])):
        for n in cfg["names"]:
            for c in range(cfg["nclasses"]):
                ops.append(("register", r, n, c))
        for n in cfg["names"]:
            ops.append(("unregister", r, n))
        for n in cfg["names"]:
            ops.append(("get", r, n))
        ops.append(("all", r))
        ops.append(("clear", r))
    return ops


# ----------------------------------------------------------------------------- world
class World:
    def __init__(self, cfg):
        from django.template import Library

        from django_components import ComponentRegistry, RegistrySettings
        from django_components.library import mark_protected_tags

        e = env()
        # registries of discarded worlds are dropped from the library's global list (hygiene:
        # the list only matters for the `dynamic` component and would grow without bound)
        del e.all_registries[e.base_len:]
        self.cfg = cfg
        self.libs, self.orig, self.protected = [], [], []
        for spec in cfg["libs"]:
            lib = Library()
            if spec["preload"]:
                lib.tags.update(e.builtin_tags)
            if spec["protect"] is not None:
                mark_protected_tags(lib, None if spec["protect"] == "builtin" else list(spec["protect"]))
            self.libs.append(lib)
            self.orig.append(dict(lib.tags))
            self.protected.append(set(protected_list(spec["protect"])))
        self.regs = [
            ComponentRegistry(library=self.libs[r["lib"]], settings=RegistrySettings(tag_formatter=e.formatters[r["fmt"]]))
            for r in cfg["regs"]
        ]
        self.model = [dict() for _ in cfg["regs"]]  # name -> class
        self.trace = ()  # operations applied so far


def make_world(cfg):
    return lambda: World(cfg)


def _register(w, reg, name, cls):
    """registry.register(name, cls), or - configurations with route=decorator - the documented module-level
    decorator `@register(name, registry=reg)`, which must register exactly like the method and hand the class back"""
    if w.cfg.get("route") == "decorator":
        from django_components import register

        ret = register(name, registry=reg)(cls)
        if ret is not cls:
            raise AssertionError(f"@register returned {ret!r} instead of the decorated class")
        return None
    return reg.register(name, cls)


def _call(fn, *a):
    try:
        return ("ok", fn(*a))
    except Exception as ex:  # noqa
        return ("exc", type(ex).__name__, str(ex))


# Histories whose last step was already compared and invariant-checked in this process.  Both search
# procedures only ever *replay* such histories as prefixes, so the (deterministic) checks are not repeated
# for them; the operations themselves are always executed on the real objects.
_VALIDATED: set = set()


def step(w: World, op):
    """Apply op to the real registry and to the dict model; compare; check the invariants."""
    w.trace = w.trace + (op,)
    if w.trace in _VALIDATED:
        _apply_unchecked(w, op)
        return None, None
    obs, problem = _step_checked(w, op)
    if problem is None:
        _VALIDATED.add(w.trace)
    return obs, problem


def _apply_unchecked(w: World, op):
    e = env()
    kind, r = op[0], op[1]
    reg, model = w.regs[r], w.model[r]
    try:
        if kind == "register":
            _register(w, reg, op[2], e.classes[op[3]])
            model[op[2]] = e.classes[op[3]]
        elif kind == "unregister":
            reg.unregister(op[2])
            del model[op[2]]
        elif kind == "get":
            reg.get(op[2])
        elif kind == "all":
            reg.all()
        elif kind == "clear":
            reg.clear()
            model.clear()
    except Exception:  # noqa  (a validated step that raised left impl and model unchanged)
        pass


def _step_checked(w: World, op):
    e = env()
    kind, r = op[0], op[1]
    reg, model = w.regs[r], w.model[r]
    rspec = w.cfg["regs"][r]
    li = rspec["lib"]
    if kind == "register":
        name, cls = op[2], e.classes[op[3]]
        tag = ref_tag(rspec["fmt"], name)
        if name in model and model[name] is not cls:
            exp = ("exc", "AlreadyRegistered")
        elif tag in w.protected[li]:
            exp = ("exc", "TagProtectedError")
        else:
            exp = ("ok", None)
            model[name] = cls
        got = _call(_register, w, reg, name, cls)
    elif kind == "unregister":
        name = op[2]
        if name in model:
            del model[name]
            exp = ("ok", None)
        else:
            exp = ("exc", "NotRegistered")
        got = _call(reg.unregister, name)
    elif kind == "get":
        name = op[2]
        exp = ("ok", model[name]) if name in model else ("exc", "NotRegistered")
        got = _call(reg.get, name)
    elif kind == "all":
        exp = ("ok", dict(model))
        got = _call(reg.all)
    elif kind == "clear":
        model.clear()
        exp = ("ok", None)
        got = _call(reg.clear)
    else:
        raise AssertionError(kind)

    obs = (kind, got[0], got[1] if got[0] == "exc" else _show(got[1]))
    if got[0] != exp[0]:
        return obs, f"ret:{kind}: {op} gave {_fmt(got)}, a plain dict gives {_fmt(exp)}"
    if got[0] == "exc":
        if got[1] != exp[1]:
            return obs, f"ret:{kind}: {op} raised {got[1]} ({got[2]}), expected {exp[1]}"
    else:
        if kind == "get":
            if got[1] is not exp[1]:
                return obs, f"ret:get: {op} returned {_show(got[1])}, dict holds {_show(exp[1])}"
        elif kind == "all":
            if type(got[1]) is not dict or got[1] != exp[1] or any(got[1][k] is not exp[1][k] for k in exp[1]):
                return obs, f"ret:all: all() returned {_show(got[1])}, dict is {_show(exp[1])}"
        elif got[1] is not None:
            return obs, f"ret:{kind}: {op} returned {got[1]!r}, expected None"
    return obs, invariant(w)


def _show(v):
    if isinstance(v, dict):
        return "{" + ", ".join(f"{k}: {_show(x)}" for k, x in sorted(v.items())) + "}"
    if isinstance(v, type):
        return v.__name__[-1]
    return repr(v)


def _fmt(t):
    return f"exception {t[1]}" if t[0] == "exc" else f"return {_show(t[1])}"


def invariant(w: World):
    # (1) contents: all() / get() agree with the dict after every step
    for r, (reg, model) in enumerate(zip(w.regs, w.model)):
        a = reg.all()
        if a != model or any(a[k] is not model[k] for k in model):
            return f"contents: registry {r} holds {_show(a)}, dict is {_show(model)}"
    # (2) tag table of every library
    for li, lib in enumerate(w.libs):
        used = {}
        for r, rspec in enumerate(w.cfg["regs"]):
            if rspec["lib"] == li:
                for n in w.model[r]:
                    used.setdefault(ref_tag(rspec["fmt"], n), []).append((r, n))
        orig = w.orig[li]
        for t in sorted(set(lib.tags) | set(used) | set(orig)):
            present = t in lib.tags
            if t in w.protected[li]:
                if t in orig:
                    if not present:
                        return f"protected-removed: protected tag {t!r} was removed from the library"
                    if lib.tags[t] is not orig[t]:
                        return f"protected-overwritten: protected tag {t!r} no longer maps to the original function"
                elif present:
                    return f"protected-created: protected tag name {t!r} was registered in the library"
            elif t in orig:
                if t in used and not present:
                    return f"tag-missing: tag {t!r} is used by {used[t]} but is not in the library"
            else:
                if t in used and not present:
                    return f"tag-missing: tag {t!r} is used by registered component(s) {used[t]} but is not in the library"
                if present and t not in used:
                    return f"tag-stale: tag {t!r} is in the library although no registered component uses it"
    return None


def _owner(w: World, fn, orig_fn):
    if fn is orig_fn:
        return "orig"
    for cell in getattr(fn, "__closure__", None) or ():
        try:
            v = cell.cell_contents
        except ValueError:
            continue
        for i, reg in enumerate(w.regs):
            if v is reg:
                return i
    return "?"


def canon(w: World):
    e = env()
    regs = []
    for reg in w.regs:
        entries = tuple(sorted((n, e.classes.index(en.cls) if en.cls in e.classes else -1, en.tag) for n, en in reg._registry.items()))
        tags = tuple(sorted((t, tuple(sorted(ns))) for t, ns in reg._tags.items()))
        regs.append((entries, tags))
    libs = []
    for li, lib in enumerate(w.libs):
        libs.append(tuple(sorted((t, str(_owner(w, fn, w.orig[li].get(t)))) for t, fn in lib.tags.items())))
    return (tuple(regs), tuple(libs))


def nontrivial_state(k) -> bool:
    """A canonical state in which a tag is shared by >= 2 names or two registries hold components."""
    regs = k[0]
    if sum(1 for entries, _ in regs if entries) >= 2:
        return True
    return any(len(ns) >= 2 for _, tags in regs for _, ns in tags)


# ----------------------------------------------------------------------------- tasks
def _bfs_task(cfg):
    _VALIDATED.clear()  # one configuration per task
    ops = ops_for(cfg)
    r = seq.bfs(make_world(cfg), ops, step, canon, max_states=400000, fail_limit=FAIL_LIMIT)
    del env().all_registries[env().base_len:]
    return {
        "cfg": cfg, "states": r.states, "transitions": r.transitions, "failures": r.failures, "fixpoint": r.fixpoint,
        "max_depth": r.max_depth, "samples": r.sample_histories, "outcomes": len(r.outcomes),
        "seen": set(r.seen.keys()), "nontrivial": sum(1 for k in r.seen if nontrivial_state(k)),
        "histories": list(r.seen.values()) if cfg["topo"] == "single" else None,
    }


def _unmerged_task(arg):
    cfg, depth, first = arg
    _VALIDATED.clear()
    ops = ops_for(cfg)
    n_seq, n_tr, failures, outcomes, canon_states = seq.all_sequences(
        make_world(cfg), ops, step, depth, first_ops=[first], canon=canon, fail_limit=FAIL_LIMIT
    )
    del env().all_registries[env().base_len:]
    return cfg_name(cfg), n_seq, n_tr, failures, canon_states


# ----------------------------------------------------------------------------- template part
def _template_probe(w: World, name: str):
    """Compile and render `{% <tag> ... / %}` for `name` against the world's private library."""
    from django.template import Context, Template, TemplateSyntaxError
    from django.template.engine import Engine

    fmt = w.cfg["regs"][0]["fmt"]
    tag = ref_tag(fmt, name)
    src = "{% " + tag + (" / %}" if fmt == "shorthand" else f" '{name}' / %}}")
    engine = Engine(builtins=[])
    engine.template_builtins = list(engine.template_builtins) + [w.libs[0]]
    # process-global memo start_tag -> (node subclass, *first* registry that parsed the tag); every world has
    # fresh registries, so the memo of the previous world is dropped (the library raises RuntimeError otherwise)
    from django_components.component import component_node_subclasses_by_name

    component_node_subclasses_by_name.clear()
    try:
        out = Template(src, engine=engine).render(Context({}))
    except TemplateSyntaxError as ex:
        return ("syntax", "Invalid block tag" in str(ex)), src
    except Exception as ex:  # noqa
        return ("exc", type(ex).__name__), src
    import re

    out = re.sub(r"<!-- _RENDERED [^>]*-->", "", out)
    return ("ok", out), src


def _template_task(arg):
    cfg, histories = arg
    from mc import boot

    _VALIDATED.clear()
    ops = ops_for(cfg)
    failures = []
    n = checked = nontriv = 0
    outs = set()
    for hist in histories:
        w = World(cfg)
        for i in hist:
            step(w, ops[i])
        n += 1
        for name in cfg["names"]:
            tag = ref_tag(cfg["regs"][0]["fmt"], name)
            used = {ref_tag(cfg["regs"][0]["fmt"], m) for m in w.model[0]}
            got, src = _template_probe(w, name)
            checked += 1
            outs.add(repr(got))
            hist_ops = [ops[i] for i in hist]
            if name in w.model[0]:
                nontriv += 1
                want = "[" + w.model[0][name].__name__[-1] + "]"
                if got != ("ok", want):
                    failures.append((f"template-registered: after {hist_ops} the template {src!r} gave {got}, expected output {want!r}", hist_ops))
            elif tag not in used and tag not in w.orig[0]:
                if got != ("syntax", True):
                    failures.append((f"template-unused: after {hist_ops} no component uses tag {tag!r} but {src!r} gave {got} instead of 'Invalid block tag'", hist_ops))
    boot.clear_render_registries()
    del env().all_registries[env().base_len:]
    return cfg_name(cfg), n, checked, nontriv, failures, len(outs)


# ----------------------------------------------------------------------------- driver
def _dispatch(task):
    kind, arg = task
    return _bfs_task(arg) if kind == "bfs" else _unmerged_task(arg)


def _identity(cfg, problem, hist=None):
    """Stable across tiers: topology / formatters / library set-up | violated clause.

    For `tag-missing` the identity also names the operation that made the tag disappear and whether
    the component still using the tag lives in *another* registry than the one operated on - so the
    known finding "unregister/clear on one registry removes a tag that another registry sharing the
    library still uses" cannot mask a tag that goes missing for any other reason."""
    clause = problem.split(":")[0]
    if problem.startswith("ret:"):
        clause = ":".join(problem.split(":")[:2])
    if clause == "tag-missing" and hist:
        import re

        last = hist[-1]
        users = set(int(m) for m in re.findall(r"\((\d+), '", problem))
        op_reg = last[1] if len(last) > 1 and isinstance(last[1], int) else None
        where = "only-other-registries-use-it" if (op_reg is not None and users and op_reg not in users) else "own-registry-uses-it"
        clause = f"tag-missing-after-{last[0]}:{where}"
    return f"{cfg_name(cfg).split('/n=')[0]}|{clause}"


# ----------------------------------------------------------------------------- part P: the protected list changes during a history
P_MARKS = ("builtin", "empty", "plus_component")
P_NAMES = ("a", "slot")


def _p_ops():
    return [("mark", m) for m in P_MARKS] + [("register", n) for n in P_NAMES] + [("unregister", n) for n in P_NAMES] + [("clear",)]


def protection_history_task(arg):
    """`mark_protected_tags(lib, tags)` REPLACES the protected list of a library (the documented way to change it), also in the
    middle of a registry's life.  Every history of <= L ops over mark(builtin list | [] | builtin + "component"), register / unregister
    of `a` and `slot`, clear on one registry (default / shorthand formatter) over a pre-loaded private Library.  Model: a dict + the
    current protected list; invariant: a tag that is protected now and was in the library when it became protected is still there and
    still the same object; a name is refused exactly when its tag is protected now; registry contents equal the dict."""
    from itertools import product

    from django.template import Library

    from django_components import ComponentRegistry, RegistrySettings
    from django_components.library import PROTECTED_TAGS, mark_protected_tags

    fmt, maxlen = arg
    e = env()
    A = e.classes[0]
    failures, nseq, ntr = [], 0, 0
    seen = set()
    ops = _p_ops()
    for L in range(1, maxlen + 1):
        for hist in product(ops, repeat=L):
            if not any(o[0] == "mark" for o in hist) or hist[-1][0] == "mark" and L > 1 and False:
                continue
            del e.all_registries[e.base_len:]
            lib = Library()
            lib.tags.update(e.builtin_tags)
            reg = ComponentRegistry(library=lib, settings=RegistrySettings(tag_formatter=e.formatters[fmt]))
            model, protected, guarded = {}, set(), {}
            nseq += 1
            for j, op in enumerate(hist):
                ntr += 1
                problem = None
                if op[0] == "mark":
                    lst = None if op[1] == "builtin" else ([] if op[1] == "empty" else [*PROTECTED_TAGS, "component"])
                    got = _call(mark_protected_tags, lib, lst)
                    exp = ("ok", None)
                    protected = set(PROTECTED_TAGS if lst is None else lst)
                    guarded = {t: lib.tags[t] for t in protected if t in lib.tags}
                elif op[0] == "register":
                    tag = ref_tag(fmt, op[1])
                    if op[1] in model and tag in protected:
                        # two clauses of the statement meet ("re-registration is a no-op" / "a protected tag is never written"):
                        # either answer is accepted, the contents and the protected tag are still checked below
                        exp = ("either", None)
                    elif op[1] in model:
                        exp = ("ok", None)
                    elif tag in protected:
                        exp = ("exc", "TagProtectedError")
                    else:
                        exp = ("ok", None)
                        model[op[1]] = A
                    got = _call(reg.register, op[1], A)
                elif op[0] == "unregister":
                    if op[1] in model:
                        del model[op[1]]
                        exp = ("ok", None)
                    else:
                        exp = ("exc", "NotRegistered")
                    got = _call(reg.unregister, op[1])
                else:
                    model.clear()
                    exp = ("ok", None)
                    got = _call(reg.clear)
                if exp[0] == "either":
                    if not (got[0] == "ok" or got[:2] == ("exc", "TagProtectedError")):
                        problem = f"ret:{op[0]}: {op} gave {got[:2]}, expected a no-op or TagProtectedError"
                elif got[:2] != exp[:2] and not (got[0] == "ok" and exp[0] == "ok"):
                    problem = f"ret:{op[0]}: {op} gave {got[:2]}, the model (dict + current protected list {sorted(protected)}) gives {exp[:2]}"
                if problem is None and reg.all() != model:
                    problem = f"contents: registry holds {sorted(reg.all())}, the dict holds {sorted(model)}"
                if problem is None:
                    for t, fn in guarded.items():
                        if t not in protected:
                            continue
                        if t not in lib.tags:
                            problem = f"protected-removed: protected tag {t!r} was removed from the library"
                        elif lib.tags[t] is not fn:
                            problem = f"protected-overwritten: protected tag {t!r} no longer maps to the function it had when it became protected"
                        if problem:
                            break
                seen.add((op[0], got[0]))
                if problem:
                    failures.append((f"protection-history/{fmt}|{problem.split(':')[0]}|{'>'.join('.'.join(o) for o in hist[:j + 1])}" if False else
                                     f"protection-history/{fmt}|{problem.split(':')[0]}|{op[0]}",
                                     f"[{fmt} formatter, pre-loaded private Library] after {list(hist[:j + 1])}: {problem}",
                                     {"part": "protection", "fmt": fmt, "history": [list(o) for o in hist[:j + 1]]}))
                    break
    best = {}
    for ident, what, case in failures:
        if ident not in best or len(case["history"]) < len(best[ident][2]["history"]):
            best[ident] = (ident, what, case)
    return fmt, nseq, ntr, list(best.values()), len(seen)


def run(ctx):
    ev, fnd = ctx.ev, ctx.fnd
    thorough = ctx.tier == "thorough"
    ev.rule = (
        "SEQ: states are operation histories replayed on fresh real ComponentRegistry/Library objects, merged by "
        "(name->class/tag map, tag->names map, library tag table with owner) ; every transition is compared with a dict "
        "model and the tag invariant; non-trivial = canonical states in which >= 2 names share a tag or two registries "
        "hold components (bfs), sequences ending in such a state (unmerged), probes of registered names (template)"
    )
    singles = single_configs(thorough)
    doubles = double_configs(thorough)
    cfgs = singles + doubles
    cfg_by_name = {cfg_name(c): c for c in cfgs}

    # unmerged cross-check of the canonicalisation (single-registry configurations, sharded by first op)
    depth = 5 if thorough else 4
    tasks = []
    for cfg in singles:
        d = depth if len(cfg["names"]) == 3 else depth - 1
        for first in range(len(ops_for(cfg))):
            tasks.append((cfg, d, first))
    # one two-registry shared configuration, shallow
    for cfg in doubles:
        if cfg["topo"] == "shared" and cfg["regs"][0]["fmt"] == "default" and cfg["regs"][1]["fmt"] == "shorthand" and cfg["libs"][0]["protect"] == "builtin":
            for first in range(len(ops_for(cfg))):
                tasks.append((cfg, 4 if thorough else 3, first))

    # one pool for both searches; the big two-registry BFS tasks go first
    big_first = sorted(cfgs, key=lambda c: (-len(c["regs"]), c["libs"][0]["protect"] is not None, -c["nclasses"]))
    pool_tasks = [("bfs", c) for c in big_first] + [("unmerged", t) for t in tasks]
    out = par.run_tasks(_dispatch, pool_tasks)
    results = [r for (k, _), r in zip(pool_tasks, out) if k == "bfs"]
    results.sort(key=lambda r: cfgs.index(r["cfg"]))
    um = [r for (k, _), r in zip(pool_tasks, out) if k == "unmerged"]

    seen_by = {}
    for res in results:
        cfg = res["cfg"]
        nm = cfg_name(cfg)
        seen_by[nm] = res["seen"]
        ev.add_part(
            "bfs:" + nm, states=res["states"], transitions=res["transitions"], validated=res["transitions"],
            nontrivial=res["nontrivial"], observed_distinct=res["outcomes"],
            bound={"fixpoint": res["fixpoint"], "max_depth_reached": res["max_depth"], "ops": len(ops_for(cfg))},
            samples=[{"config": nm, "history": h} for h in res["samples"][:1]] if cfg in (singles[0], doubles[-1]) else None,
        )
        if not res["fixpoint"] and not res["failures"]:
            ev.caps_hit.append(f"bfs {nm} did not reach a fixpoint")
        for problem, hist in res["failures"]:
            fnd.report(_identity(cfg, problem, hist), f"[{nm}] after {hist}: {problem}", {"part": "seq", "cfg": cfg, "history": hist})

    by_cfg = {}
    for nm, n_seq, n_tr, failures, canon_states in um:
        d = by_cfg.setdefault(nm, {"seq": 0, "tr": 0, "canon": set()})
        d["seq"] += n_seq
        d["tr"] += n_tr
        d["canon"] |= canon_states
        for problem, hist in failures:
            fnd.report(_identity(cfg_by_name[nm], problem, hist), f"[{nm}] after {hist}: {problem}", {"part": "seq", "cfg": cfg_by_name[nm], "history": hist})
    for nm, d in by_cfg.items():
        extra = d["canon"] - seen_by[nm]
        if extra and not fnd.violations and not fnd.known_hits:
            raise par.HarnessError(f"canonicalisation unsound for {nm}: unmerged search reached {len(extra)} states the BFS did not")
        ev.add_part("unmerged:" + nm, states=d["seq"], transitions=d["tr"], validated=d["tr"],
                    nontrivial=sum(1 for k in d["canon"] if nontrivial_state(k)), bound={"depth": [t[1] for t in tasks if cfg_name(t[0]) == nm][0]})

    # template-level observation in every reachable state of the single-registry configurations
    tt = par.run_tasks(_template_task, [(res["cfg"], res["histories"]) for res in results if res["histories"] is not None])
    for nm, n, checked, nontriv, failures, nouts in tt:
        ev.add_part("template:" + nm, states=n, transitions=checked, validated=checked, nontrivial=nontriv, observed_distinct=nouts)
        for problem, hist in failures:
            fnd.report(_identity(cfg_by_name[nm], problem), f"[{nm}] {problem}", {"part": "template", "cfg": cfg_by_name[nm], "history": hist})
    plen = 5 if thorough else 4
    for fmt, nseq, ntr, pf, nobs in par.run_tasks(protection_history_task, [("default", plen), ("shorthand", plen)]):
        ev.add_part(f"protection_histories_{fmt}", states=nseq, transitions=ntr, validated=ntr, nontrivial=nseq, observed_distinct=nobs,
                    bound={"ops": [".".join(o) for o in _p_ops()], "max_len": plen, "histories": "all sequences holding at least one mark op"},
                    samples=[{"history": ["mark.builtin", "mark.empty", "register.slot"], "expect": "accepted: nothing is protected any more"}])
        fnd.merge_reports(pf)
    ev.assumptions = [
        "single-threaded histories; formatter and protection list fixed per registry/library for the whole history",
        "3 names x 3 classes per registry (4 names for the prefix formatter; 2 classes in the quick two-registry configurations); "
        "the registry code never inspects names or classes beyond equality / _class_hash, so larger alphabets add no behaviour",
        "shared library: 'a tag exists exactly while at least one registered component uses it' is read over all registries attached to the library",
    ]


def replay(ctx, case):
    if case.get("part") == "protection":
        fmt, nseq, ntr, pf, _ = protection_history_task((case["fmt"], len(case["history"])))
        for f in pf:
            print(f[1])
        return not pf
    cfg = case["cfg"]
    _VALIDATED.clear()
    w = World(cfg)
    ok = True
    for op in case["history"]:
        obs, problem = step(w, tuple(op))
        print(op, obs, problem)
        if problem:
            ok = False
            break
    if ok and case.get("part") == "template":
        for name in cfg["names"]:
            got, src = _template_probe(w, name)
            print(src, got)
            tag = ref_tag(cfg["regs"][0]["fmt"], name)
            used = {ref_tag(cfg["regs"][0]["fmt"], m) for m in w.model[0]}
            if name in w.model[0]:
                ok = ok and got == ("ok", "[" + w.model[0][name].__name__[-1] + "]")
            elif tag not in used and tag not in w.orig[0]:
                ok = ok and got == ("syntax", True)
    del env().all_registries[env().base_len:]
    return ok
