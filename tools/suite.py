#!/usr/bin/env python3
"""Runs the repository's pinned test suite and compares the result with /root/.vp/BASELINE.json."""
import json, subprocess, sys, tempfile, os, xml.etree.ElementTree as ET
base = json.load(open("/root/.vp/BASELINE.json"))
fd, path = tempfile.mkstemp(suffix=".xml"); os.close(fd)
cmd = ["/venv/bin/python", "-m", "pytest", "-q", "-p", "no:cacheprovider", "--timeout=900", "--continue-on-collection-errors", f"--junitxml={path}"]
d = os.environ.get("SUITE_DIR", "/repo")
env = dict(os.environ)
if d != "/repo":
    env["PYTHONPATH"] = d + "/src"
r = subprocess.run(cmd, cwd=d, capture_output=True, text=True, env=env)
passed = set(); failed = set()
for tc in ET.parse(path).getroot().iter("testcase"):
    name = tc.get("classname") + "::" + tc.get("name")
    if any(c.tag in ("failure", "error") for c in tc): failed.add(name)
    elif any(c.tag == "skipped" for c in tc): pass
    else: passed.add(name)
os.unlink(path)
stable = set(base["stable_pass"])
missing = sorted(stable - passed)
print(f"passed={len(passed)} failed={len(failed)} baseline={len(stable)} baseline_missing={len(missing)}")
for m in missing[:20]: print("  MISSING:", m)
sys.exit(1 if missing else 0)
