#!/usr/bin/env python3
"""MANIFEST.setup_cmd: nothing is compiled; verify the offline prerequisites and create output dirs."""
import os
import subprocess
import sys

HERE = os.path.dirname(os.path.dirname(os.path.abspath(__file__)))
for d in ("evidence", "replay"):
    os.makedirs(os.path.join(HERE, d), exist_ok=True)
r = subprocess.run(["/venv/bin/python", "-c", "import django, sys; sys.path.insert(0, '/repo/src'); import django_components; print('django', django.__version__, 'ok')"],
                   capture_output=True, text=True)
print(r.stdout.strip() or r.stderr.strip())
sys.exit(r.returncode)
