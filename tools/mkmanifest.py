#!/usr/bin/env python3
"""Regenerates /verif/MANIFEST.json from the table below and validates it.

usage: python3-vt tools/mkmanifest.py
"""
import json
import os
import sys

HERE = os.path.dirname(os.path.dirname(os.path.abspath(__file__)))
sys.path.insert(0, HERE)
from tools.manifest_table import CHECKS, ENGINES, FIX_COMMITS, NOT_APPLICABLE  # noqa: E402

ALL = ["C%02d" % i for i in range(1, 21)]


def main():
    checks = []
    for pid in ALL:
        if pid not in CHECKS:
            continue
        c = CHECKS[pid]
        checks.append(
            {
                "property_id": pid,
                "quick_cmd": f"python3 run.py {pid} --tier quick",
                "thorough_cmd": f"python3 run.py {pid} --tier thorough",
                "evidence_file": f"/verif/evidence/{pid}.json",
                "replay_cmd_template": f"python3 run.py {pid} --replay {{path}}",
                "engine": c["engine"],
                "level_claimed": {"category": c.get("category", "model_checking"), "text": c["text"], "design_ref": c["design_ref"]},
                "level_note": c["note"],
                "technique": c["technique"],
            }
        )
    na = [{"property_id": p, "reason": r} for p, r in NOT_APPLICABLE.items() if p not in CHECKS]
    missing = [p for p in ALL if p not in CHECKS and p not in NOT_APPLICABLE]
    if missing:
        raise SystemExit(f"properties neither claimed nor listed as not applicable: {missing}")
    m = {
        "version": 1,
        "setup_cmd": "python3 tools/setup.py",
        "hooks": {
            "guard": "DJC_VERIF",
            "enable": "no source hooks: checks import /repo/src directly (PYTHONPATH) and instrument from outside "
                      "(id seam django_components.util.misc.generate, sys.settrace scheduling points, lock wrapper installed before import)",
            "baseline_off_cmd": "cd /repo && /venv/bin/python -m pytest -ra -q -p no:cacheprovider --timeout=900 --continue-on-collection-errors",
            "source_commits": [],
            "add_only": True,
        },
        "engines": ENGINES,
        "checks": checks,
        "not_applicable": na,
        "notes": "Model checking in the sense of DESIGN.md: bounded exhaustive exploration of the real code against small reference models. "
                 "Unguarded repairs of genuine defects in /repo (fix: commits): " + (", ".join(FIX_COMMITS) or "none yet")
                 + ". See known_findings.json for fixed/open findings.",
    }
    path = os.path.join(HERE, "MANIFEST.json")
    try:
        import jsonschema

        schema = json.load(open(os.path.join(HERE, "mc", "MANIFEST.schema.json")))
        jsonschema.Draft202012Validator(schema).validate(m)
    except ImportError:
        print("jsonschema not importable here; run with python3-vt to validate")
    with open(path, "w") as f:
        json.dump(m, f, indent=1)
        f.write("\n")
    print(f"wrote {path}: {len(checks)} checks, {len(na)} not applicable")


if __name__ == "__main__":
    main()
