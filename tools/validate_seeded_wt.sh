#!/bin/bash
# usage: tools/validate_seeded.sh <ID> <k> [extra check ids...]
# Applies /tmp/wt/<ID>-out/<k>/patch.diff to /repo, runs the pinned suite, the demo and the quick check(s),
# reverts, re-runs the demo, and stores the artefacts under /verif/seeded/<ID>-<k>/.
ID=$1; K=$2; shift 2
SRC=/tmp/wt/$ID-out/$K
OUT=/verif/seeded/$ID-${ROUND:+$ROUND-}$K
mkdir -p $OUT
WT=${WT:-/tmp/val}; [ -d $WT ] || git -C /repo worktree add -q --detach $WT HEAD; cd $WT && git checkout -q --detach $(git -C /repo rev-parse HEAD) && git checkout -q -- . 
if [ -n "$(git status --short)" ]; then echo "REPO DIRTY - abort"; exit 2; fi
if git apply --check $SRC/patch.diff 2>/dev/null; then git apply $SRC/patch.diff; APPLY=clean
elif git apply --3way $SRC/patch.diff 2>/dev/null; then git reset -q; APPLY=3way
else echo "PATCH DOES NOT APPLY"; git -C $WT reset -q --hard HEAD; echo '{"applies": false}' > $OUT/meta.json; exit 3; fi
git diff > $OUT/patch.diff
SUITE=$(SUITE_DIR=$WT /venv/bin/python /verif/tools/suite.py 2>&1 | head -1)
DEMO_WITH=$(cd $SRC && PYTHONPATH=$WT/src timeout 300 /venv/bin/python demo.py > /tmp/demo_with.$$.log 2>&1; echo $?)
cd /verif
RESULTS=""
for C in $ID "$@"; do
  R=$(VERIF_REPO_SRC=$WT/src timeout 1500 python3 run.py $C --tier quick --no-evidence 2>&1 | grep -E "VIOLATION|HARNESS|tier=" | head -3 | tr '\n' ' ' | cut -c1-600)
  RC=$(echo "$R" | grep -c "VIOLATION")
  RESULTS="$RESULTS$C: $R ;; "
done
cd $WT && git checkout -- . && git status --short
DEMO_WITHOUT=$(cd $SRC && PYTHONPATH=$WT/src timeout 300 /venv/bin/python demo.py > /tmp/demo_without.$$.log 2>&1; echo $?)
cp $SRC/demo.py $OUT/demo.py; cp $SRC/notes.md $OUT/notes.md 2>/dev/null
python3 - "$ID" "$K" "$APPLY" "$SUITE" "$DEMO_WITH" "$DEMO_WITHOUT" "$RESULTS" > $OUT/meta.json <<'PY'
import json,sys
ID,K,APPLY,SUITE,DW,DWO,RES=sys.argv[1:8]
print(json.dumps({"property":ID,"seed":int(K),"applies":APPLY,"suite":SUITE,"demo_exit_with_change":int(DW),"demo_exit_without_change":int(DWO),
 "quick_checks":RES,"detected":"VIOLATION" in RES,"ran":"git -C /repo apply patch.diff; tools/suite.py; demo.py; python3 run.py <ID> --tier quick; git -C /repo checkout -- ."},indent=1))
PY
echo "== $ID-$K apply=$APPLY suite=[$SUITE] demo_with=$DEMO_WITH demo_without=$DEMO_WITHOUT"; echo "   $RESULTS" | cut -c1-700
