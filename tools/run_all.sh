#!/bin/bash
# usage: tools/run_all.sh quick|thorough   (prints one summary line per check; no evidence written with --no-evidence as 2nd arg)
TIER=${1:-quick}; shift
for i in 01 02 03 04 05 06 07 08 09 10 11 12 13 14 15 16 17 18 19 20; do
  S=$(date +%s)
  OUT=$(timeout 5400 python3 run.py C$i --tier $TIER "$@" 2>&1 | grep -E "VIOLATION|HARNESS|KNOWN|tier=" | head -4 | cut -c1-260)
  echo "$OUT  [$(( $(date +%s) - S ))s rc]"
done
