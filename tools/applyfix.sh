#!/bin/bash
# usage: tools/applyfix.sh <diff> <commit message file>
set -e
cd /repo
git apply --check "$1"
git apply "$1"
if /venv/bin/python /verif/tools/suite.py; then
  git add -A && git commit -q -F "$2" && git log --oneline | head -1
else
  echo "SUITE FAILED - reverting"; git checkout -- . ; exit 1
fi
