#!/bin/bash
# usage: tools/mutate.sh <ID> <python-snippet-file-editing-$SRC> ; runs the quick check against a scratch copy with the mutation
# The snippet is a python script that receives the scratch src dir as argv[1].
set -e
ID=$1; SNIP=$2; shift 2
D=$(mktemp -d /tmp/mut.XXXXXX)
cp -r /repo/src $D/src
/venv/bin/python $SNIP $D/src
(cd $D && diff -ru /repo/src/django_components src/django_components | head -40) || true
cd /verif
VERIF_REPO_SRC=$D/src timeout 1200 python3 run.py $ID --tier quick --no-evidence "$@" 2>&1 | cut -c1-300 | grep -E "VIOLATION|what:|HARNESS|tier=" | head -8
rm -rf $D
