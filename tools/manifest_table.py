"""Source of truth for MANIFEST.json (tools/mkmanifest.py turns it into JSON)."""

ENGINES = [
    {"name": "PROG", "path": "mc/prog.py, mc/proggen.py", "serves_properties": ["C01", "C03", "C04", "C05", "C06", "C10", "C14"],
     "kind_free_text": "bounded-exhaustive enumerator of component programs (AST + printer) executed on the real library and compared with a reference interpreter"},
    {"name": "SCHED", "path": "mc/sched.py", "serves_properties": ["C07"],
     "kind_free_text": "stateless exploration of real threads: baton scheduler, sys.settrace scheduling points from an AST scan of the working tree, cooperative locks, iterative preemption bounding, DFS sharded over first deviations"},
    {"name": "ENUM", "path": "checks/c11.py, checks/c16.py, checks/c17.py, checks/c20.py", "serves_properties": ["C02", "C08", "C09", "C10", "C11", "C12", "C13", "C16", "C17", "C20"],
     "kind_free_text": "bounded-exhaustive input enumeration (full products / all sequences to a length) executed on the real code and compared with a reference function or a stock twin (Python's call binding, importlib, a suffix/pattern predicate, a recursive union model)"},
    {"name": "SEQ", "path": "mc/seq.py", "serves_properties": ["C15", "C16", "C18", "C19"],
     "kind_free_text": "explicit-state BFS over operation histories on the real objects, canonical-state merging, reference model per step, unmerged cross-check"},
]

FIX_COMMITS = ["9971f7b (C01)", "a8b3a60 (C05)", "d2c67e0 (C06)", "af8a5f7 (C06)", "34517b9 (C07)", "64d9058 (C07)", "904ce30 (C11)", "3cabaaa (C11)", "16cad7c (C17)", "914c67b (C17)", "3644eb2 (C20)", "62e89ba (C20)", "4c86fa4 (C04)", "7c927a3 (C16)", "3b28f4c (C16)", "63b789b (C16)", "fe25d7c (C08)", "befe4b1 (C08)", "06b04f5 (C08)", "fbc7b08 (C13)", "7b7750f (C13)", "0b2d530 (C13)", "3717859 (C19)", "1162db7 (C19)", "1ef4601 (C02)", "41fcc59 (C02)", "8eee2e6 (C02)", "f691a46 (C03)", "cc96ad7 (C10)", "12bc436 (C10)", "7b37d74 (C09)", "e4cffa4 (C09)", "0d05afb (C09)", "1fda812 (C12)", "52bde7a (C03)", "adc268a (C01)", "88cad76 (C01)", "16a930a (C01)", "aa5ac88 (C10)", "e5e378b (C10)", "5c39267 (C01)", "e4ae6ac (C10)", "42c5837 (C12)", "75cf70a (C10)", "f36d2ab (C03)", "81d4c5d (C01)", "314af4d (C07)", "325db67 (C19)", "6540976 (C02)", "be44056 (C02)", "3f56e87 (C02)", "57efff7 (C18)", "414e9eb (C12)", "1316837 (C07)", "0d154a6 (C03)", "b33a62d (C06)", "8b1d8e3 (C06)", "dfcb3f4 (C04)", "fa54cf6 (C08)"]

_PENDING = "check not built yet in this session (build order: DESIGN.md section 6); it will be decided by the same bounded-exhaustive technique"

CHECKS = {
    "C01": {
        "engine": "PROG",
        "design_ref": "DESIGN.md 2.1, 3/C01",
        "technique": "bounded-exhaustive program enumeration on the real renderer vs reference interpreter (explicit-state, all programs <= N nodes)",
        "text": "Every component program of the slot/fill profile with <= N nodes (quick: N<=4 full profile + N=5 core profile; thorough: N<=5 full + N=6 core) "
                "is rendered by the real library in both context_behavior modes, through the component tag, the dynamic component and Component.render(slots=...), "
                "and output / error class / is_filled probes are compared with a denotational reference interpreter on every program; plus a structured three-level family (page -> a -> b: fills at both levels, pass-through slots, default= alias, nested/same-named/default-flagged slots; 2304 programs of 8-13 nodes). The three-level family is rendered again with unrelated Python-API renders (succeeding / failing and caught) inside every component's on_render_before / on_render_after hook: the page must render as without them.",
        "note": "bounded program size; variables scope-independent by construction (scoping is C03); slots only inside component templates; acyclic component graphs; reference interpreter encodes the statement's lexical slot resolution",
    },
    "C02": {
        "engine": "ENUM",
        "design_ref": "DESIGN.md 2.4, 3/C02",
        "technique": "grammar-based exhaustive enumeration of argument lists x layouts on the real tag machinery vs reference evaluator + layout metamorphism",
        "text": "All argument lists from the documented grammar up to a node/arity bound (227 leaves x 33 frames; values <= 4/5 nodes to depth 3; all 1-2/3-argument lists; 523 documented-invalid forms) are printed in 10-36 "
                "whitespace/quote/trailing-comma/end-tag layouts and executed through {% component %} and a BaseNode tag against two contexts; received (args, kwargs, flags) are compared type-exactly with a reference evaluator "
                "(stock FilterExpression for leaves, Python semantics for containers, spreads and aggregation) and across layouts; invalid forms must raise TemplateSyntaxError. Part F: keyword values spelled like a flag of the tag (`k=only`, `data=default`) in 7 value forms x flag absent / before / after x bound / unbound, on the component, node and slot seams. Part G: 11 list / dict literal forms x {same Template twice, loop}: a receiver that mutates its arguments must not be seen by the next render of the node.",
        "note": "bounded by value alphabet, size and depth; leaves judged by stock Django default filters; corners the statement leaves open are skipped or accepted under either reading (duplicate keywords, escape sequences, filters on nested-template strings, whitespace around `=`); receivers are *args/**kwargs (binding is C11)",
    },
    "C03": {
        "engine": "PROG",
        "design_ref": "DESIGN.md 2.1, 3/C03",
        "technique": "exhaustive enumeration of a scoping family (all name-collision assignments x structure) on the real renderer vs reference scoping model, 2-run non-interference",
        "text": "The unit page -> outer component -> inner component with a slot is enumerated over all assignments of the names {x,y} to 8 binding roles (page variable, with around either tag, outer/inner data, for/with between tag and fill, "
                "slot data, with around the slot) x kwargs passing x only flags x body kinds x data=/default= aliases x placement depth, each under two page contexts; every position reads every name and each value encodes the role that bound it. "
                "Outputs are compared with the reference interpreter that implements the statement's isolated/django rules; the caller's Context must be unchanged. The family includes two nested loops around the unit with the outer loop binding a name everybody reads; a loop-state family prints the whole forloop / parentloop counter chain inside fills generated by 1-3 nested loops between tag and fill (0-2 loops around the tag) against plain Python loops. Assign-after family: an in-place assignment (firstof / cycle .. as) written after a nested component tag must not reach it or its fill (4 kinds x before / after x 4 routes x 2 bodies); one open known finding (cycle .. as onto a host-defined name).",
        "note": "six corners the statement leaves open are kept out of the generator (DESIGN C03 i-vi); two names, one slot, nesting depth 2-3",
    },
    "C04": {
        "engine": "PROG",
        "design_ref": "DESIGN.md 2.1, 3/C04",
        "technique": "bounded-exhaustive program x asset-assignment enumeration on the real renderer vs first-appearance set/sequence model",
        "text": "Every program of the asset profile with <= N nodes x asset assignments (inline js/css, Media js/css in str/list/dict form, inherited Media, shared files, an unrendered asset-bearing class) "
                "x page wrappers (none / head+body / explicit placeholders) x document/fragment, and all 25 asset assignments x 5 class-name pairs (incl. non-ASCII names and the same __name__ in two modules) on the programs <= 2 nodes, "
                "is rendered by the real library through render_dependencies(), the middleware and Component.render(type=); inline JS/CSS must appear once in first-appearance order, every Media file once, nothing of unrendered classes, no marker survives, fragment JSON declares the same sets. Space P: every component tag that is a direct child of a template moved into an HTML comment / attribute value / textarea.",
        "note": "STATIC_URL=/static/, no manifest storage; media cache cleared between cases; two live classes with one import path and get_js_data/get_css_data are excluded",
    },
    "C05": {
        "engine": "PROG",
        "design_ref": "DESIGN.md 2.1, 2.3, 3/C05",
        "technique": "bounded-exhaustive program enumeration on the real renderer vs dynamic-scope provider model + exhaustive render histories",
        "text": "Every program of the provide profile (provide k|m at page level, in component templates, around slots, in fills, in loops, nested/shadowing; "
                "consumers with and without default) with <= N nodes (quick: N<=4 wide profile + N=5 narrow; thorough: N<=5 / 6) is rendered by the real library in both modes and compared with a "
                "provider-chain reference model (output, KeyError class, injected field names, provided kwargs never template variables, empty provide registries after success); "
                "plus all render histories <= 3 over 6 representative pages (each render equals its solo result). The provider family is also rendered with unrelated Python-API renders (own provide; succeeding / failing and caught) inside every component's hooks: inject results and registries must not change. Part forms: `{% provide ...item %}` over every sequence of <= 3 items from 5 dicts (page loop / component loop / successive renders of one Template) and Python-API renders from slot functions below a provider.",
        "note": "provide tags between a component tag and its fill are outside the profile; bounded program size; single thread (threads are C07)",
    },
    "C06": {
        "engine": "PROG x FAULT",
        "design_ref": "DESIGN.md 2.1, 2.3, 3/C06",
        "category": "fault_enumeration",
        "technique": "exhaustive fault-position enumeration (every user-callback invocation of every bounded program raises) on the real renderer + exhaustive ok/fail histories",
        "text": "For every program of the mixed profile with <= N nodes and every index i of a user-code callback invocation during its render (get_context_data, on_render_before/after, "
                "Python slot functions, a harness tag at every nodelist position; inject of a missing key as natural fault), the run in which invocation i raises is executed on the real library; "
                "the escaping exception must be the injected object, all six render registries empty, caller context and metadata stacks restored, sentinels dead, a follow-up render pristine, "
                "repetition growth-free; plus all ok/fail histories <= 3 over 4 programs. Programs with <= 3 nodes go through the whole fault enumeration again with an unrelated finished / failed-and-caught render nested inside every hook. A two-line exception message must arrive unshortened (path only prepended). Alias family: `default=` alias in nested component bodies - a successful render leaves no registry entry, prepared == rendered.",
        "note": "fault sites are harness callbacks (built-in tag failures represented by the harness tag); liveness via weakref + gc.collect(); bounded program size",
    },
    "C07": {
        "engine": "SCHED",
        "design_ref": "DESIGN.md 2.2, 3/C07",
        "technique": "stateless model checking of real threads: exhaustive schedules up to a preemption bound (CHESS-style iterative context bounding)",
        "text": "Seven 2-thread scenarios (provide/inject incl. a failing render, template compilation through a full LRU cache, first media resolution, lazily created singletons, "
                "nested vs failing nested renders, one Template object shared by a component inside an extends block and a stock include) are executed on the real library under a baton scheduler for every schedule with <= k preemptions at every line touching process-global state "
                "(quick k=2 on the provide-error and LRU scenarios, k=1 elsewhere; thorough k=3 / k=2); each thread's result must equal its solo result, no deadlock, no residue, LRU list/dict invariant. Further scenarios: one Template object shared by a nested component and a stock include (S9), one Component instance / as_view in two threads (S10), one compiled template rendered with two contexts (S11), and opcode-granular variants of the provide and LRU scenarios (every bytecode of perfutil/provide.py, util/cache.py, template.py, cache.py a scheduling point). S12: render_dependencies() on a placeholder-free and a placeholder-bearing document in two threads.",
        "note": "CPython+GIL, preemption between source lines of the scheduling set only (under-approximation: every explored schedule is realisable); 2 threads; library locks become cooperative locks via a wrapper installed before import",
    },
    "C08": {
        "engine": "ENUM",
        "design_ref": "DESIGN.md 2.4, 3/C08",
        "technique": "bounded-exhaustive token documents on the real render_dependencies/middleware vs token-level reference implementation",
        "text": "Every document of <= 4 (thorough <= 5) tokens over a 24-token hostile alphabet (text incl. non-ASCII, look-alikes, </head>/</body> variants, real placeholders with 0-2 id attributes, real marker comments) x str/bytes/SafeString/latin-1 x document/fragment "
                "is run through the real render_dependencies and compared byte-for-byte and type-exactly with a reference of the documented insertion rule; the middleware is run over all <= 2-token bodies x content types (incl. bodies that are not valid in the declared charset) x streaming x sync/async; the real components' inlined scripts carry backslash sequences. and the text of `</head>` / `</body>` (positions are the document's, not those of what was just inserted).",
        "note": "tag strings are taken from the implementation (their content is C04); </HEAD> / </BODY> accepted under either case reading; tag strings containing end-tag or placeholder look-alikes are not generated",
    },
    "C09": {
        "engine": "ENUM",
        "design_ref": "DESIGN.md 2.4, 3/C09",
        "technique": "bounded-exhaustive fragment sequences on the real lexer vs stock DebugLexer and a quote-aware reference lexer",
        "text": "Every concatenation of <= 4 (quick) / <= 5 (thorough) of 34 lexer-relevant fragments, plus all length-5/6 sequences over an 11-fragment core, is lexed by parse_template under both multiline_tags settings and checked for exact partition, "
                "contents and line numbers, for equality with stock DebugLexer where no tag is quoted and with a quote-aware reference lexer otherwise; the public Template() route (with and without a trailing unknown tag) must hand Django's Parser exactly the reference token stream and end with the same outcome, message, token and template_debug as Django's Parser on the reference tokens.",
        "note": "Django 5.1 DebugLexer as stock; backslash escapes honoured; single-line mode with a newline-crossing rescan and unterminated tags checked for the invariants only",
    },
    "C10": {
        "engine": "ENUM + PROG",
        "design_ref": "DESIGN.md 2.4, 3/C10",
        "technique": "differential exhaustive enumeration: stock template families in an unpatched twin process vs the patched process; split (extends/include) programs vs the flattened program",
        "text": "(a) every stock template family with <= N nodes (single / extends+block+block.super / include with-only; if/for/with/filter/autoescape/firstof/cycle, simple_tag with quoted argument, inclusion_tag, ill-formed members) is executed in a "
                "process that never imports django_components and in the patched process, both engine.debug values x 3 contexts; token streams, outputs, exception class/message/debug line and the Context state after render must be identical. "
                "(b) every program of the C01 profile (<= N nodes) x every split of one template (two in thorough) into base/child via extends+block (no override / override / block.super) or into an include - plus block.super inside a component body, plus all of it through the dynamic component - is rendered and must equal the flattened program, both modes. "
                "(c) with Django's cached loader (shared Template objects) every history of <= 3 / <= 4 stock-page and component renders that use the same template files is executed; every operation must give the result it gives as the first operation. Component operations are additionally anchored to the stock render of the named template; a row that extends a base and includes itself is one of the variants.",
        "note": "(a) excludes the two documented lexer differences (`%}` inside quotes, newline inside a tag); Django 5.1 as installed",
    },
    "C11": {
        "engine": "ENUM",
        "design_ref": "DESIGN.md 2.4, 3/C11",
        "technique": "bounded-exhaustive signature x call-sequence enumeration against Python's own call binding (differential twin)",
        "text": "Every render() signature up to 5 parameters (positional-only / positional-or-keyword / *args / keyword-only / **kwargs, with and without defaults; 1085 signatures) is crossed with every "
                "argument sequence up to length 4-5 over matching, duplicate, unknown, non-identifier, keyword and spread-produced keys. Each pair runs on the real tag machinery on both validation paths "
                "(and through @template_tag + Template, and with the built-in tags' signatures); acceptance and complete bindings are compared with Python executing the literal equivalent call on the same function. Part E: `...var` spreads whose operand is a variable of 6 mapping and 5 iterable types, against Python's f(**m) / f(*it). Signatures with <= 2 parameters are also run on a node class that inherits render() from a plain mixin.",
        "note": "integer literal values; list spread after a plain keyword accepted under either reading; **kwargs order and messages not compared; fallback path reached via a callable without __code__; thorough covers L=5 only for signatures <= 3 params",
    },
    "C12": {
        "engine": "ENUM",
        "design_ref": "DESIGN.md 2.4, 3/C12",
        "technique": "bounded-exhaustive syntax-alphabet strings through parse_tag/Template, token mutations, serialise round trip, settrace step counts on pumped families",
        "text": "All strings of <= 4 / <= 5 tokens over the 19-token syntax alphabet go through parse_tag+compile and 7 tag heads, all <= 4 / <= 5-token template strings through Template(), plus every single-token mutant and every proper prefix (truncation) of a generated family of documented-syntax tags, and every block tag registered in the engine in 8 forms as a nested expression inside a string value: "
                "the outcome must be a return or TemplateSyntaxError (2 s hang alarm, crashes keyed by call site); the serialise/re-parse fixpoint is checked on every generated tag, and executed-line counts over ~9.3 k pumping and nesting families (incl. never-closed nested-expression openers inside strings) for k up to 128 / 256 must grow at most quadratically. Part regex_time: CPU time of is_dynamic_expression / parse_template on pumped units (<= 2 / 3 tokens, k = 256..2048) may not grow faster than 5.5x on both last doublings.",
        "note": "no random sampling; regex-engine time is guarded by alarms only; CPython 3.12 / Django 5.1, default tag formatter",
    },
    "C13": {
        "engine": "ENUM",
        "design_ref": "DESIGN.md 2.4, 3/C13",
        "technique": "bounded-exhaustive inputs on the real tags vs merge / escape-once / refuse-or-emit models + html.parser round trip",
        "text": "All (defaults, attrs, <= 2 extras) assignments over 17 values for 5 keys, all writing forms, key pairs and hostile names are rendered through {% html_attrs %} and parsed back with html.parser; "
                "all slot-content kinds x re-pass chains x escape flags, and all js/css strings of <= 3 (thorough <= 4) end-tag look-alike tokens, are checked against the merge, escape-exactly-once and refuse-or-emit models. After every html_attrs render the mappings handed to the tag must be unchanged. End-tag refusal is also checked after a harmless class with the same import path was rendered and the script cache flushed.",
        "note": "values reach the tag via context variables; appends involving None/True/False, the safe flag after an append and attribute order are agnostic; html.parser is the HTML parser of record",
    },
    "C14": {
        "engine": "PROG",
        "design_ref": "DESIGN.md 2.1, 3/C14",
        "technique": "bounded-exhaustive program enumeration on the real renderer vs root-set reference model (html.parser on both sides)",
        "text": "Every program of the element profile (text, for, <div> elements, slot, component tags with fills, two generated components echoing Component.id) "
                "with <= N nodes (quick: N<=4 both modes + N=5 loop-free django; thorough: N<=5 / 6) is rendered by the real library; the final HTML is parsed and each element's "
                "set of data-djc-id-* attributes must equal the set of instances for which the reference interpreter says it is a root; ids distinct and equal to Component.id. "
                "Depth families chain(d)/nest(d) up to d=200 (quick) / 2000 (thorough). The roots family is also rendered with unrelated side renders (ok / failing at 3 points) inside every hook, and the depth families also with the `only` flag. Part real_id_generator runs the library's own id generator while user callbacks reseed / restore `random` (5 perturbations x 4 page shapes).",
        "note": "html.parser trusted; attribute insertion itself happens in the external djc_core_html_parser wheel (not part of the repository)",
    },
    "C15": {
        "engine": "SEQ",
        "design_ref": "DESIGN.md 2.3, 3/C15",
        "technique": "explicit-state BFS to fixpoint over real ComponentRegistry/Library histories vs dict model + tag-table invariant",
        "text": "All register/unregister/get/all/clear histories of every length over 3-4 names x 3 classes are covered by BFS to a fixpoint on real registries for the default, shorthand and a tag-sharing custom formatter, on empty/pre-loaded, "
                "unprotected/protected private libraries, with one registry, two independent registries and two registries sharing a library (36 configurations); each transition is compared with a dict model and the library tag table; "
                "all unmerged sequences <= 4 (quick) / <= 5 (thorough) cross-check the state merging; every reachable single-registry state is also probed through a compiled template. One open known finding (shared library). Four single-registry configurations are explored a second time through the module-level @register decorator. `mark_protected_tags(lib, [])` (explicitly nothing protected) is one of the protect options. Part protection_histories: every history <= 4 / 5 in which the protected list itself changes (mark_protected_tags as an operation).",
        "note": "single-threaded; formatter and protection fixed per history; shared-library clause read over all registries attached to the library; classes with unique import paths",
    },
    "C16": {
        "engine": "ENUM",
        "design_ref": "DESIGN.md 2.3, 2.4, 3/C16",
        "technique": "bounded-exhaustive class-hierarchy x access-history enumeration on real classes (BFS to fixpoint over reads) vs recursive union model",
        "text": "All component hierarchies up to 4 classes over the full Media / extend alphabet (cut alphabets up to 6) are built as fresh real classes; all (first-)access orders of .media are read and for n<=3 a BFS to a "
                "fixpoint covers every history of .media/.template/.js/.css/*_file reads on classes and instances. Every read is compared with a recursive union model, with order-independence across access orders, "
                "with subsequence-consistency of declared lists and with the nearest-definer pair rule. Part D: parent / child / grandchild spread over two directories with same-named files, every ordered choice of the first reads. Part R: a js / css / template file that appears after a failed first access must be picked up (4 x 4 access routes).",
        "note": "one directory per hierarchy, plain-string paths; multiple-inheritance classes without own Media accepted under either reading; n=5,6 restricted to single-sink shapes; history merging cross-checked by an unmerged depth-2 search",
    },
    "C17": {
        "engine": "ENUM",
        "design_ref": "DESIGN.md 2.4, 3/C17",
        "technique": "bounded-exhaustive file-name x allowed/forbidden-configuration x lookup-path product on the real finder vs suffix/pattern predicate",
        "text": "Every file of a tree holding the full stem x look-alike-extension x depth product is queried through list(), find() under three in-root spellings, find(all=True) and ~100 traversal spellings, "
                "under every default / empty / singleton / pair configuration of 19 allowed/forbidden entries (metacharacter suffix strings, compiled patterns), three directory layouts and three setting spellings, "
                "and compared with the reference predicate; six configurations are repeated end-to-end through collectstatic and the dev-server view. Layouts `both` / `empty`: COMPONENTS.dirs given (one directory / the empty list) next to a non-empty STATICFILES_DIRS, in every spelling of the setting.",
        "note": "POSIX, no symlinks or control characters; patterns judged on the path relative to the component dir; dot-less suffixes only 'no crash' plus files on which both readings agree; Django 5.1 staticfiles",
    },
    "C18": {
        "engine": "SEQ",
        "design_ref": "DESIGN.md 2.3, 3/C18",
        "technique": "explicit-state BFS to fixpoint over real LRUCache / cached_template histories vs OrderedDict model",
        "text": "All get/has/set/clear histories of every length over 4 keys x 2 values are covered by a BFS to fixpoint on the real LRUCache "
                "(sizes None,0,1,2,3) with an OrderedDict reference model and a list/dict structural invariant checked in every state; "
                "cached_template() is searched the same way for cache sizes 0,1,2,128 and component renders for all sequences <= 4. Requests whose output depends on the origin (relative include) are part of both searches; the oracle compares cached objects, never the implementation's key tuples. Part D: every history <= 5 over {render a host component, render a cached tag template, re-register the component name with another class}: output = a template compiled afresh.",
        "note": "single-threaded; alphabet of 4 keys/2 values (code is key/value agnostic); CPython 3.12 / Django 5.1 as installed",
    },
}

CHECKS["C19"] = {
    "engine": "SEQ",
    "design_ref": "DESIGN.md 2.3, 2.4, 3/C19",
    "technique": "explicit-state BFS over render / pre-render / eviction histories with every announced URL fetched through django.test.Client + exhaustive request product",
    "text": "All histories of every length over 21 operations (document/fragment renders of 5 classes via Component.render, template + render_dependencies and the pre-rendered-slot flow; clear, single-key eviction, cache re-creation) are covered "
            "by BFS to a fixpoint for the built-in and a configured media cache; each announced URL must return 200 with that class's code and content type, every other known URL 404 or the right code; unmerged sequences <= 3 / <= 4 cross-check the merging; "
            "100 asset-shape renders and a 7000-request product of hashes x kinds x input hashes x methods decide the 404/405/never-5xx clause. With the built-in cache a URL must stay servable until its key is evicted; part lifecycle_and_names: an older class with the same import path is dropped and collected inside every history <= 4 ops, and pairs of related class names (non-ASCII letters, case, digits) are rendered in both orders.",
    "note": "single-threaded; locmem caches; evictions only between operations; classes alive with unique identifier names; a raising render is not judged; vars-file bodies not asserted",
}

CHECKS["C20"] = {
    "engine": "ENUM",
    "design_ref": "DESIGN.md 2.4, 3/C20",
    "technique": "bounded-exhaustive path product x directory-configuration product on get_component_files/autodiscover vs reference filter and importlib",
    "text": "All paths over the part alphabet (depth <= 2 quick / <= 3 thorough) x 16 file names plus file-like directories, under 540 configurations (COMPONENTS.dirs forms, STATICFILES_DIRS forms, app dirs of generated apps, BASE_DIR as str/Path) "
            "and 7 suffixes are compared as multisets with the statement's filter; dotted paths of dot-free .py entries are validated with importlib.util.find_spec; autodiscover() is run on three import-clean layouts with an execution log.",
    "note": "component dirs disjoint and below BASE_DIR; dotted names membership-only; no symlinks; CPython 3.12",
}

NOT_APPLICABLE = {("C%02d" % i): _PENDING for i in range(1, 21)}
