"""Source of truth for MANIFEST.json (tools/mkmanifest.py turns it into JSON)."""

ENGINES = [
    {"name": "SEQ", "path": "mc/seq.py", "serves_properties": ["C18"],
     "kind_free_text": "explicit-state BFS over operation histories on the real objects, canonical-state merging, reference model per step, unmerged cross-check"},
]

FIX_COMMITS = []

_PENDING = "check not built yet in this session (build order: DESIGN.md section 6); it will be decided by the same bounded-exhaustive technique"

CHECKS = {
    "C18": {
        "engine": "SEQ",
        "design_ref": "DESIGN.md 2.3, 3/C18",
        "technique": "explicit-state BFS to fixpoint over real LRUCache / cached_template histories vs OrderedDict model",
        "text": "All get/has/set/clear histories of every length over 4 keys x 2 values are covered by a BFS to fixpoint on the real LRUCache "
                "(sizes None,0,1,2,3) with an OrderedDict reference model and a list/dict structural invariant checked in every state; "
                "cached_template() is searched the same way for cache sizes 0,1,2,128 and component renders for all sequences <= 4.",
        "note": "single-threaded; alphabet of 4 keys/2 values (code is key/value agnostic); CPython 3.12 / Django 5.1 as installed",
    },
}

NOT_APPLICABLE = {("C%02d" % i): _PENDING for i in range(1, 21)}
