# C15, same defect through the default library: the docstring example of ComponentRegistry
# ("registry = ComponentRegistry()  # Use with default Library ... registry.clear()") kills {% component %} globally.
import django
from django.conf import settings
settings.configure(INSTALLED_APPS=["django_components"], SECRET_KEY="x",
    TEMPLATES=[{"BACKEND": "django.template.backends.django.DjangoTemplates",
                "OPTIONS": {"builtins": ["django_components.templatetags.component_tags"]}}],
    COMPONENTS={"autodiscover": False, "dirs": [], "app_dirs": []})
django.setup()
from django.template import Template, Context
from django_components import Component, ComponentRegistry, registry
class A(Component):
    template = "a"
class Page(Component):
    template = "page"
registry.register("page", Page)
mine = ComponentRegistry()          # default library
mine.register("a", A)
mine.clear()
print(registry.all())               # {'dynamic': ..., 'page': Page} - still registered
Template("{% component 'page' / %}")  # TemplateSyntaxError: Invalid block tag ... 'component'
