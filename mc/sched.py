"""SCHED engine (DESIGN 2.2): stateless exploration of real threads under a cooperative baton.

Each task body runs in its own OS thread; exactly one thread holds the baton.  A per-thread
sys.settrace function turns every *line event inside the scheduling set* into a scheduling
point.  Choices are indices into the canonical enabled list (running thread first if still
enabled, then ascending ids).  Exploration is depth-first over choice prefixes with
iterative preemption bounding; every execution runs to completion.
"""
from __future__ import annotations

import ast
import gc
import os
import sys
import threading

from . import boot

_real_Semaphore = threading.Semaphore


class ReplayDivergence(Exception):
    pass


class SchedAbort(BaseException):
    """raised inside task threads to unwind them after a deadlock / watchdog"""


class Point:
    __slots__ = ("n_enabled", "running_enabled", "loc", "tid")

    def __init__(self, n_enabled, running_enabled, loc, tid):
        self.n_enabled = n_enabled
        self.running_enabled = running_enabled
        self.loc = loc
        self.tid = tid


class Execution:
    def __init__(self):
        self.choices = []
        self.points = []
        self.results = []  # per task: ("ok", value) | ("err", ExcClassName, message)
        self.deadlock = False
        self.npoints_total = 0  # scheduling points passed, including those with a single enabled thread

    def preemptions_before(self, i):
        return sum(1 for j in range(i) if self.points[j].running_enabled and self.choices[j] != 0)

    def preemption_sites(self):
        return [self.points[j].loc for j in range(len(self.choices)) if self.points[j].running_enabled and self.choices[j] != 0]


class Scheduler:
    def __init__(self, tasks, prefix, lines, files, opcode_files=(), id_prefixes=None):
        self.tasks = tasks
        self.n = len(tasks)
        self.prefix = list(prefix)
        self.lines = lines  # set of (filename, lineno)
        self.files = files  # set of filenames to trace at all
        self.opcode_files = set(opcode_files)
        self.sems = [_real_Semaphore(0) for _ in range(self.n)]
        self.state = ["ready"] * self.n  # ready | blocked | done
        self.blocked_on = [None] * self.n
        self.current = None
        self.x = Execution()
        self.x.results = [None] * self.n
        self.done = threading.Event()
        self.abort = False
        self.thread_ids = {}
        self.id_prefixes = id_prefixes or [chr(ord("b") + i) for i in range(self.n)]
        self.error = None

    # ---- identity
    def owns_current_thread(self):
        return threading.get_ident() in self.thread_ids

    def current_tid(self):
        return self.thread_ids[threading.get_ident()]

    # ---- choice
    def _choose(self, enabled, running_enabled, loc, tid):
        if len(enabled) == 1:
            return enabled[0]
        k = len(self.x.choices)
        if k < len(self.prefix):
            c = self.prefix[k]
            if c < 0 or c >= len(enabled):
                self.error = ReplayDivergence(f"choice {c} out of range ({len(enabled)} enabled) at point {k} {loc}")
                c = 0
        else:
            c = 0
        self.x.choices.append(c)
        self.x.points.append(Point(len(enabled), running_enabled, loc, tid))
        return enabled[c]

    def _ready_others(self, t):
        return [i for i in range(self.n) if i != t and self.state[i] == "ready"]

    def _switch(self, t, to):
        """hand the baton from t to `to`; returns when t is scheduled again"""
        self.current = to
        self.sems[to].release()
        self.sems[t].acquire()
        if self.abort:
            raise SchedAbort()

    # ---- scheduling points (called by the running task thread)
    def point(self, loc):
        t = self.current_tid()
        self.x.npoints_total += 1
        enabled = [t] + self._ready_others(t)
        nxt = self._choose(enabled, True, loc, t)
        if nxt != t:
            self._switch(t, nxt)

    def lock_point(self, lock):
        self.point(("lock", 0))

    def block_on(self, lock):
        t = self.current_tid()
        self.state[t] = "blocked"
        self.blocked_on[t] = lock
        others = self._ready_others(t)
        if not others:
            self._deadlock()
            raise SchedAbort()
        nxt = self._choose(others, False, ("blocked", 0), t)
        self._switch(t, nxt)

    def lock_released(self, lock):
        for i in range(self.n):
            if self.state[i] == "blocked" and self.blocked_on[i] is lock:
                self.state[i] = "ready"
                self.blocked_on[i] = None

    def _deadlock(self):
        self.x.deadlock = True
        self._abort_all()

    def _abort_all(self):
        self.abort = True
        for i in range(self.n):
            if self.state[i] != "done":
                self.sems[i].release()
        self.done.set()

    # ---- tracing
    def _global_trace(self, frame, event, arg):
        if event == "call" and frame.f_code.co_filename in self.files:
            if frame.f_code.co_filename in self.opcode_files:
                frame.f_trace_opcodes = True
            return self._local_trace
        return None

    def _local_trace(self, frame, event, arg):
        if event == "line":
            key = (frame.f_code.co_filename, frame.f_lineno)
            if key in self.lines:
                self.point(key)
        elif event == "opcode":
            key = (frame.f_code.co_filename, frame.f_lineno)
            if key in self.lines:
                self.point((key[0], key[1], frame.f_lasti))
        return self._local_trace

    # ---- thread body
    def _body(self, t):
        self.thread_ids[threading.get_ident()] = t
        boot.ID_SEAM.prefix_by_thread[threading.get_ident()] = self.id_prefixes[t]
        self.sems[t].acquire()
        try:
            if self.abort:
                raise SchedAbort()
            sys.settrace(self._global_trace)
            try:
                self.x.results[t] = ("ok", self.tasks[t]())
            finally:
                sys.settrace(None)
        except SchedAbort:
            self.x.results[t] = ("abort",)
        except BaseException as e:  # noqa
            self.x.results[t] = ("err", type(e).__name__, str(e)[:300])
        finally:
            boot.ID_SEAM.prefix_by_thread.pop(threading.get_ident(), None)
            boot.ID_SEAM.count_by_thread.pop(threading.get_ident(), None)
        # termination: a non-preemptive choice point
        self.state[t] = "done"
        if self.abort:
            return
        others = self._ready_others(t)
        if others:
            nxt = self._choose(others, False, ("exit", 0), t)
            self.current = nxt
            self.sems[nxt].release()
        elif any(s == "blocked" for s in self.state):
            self._deadlock()
        else:
            self.done.set()

    def run(self, watchdog=30.0):
        prev = boot.ACTIVE_SCHEDULER
        boot.ACTIVE_SCHEDULER = self
        gc_was = gc.isenabled()
        gc.disable()
        threads = [threading.Thread(target=self._body, args=(i,), daemon=True) for i in range(self.n)]
        try:
            for th in threads:
                th.start()
            first = self._choose(list(range(self.n)), False, ("start", 0), -1)
            self.current = first
            self.sems[first].release()
            if not self.done.wait(watchdog):
                self._abort_all()
                for th in threads:
                    th.join(5)
                raise WatchdogTimeout(f"execution did not finish within {watchdog}s; prefix={self.prefix}")
            for th in threads:
                th.join(10)
        finally:
            boot.ACTIVE_SCHEDULER = prev
            if gc_was:
                gc.enable()
        if self.error:
            raise self.error
        if len(self.x.choices) < len(self.prefix):
            raise ReplayDivergence(f"execution ended after {len(self.x.choices)} choices, prefix has {len(self.prefix)}")
        return self.x


class WatchdogTimeout(Exception):
    pass


# ---------------------------------------------------------------------------
# scheduling set: recomputed from the working tree (DESIGN 2.2)
# ---------------------------------------------------------------------------

ALL_LINES_FILES = ("perfutil/provide.py", "util/cache.py", "cache.py", "template.py")
ALL_LINES_FUNCS = ("_resolve_media", "_get_comp_cls_attr", "_get_comp_cls_media", "_get_comp_cls_media_attr")
SHARED_ATTRS = ("resolved", "_djc_is_component_nested", "_component_media", "_class_hash")


def package_dir():
    import django_components

    return os.path.dirname(os.path.abspath(django_components.__file__))


def _module_level_mutables(tree):
    names = set()
    for node in tree.body:
        targets = []
        value = None
        if isinstance(node, ast.Assign):
            targets, value = node.targets, node.value
        elif isinstance(node, ast.AnnAssign) and node.value is not None:
            targets, value = [node.target], node.value
        for t in targets:
            if not isinstance(t, ast.Name):
                continue
            v = value
            mutable = isinstance(v, (ast.Dict, ast.List, ast.Set, ast.DictComp, ast.ListComp, ast.SetComp))
            if isinstance(v, ast.Call):
                f = v.func
                fname = f.id if isinstance(f, ast.Name) else (f.attr if isinstance(f, ast.Attribute) else "")
                if fname in ("dict", "list", "set", "deque", "WeakValueDictionary", "WeakKeyDictionary", "defaultdict", "OrderedDict", "LRUCache"):
                    mutable = True
            if isinstance(v, ast.Constant) and v.value is None:
                mutable = True  # None-then-`global` lazily created singletons
            if mutable and not t.id.isupper():
                names.add(t.id)
    return names


def scheduling_set(media=True, extra_funcs=(), extra_attrs=()):
    """-> (lines: set[(filename, lineno)], files: set[filename], globals found)
    media=False leaves out the lazy media-resolution functions / attributes (they are executed on
    every attribute access of a component class and are only relevant to the media scenarios)."""
    all_lines_funcs = (ALL_LINES_FUNCS if media else ()) + tuple(extra_funcs)
    shared_attrs = (SHARED_ATTRS if media else ()) + tuple(extra_attrs)
    pkg = package_dir()
    trees = {}
    for root, _dirs, fnames in os.walk(pkg):
        for fn in fnames:
            if fn.endswith(".py"):
                path = os.path.join(root, fn)
                with open(path) as f:
                    try:
                        trees[path] = ast.parse(f.read())
                    except SyntaxError:
                        continue
    shared = set()
    for path, tree in trees.items():
        shared |= _module_level_mutables(tree)
    # names that are module-level but not state (typing aliases etc. never appear in function bodies as loads of mutables)
    lines = set()
    files = set()
    for path, tree in trees.items():
        rel = os.path.relpath(path, pkg).replace(os.sep, "/")
        whole = rel in ALL_LINES_FILES
        for fn in ast.walk(tree):
            if not isinstance(fn, (ast.FunctionDef, ast.AsyncFunctionDef)):
                continue
            all_lines = whole or fn.name in all_lines_funcs
            for node in ast.walk(fn):
                ln = getattr(node, "lineno", None)
                if ln is None:
                    continue
                hit = False
                if all_lines and isinstance(node, ast.stmt):
                    hit = True
                elif isinstance(node, ast.Name) and node.id in shared:
                    hit = True
                elif isinstance(node, ast.Attribute) and node.attr in shared_attrs:
                    hit = True
                elif isinstance(node, ast.Constant) and isinstance(node.value, str) and node.value in shared_attrs:
                    hit = True  # getattr / hasattr / setattr / __dict__ access by name
                elif isinstance(node, ast.Global):
                    hit = True
                if hit:
                    lines.add((path, ln))
                    files.add(path)
    return lines, files, sorted(shared)


# ---------------------------------------------------------------------------
# exploration
# ---------------------------------------------------------------------------


class Explorer:
    """depth-first exploration of choice prefixes with a preemption bound (brief's idiom)"""

    def __init__(self, run_prefix, check, bound, max_executions=None):
        self.run_prefix = run_prefix  # prefix -> Execution
        self.check = check  # Execution -> None
        self.bound = bound
        self.executions = 0
        self.transitions = 0
        self.points_max = 0
        self.max_executions = max_executions
        self.capped = False

    def explore(self, prefix):
        if self.max_executions is not None and self.executions >= self.max_executions:
            self.capped = True
            return
        x = self.run_prefix(prefix)
        self.executions += 1
        self.transitions += x.npoints_total
        self.points_max = max(self.points_max, len(x.points))
        self.check(x)
        for i in range(len(prefix), len(x.points)):
            p = x.points[i]
            cost = x.preemptions_before(i) + (1 if p.running_enabled else 0)
            if cost > self.bound:
                continue
            for alt in range(1, p.n_enabled):
                self.explore(x.choices[:i] + [alt])

    def first_level(self, x, prefix_len=0):
        """the (prefix) list of all first deviations from execution x (for sharding across workers)"""
        out = []
        for i in range(prefix_len, len(x.points)):
            p = x.points[i]
            cost = x.preemptions_before(i) + (1 if p.running_enabled else 0)
            if cost > self.bound:
                continue
            for alt in range(1, p.n_enabled):
                out.append(x.choices[:i] + [alt])
        return out
