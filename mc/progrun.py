"""Shared helpers for PROG-based checks: model outcome, identity cores, sharded part runner."""
from __future__ import annotations

import hashlib
import json
import re

from . import boot, par
from .prog import Harness, Interp, ModelError, ModelKeyError, Program, size, strip_markers


def model_outcome(prog, mode, mark=False):
    it = Interp(prog, mode, mark=mark)
    try:
        return ("ok", it.render_page()), it
    except ModelError as e:
        return ("err", "TemplateSyntaxError", e.cause), it
    except ModelKeyError as e:
        return ("err", "KeyError", "inject-missing-%s" % e), it
    except RecursionError:
        return ("skip",), it


def prog_size(prog):
    return size(prog.page) + sum(size(c.template) for c in prog.comps.values() if c.template)


def core_of(prog):
    """identity core: program text with text markers removed"""
    s = prog.page_source() + "|" + "|".join(f"{n}={c.source()}" for n, c in sorted(prog.comps.items()))
    s = re.sub(r"\b[PAB]\d+ ", "T ", s)
    return hashlib.sha1(s.encode()).hexdigest()[:10] + ":" + s[:200]


def prog_spec(prog):
    return {"page": prog.page, "comps": {n: c.template for n, c in prog.comps.items()}, "ctx": prog.ctx}


def retuple(x):
    if isinstance(x, list):
        return tuple(retuple(i) for i in x)
    return x


def prog_from_spec(spec, make_spec):
    comps = {n: make_spec(n, retuple(t) if t is not None else None) for n, t in spec["comps"].items()}
    return Program(retuple(spec["page"]), comps, dict(spec.get("ctx") or {}))


def compare_outcome(exp, obs, norm=strip_markers):
    """None if the observation matches the model, else (clause, text)."""
    if exp[0] == "skip":
        return None
    if exp[0] == "ok":
        if obs[0] == "ok" and norm(obs[1]) == exp[1]:
            return None
        got = norm(obs[1]) if obs[0] == "ok" else obs
        return ("output", f"expected output {exp[1]!r}, got {got!r}")
    if obs[0] == "err" and obs[1] == exp[1]:
        return None
    got = norm(obs[1]) if obs[0] == "ok" else obs
    return ("error", f"expected {exp[1]} ({exp[2]}), got {got!r}")


def run_parts(ctx, worker, parts, modes=("django", "isolated"), extra_payload=None):
    """parts: (label, profile kwargs, N, skip).  worker(w, W, (pfkw, N, skip, mode, extra))"""
    ev = ctx.ev
    for label_, pfkw, N, skip in parts:
        for mode in modes:
            agg = par.run_sharded(worker, (pfkw, N, skip, mode, extra_payload))
            ev.add_part(f"{label_}_N{N}_{mode}", states=agg.states, transitions=agg.transitions, validated=agg.validated,
                        nontrivial=agg.nontrivial, observed_distinct=len(agg.observed), expected=agg.expected,
                        bound={"profile": label_, "profile_restrictions": {k: v for k, v in pfkw.items()}, "N": N,
                               "sizes_skipped_as_covered_by_earlier_part": skip}, samples=agg.samples[:1],
                        extra=dict(agg.extra) or None)
            ctx.fnd.merge_reports(sorted(agg.failures, key=lambda f: (len(json.dumps(f[2], default=str)), f[0])))
            if agg.failures_dropped:
                ev.extra["failures_dropped"] = ev.extra.get("failures_dropped", 0) + agg.failures_dropped
    boot.set_components_setting(context_behavior="django")
