"""C02 helpers: abstract argument lists, bounded enumerators, layout printer, reference evaluator.

Abstract syntax (plain tuples, JSON-able after tuple->list conversion, see `thaw`):

  atom   ::= ("int", txt) | ("float", txt) | ("const", "None"|"True"|"False") | ("var", dotted)
           | ("raw", literal_text)     printed verbatim in every layout (strings with an escaped quote)
           | ("str", content) | ("trans", content) | ("tpl", (piece, ...))
  piece  ::= ("text", t) | ("var", leaf) | ("tag", source, rendered) | ("comment", t)
  leaf   ::= ("leaf", atom, (filt, ...))            filt ::= (name, None | atom)
  value  ::= leaf | ("list", (lentry, ...)) | ("dict", (dentry, ...))
  lentry ::= ("v", value) | ("sp", value)                               `*value`
  dentry ::= ("kv", leaf, value) | ("sp", value)                        `**value`
  arg    ::= ("pos", value) | ("kw", key, value) | ("spread", value) | ("flag", name)

Documented-invalid productions (printed like the valid ones, the reference answers TSE):

  lentry / dentry  ("badsp", token, value)      wrong spread token for the container
  dentry           ("spkey", value, value)      `{**x: 1}`      spread on a key position
  dentry           ("spval", leaf, token, value)`{"k": **x}`    spread on a value position
  filt             ("@spread", token, name)     `x|...upper`    spread inside a filter
  arg              ("kwspread", key, token, value)  `a=...x`, `a=*x`, `a=**x`
  arg              ("badtop", token, value)         `*x`, `**x` as a tag attribute
"""
from __future__ import annotations

from collections.abc import Iterable, Mapping
from typing import NamedTuple

# --------------------------------------------------------------------------- helpers


def freeze(o):
    if isinstance(o, (list, tuple)):
        return tuple(freeze(x) for x in o)
    return o


def thaw(o):
    if isinstance(o, (list, tuple)):
        return [thaw(x) for x in o]
    return o


def leaf(atom, *filters):
    return ("leaf", atom, tuple(filters))


def I(t):  # noqa: E743
    return ("int", str(t))


def S(t):
    return ("str", t)


def V(t):
    return ("var", t)


def T(t):
    return ("trans", t)


# --------------------------------------------------------------------------- layouts
WS_CLASSES = (
    "open",  # after [ or {
    "close",  # before ] or }
    "bcomma",
    "acomma",
    "bcolon",  # dict colon
    "acolon",
    "bpipe",
    "apipe",
    "bfcolon",  # filter-argument colon
    "afcolon",
    "aspread",  # after * / ** (never after ... : documented as significant)
    "trans",  # inside _( "..." )
)


class Layout(NamedTuple):
    name: str
    ws: tuple  # one string per WS_CLASSES entry
    sep: str  # between tag attributes (at least one whitespace character)
    quote: str  # preferred quote character
    trailing: bool  # trailing comma in every non-empty container
    closing: str  # "self" -> `/ %}`, "end" -> explicit end tag

    def w(self, cls):
        return self.ws[WS_CLASSES.index(cls)]


def _ws(default="", **over):
    return tuple(over.get(c, default) for c in WS_CLASSES)


def main_layouts():
    """The layouts applied to every argument list (first one is the canonical rendering)."""
    NL = "\n\t"
    return [
        Layout("compact", _ws(""), " ", '"', False, "self"),
        Layout("pythonic", _ws("", acomma=" ", acolon=" "), " ", '"', False, "self"),
        Layout("padded", _ws("", acomma=" ", acolon=" ", open=" ", close=" "), " ", '"', False, "self"),
        Layout("spaced", _ws(" "), "  ", '"', False, "self"),
        Layout("newline", _ws(NL), NL, '"', False, "self"),
        Layout("squote", _ws(""), " ", "'", False, "self"),
        Layout("trailing", _ws(""), " ", '"', True, "self"),
        Layout("endtag", _ws(""), " ", '"', False, "end"),
        Layout("all", _ws(" ", acomma=NL, open=NL), " \n", "'", True, "end"),
        Layout("pythonic-trailing", _ws("", acomma=" ", acolon=" ", close="\n"), "\n", '"', True, "self"),
    ]


def onehot_layouts(tier="thorough"):
    """One whitespace class at a time, everything else compact (thorough: also CRLF+tab with trailing commas)."""
    out = []
    for c in WS_CLASSES:
        out.append(Layout("only-" + c, _ws("", **{c: " "}), " ", '"', False, "self"))
        if tier == "thorough":
            out.append(Layout("only-" + c + "-crlf", _ws("", **{c: "\r\n\t"}), " ", '"', True, "self"))
    out.append(Layout("sep-formfeed", _ws(""), " \f ", '"', False, "self"))
    out.append(Layout("crlf", _ws("\r\n"), "\r\n", '"', True, "self"))
    return out


# --------------------------------------------------------------------------- printer
def _other(q):
    return "'" if q == '"' else '"'


def _quote(content, q):
    if q in content:
        q = _other(q)
    if q in content:
        raise ValueError("string content with both quote characters is outside the generator: %r" % (content,))
    return q + content + q


def pr_atom(atom, lay, q=None):
    q = q or lay.quote
    k = atom[0]
    if k in ("int", "float", "const", "var", "raw"):
        return atom[1]
    if k == "str":
        return _quote(atom[1], q)
    if k == "trans":
        t = lay.w("trans")
        return "_(" + t + _quote(atom[1], q) + t + ")"
    if k == "tpl":
        # The outer quote is the layout's unless the content forbids it: a text piece may hold one
        # kind of quote character bare (then the other kind must be the outer one) or escaped
        # (backslash + quote - then that kind must be the outer one: a backslash before the *other*
        # quote is one of the excluded "other backslash escapes").
        for outer in (q, _other(q)):
            content = _tpl_content(atom[1], _other(outer))
            if _tpl_fits(content, outer):
                return outer + content + outer
        raise ValueError("nested template text fits neither outer quote: %r" % (atom,))
    raise ValueError(atom)


def _tpl_content(pieces, inner):
    parts = []
    for p in pieces:
        if p[0] == "text":
            parts.append(p[1])
        elif p[0] == "var":
            parts.append("{{ " + pr_leaf(p[1], CANON, inner) + " }}")
        elif p[0] == "tag":
            parts.append(p[1])
        elif p[0] == "comment":
            parts.append("{# " + p[1] + " #}")
        else:
            raise ValueError(p)
    return "".join(parts)


def _tpl_fits(content, outer):
    """no bare `outer` and no backslash-escaped other quote inside `content`"""
    prev = ""
    for ch in content:
        if ch == outer and prev != "\\":
            return False
        if ch == _other(outer) and prev == "\\":
            return False
        prev = ch
    return True


def pr_leaf(lf, lay, q=None):
    _, atom, filters = lf
    s = pr_atom(atom, lay, q)
    for f in filters:
        if f[0] == "@spread":
            s += lay.w("bpipe") + "|" + lay.w("apipe") + f[1] + f[2]
            continue
        name, arg = f
        s += lay.w("bpipe") + "|" + lay.w("apipe") + name
        if arg is not None:
            s += lay.w("bfcolon") + ":" + lay.w("afcolon") + pr_atom(arg, lay, q)
    return s


def _container(op, cl, entries, lay):
    if not entries:
        return op + lay.w("open") + cl
    s = op + lay.w("open") + (lay.w("bcomma") + "," + lay.w("acomma")).join(entries)
    if lay.trailing:
        s += lay.w("bcomma") + ","
    return s + lay.w("close") + cl


def pr_value(v, lay):
    k = v[0]
    if k == "leaf":
        return pr_leaf(v, lay)
    if k == "list":
        ents = []
        for e in v[1]:
            if e[0] == "v":
                ents.append(pr_value(e[1], lay))
            elif e[0] == "sp":
                ents.append("*" + lay.w("aspread") + pr_value(e[1], lay))
            elif e[0] == "badsp":
                ents.append(e[1] + pr_value(e[2], lay))
            else:
                raise ValueError(e)
        return _container("[", "]", ents, lay)
    if k == "dict":
        ents = []
        colon = lay.w("bcolon") + ":" + lay.w("acolon")
        for e in v[1]:
            if e[0] == "kv":
                ents.append(pr_leaf(e[1], lay) + colon + pr_value(e[2], lay))
            elif e[0] == "sp":
                ents.append("**" + lay.w("aspread") + pr_value(e[1], lay))
            elif e[0] == "badsp":
                ents.append(e[1] + pr_value(e[2], lay))
            elif e[0] == "spkey":
                ents.append("**" + lay.w("aspread") + pr_value(e[1], lay) + colon + pr_value(e[2], lay))
            elif e[0] == "spval":
                ents.append(pr_leaf(e[1], lay) + colon + e[2] + pr_value(e[3], lay))
            else:
                raise ValueError(e)
        return _container("{", "}", ents, lay)
    raise ValueError(v)


def pr_arg(a, lay):
    k = a[0]
    if k == "pos":
        return pr_value(a[1], lay)
    if k == "kw":
        return a[1] + "=" + pr_value(a[2], lay)
    if k == "spread":
        return "..." + pr_value(a[1], lay)
    if k == "flag":
        return a[1]
    if k == "kwspread":
        return a[1] + "=" + a[2] + pr_value(a[3], lay)
    if k == "badtop":
        return a[1] + pr_value(a[2], lay)
    raise ValueError(a)


def pr_args(args, lay):
    return lay.sep.join(pr_arg(a, lay) for a in args)


def pr_template(seam, args, lay):
    """seam: 'component' -> {% component "probe" ... %}, 'node' -> {% probe ... %}"""
    body = pr_args(args, lay)
    if seam == "component":
        head, end = "component" + lay.sep + _quote("probe", lay.quote), "endcomponent"
    else:
        head, end = "probe", "endprobe"
    s = "{% " + head
    if body:
        s += lay.sep + body
    if lay.closing == "self":
        return s + lay.sep + "/ %}"
    return s + lay.sep.rstrip(" ") + " %}{% " + end + " %}"


CANON = Layout("canon", _ws(""), " ", '"', False, "self")


# --------------------------------------------------------------------------- reference evaluator
class AnyStr(str):
    """A string whose str-subclass (str / SafeString) the statement does not fix."""


class Skip(Exception):
    """The case is outside what the statement fixes (reason in args[0])."""


class Invalid(Exception):
    """The argument list is one of the documented-invalid forms: TemplateSyntaxError expected."""


class Reference:
    """Evaluates abstract argument lists: leaves through *stock* FilterExpression, the rest in Python."""

    def __init__(self):
        from django.template.base import Parser
        from django.template.defaultfilters import register as default_filters

        self.parser = Parser([], builtins=[default_filters])
        self._fe = {}
        # reading of a backslash-escaped quote inside a nested-template string (not fixed by the
        # statement): False -> the text between the outer quotes is the template as written
        # (backslash kept), True -> the escape denotes the bare quote character (as in a plain string)
        self.unescape_tpl = False

    def _tpl_text(self, t):
        if self.unescape_tpl:
            return t.replace('\\"', '"').replace("\\'", "'")
        return t

    def leaf_value(self, lf, ctx):
        from django.template.base import FilterExpression, render_value_in_context

        _, atom, filters = lf
        for f in filters:
            if f[0] == "@spread":
                raise Invalid("spread inside a filter")
        if atom[0] == "tpl":
            if filters:
                raise Skip("filters applied to a nested-template string")
            pieces = atom[1]
            if len(pieces) == 1 and pieces[0][0] == "var":
                return self.leaf_value(pieces[0][1], ctx)
            if len(pieces) == 1 and pieces[0][0] == "tag":
                return AnyStr(pieces[0][2])
            out = []
            for p in pieces:
                if p[0] == "text":
                    out.append(self._tpl_text(p[1]))
                elif p[0] == "var":
                    out.append(str(render_value_in_context(self.leaf_value(p[1], ctx), ctx)))
                elif p[0] == "tag":
                    out.append(p[2])
            return AnyStr("".join(out))
        text = pr_leaf(lf, CANON)
        fe = self._fe.get(text)
        if fe is None:
            fe = self._fe[text] = FilterExpression(text, self.parser)
        return fe.resolve(ctx)

    def value(self, v, ctx):
        k = v[0]
        if k == "leaf":
            return self.leaf_value(v, ctx)
        if k == "list":
            out = []
            for e in v[1]:
                if e[0] == "v":
                    out.append(self.value(e[1], ctx))
                elif e[0] == "sp":
                    self._spread_operand(e[1], False)
                    x = self.value(e[1], ctx)
                    if e[1][0] == "dict":
                        raise Skip("literal dict spread into a list")
                    if not isinstance(x, Iterable):
                        raise Skip("non-iterable spread into a list")
                    out.extend(x)
                elif e[0] == "badsp":
                    raise Invalid("wrong spread token in list")
                else:
                    raise ValueError(e)
            return out
        if k == "dict":
            out = {}
            for e in v[1]:
                if e[0] == "kv":
                    for f in e[1][2]:
                        if f[0] != "@spread" and f[1] is not None:
                            raise Skip("dict key with a filter argument")
                    key = self.value(e[1], ctx)
                    val = self.value(e[2], ctx)
                    try:
                        hash(key)
                    except TypeError:
                        raise Skip("unhashable dict key")
                    out[key] = val
                elif e[0] == "sp":
                    self._spread_operand(e[1], True)
                    x = self.value(e[1], ctx)
                    if not isinstance(x, Mapping):
                        raise Skip("non-mapping spread into a dict")
                    out.update(x)
                elif e[0] in ("badsp", "spkey", "spval"):
                    raise Invalid(e[0])
                else:
                    raise ValueError(e)
            return out
        raise ValueError(v)

    @staticmethod
    def _spread_operand(v, in_dict):
        if v[0] != "leaf":
            return
        if v[1][0] == "trans":
            raise Skip("spread of a translation string (rejected by design: 'Cannot combine translation and spread')")
        if in_dict and any(f[0] != "@spread" and f[1] is not None for f in v[2]):
            raise Skip("dict spread operand with a filter argument (`:` reads as the key colon, pinned by the test suite)")

    def find_invalid(self, node):
        """True when the abstract tree contains a documented-invalid production (syntactic)."""
        if isinstance(node, tuple):
            if node and node[0] in ("badsp", "spkey", "spval", "@spread", "kwspread", "badtop"):
                return True
            return any(self.find_invalid(c) for c in node)
        return False

    def has_escaped_tpl(self, node):
        """True when a nested-template string of the abstract tree holds a backslash-escaped quote."""
        if isinstance(node, tuple):
            if len(node) == 2 and node[0] == "text" and isinstance(node[1], str):
                return '\\"' in node[1] or "\\'" in node[1]
            return any(self.has_escaped_tpl(c) for c in node)
        return False

    def arglist(self, args, ctx):
        """-> (args tuple, kwargs dict, flags frozenset, alternatives) or raises Invalid / Skip.

        `alternatives`: when a keyword is given twice the statement admits two readings (Python
        call: TypeError; docs of the spread operator: the right-most wins) - then "raises" is
        also an accepted outcome and the returned kwargs are the right-most-wins reading.
        """
        if self.find_invalid(args):
            # make sure the rest is well-defined (so that the only reason to fail is the invalid form)
            raise Invalid("documented-invalid production")
        params = []  # (key|None, value)
        flags = set()
        for a in args:
            if a[0] == "pos":
                params.append((None, self.value(a[1], ctx)))
            elif a[0] == "kw":
                params.append((a[1], self.value(a[2], ctx)))
            elif a[0] == "spread":
                self._spread_operand(a[1], False)
                x = self.value(a[1], ctx)
                if isinstance(x, Mapping):
                    for kk, vv in x.items():
                        if not isinstance(kk, str):
                            raise Skip("spread mapping with a non-string key")
                        params.append((str(kk), vv))
                elif isinstance(x, Iterable):
                    for vv in x:
                        params.append((None, vv))
                else:
                    raise Skip("spread of a non-iterable")
            elif a[0] == "flag":
                if a[1] in flags:
                    raise Skip("flag given twice")
                flags.add(a[1])
            else:
                raise ValueError(a)
        seen_kw = False
        for key, _ in params:
            if key is None and seen_kw:
                raise Skip("positional after keyword (C11)")
            if key is not None:
                seen_kw = True
        # aggregation
        plain, agg = {}, {}
        dup = False
        plain_keys, agg_full = set(), set()
        for key, val in params:
            if key is None:
                continue
            if ":" in key and not key.startswith(":"):
                if key in plain_keys:
                    raise Invalid("aggregate/plain clash")
                agg_full.add(key)
                outer, inner = key.split(":", 1)
                d = agg.setdefault(outer, {})
                if inner in d:
                    dup = True
                d[inner] = val
            else:
                if key.startswith(":"):
                    raise Skip("key starting with ':'")
                if key in plain:
                    dup = True
                plain[key] = val
                plain_keys.add(key)
        for outer in agg:
            if outer in plain:
                raise Invalid("aggregate/plain clash")
        kwargs = dict(plain)
        kwargs.update(agg)
        pos = tuple(v for k, v in params if k is None)
        return pos, kwargs, frozenset(flags), ("raises",) if dup else ()


# --------------------------------------------------------------------------- canonical observation
def canon(v):
    """Type-exact, hashable, order-insensitive (dicts) image of a received value."""
    from django.utils.functional import Promise

    if isinstance(v, AnyStr):
        return ("s", "str?", str(v))
    if isinstance(v, Promise):
        return ("s", "lazy", str(v))
    if isinstance(v, str):
        return ("s", type(v).__name__, str(v))
    if v is None or isinstance(v, (bool, int, float)):
        return ("c", type(v).__name__, repr(v))
    if isinstance(v, (list, tuple)):
        return ("l", type(v).__name__, tuple(canon(x) for x in v))
    if isinstance(v, Mapping):
        items = [(canon(k), canon(x)) for k, x in v.items()]
        items.sort(key=lambda kv: (_sortkey(kv[0]), _sortkey(kv[1])))
        return ("d", type(v).__name__, tuple(items))
    return ("o", type(v).__name__, repr(v))


def _sortkey(c):
    """Ordering that ignores the str-subclass (so that AnyStr sorts like SafeString)."""
    if c[0] == "s":
        return ("s", c[2])
    if c[0] in ("l",):
        return ("l", c[1], tuple(_sortkey(x) for x in c[2]))
    if c[0] == "d":
        return ("d", c[1], tuple((_sortkey(k), _sortkey(x)) for k, x in c[2]))
    return (c[0], c[1], c[2])


def matches(ref, obs):
    """ref / obs: canon() images; 'str?' in ref matches str and SafeString."""
    if ref[0] != obs[0]:
        return False
    if ref[0] == "s":
        if ref[1] == "str?":
            return obs[1] in ("str", "SafeString") and ref[2] == obs[2]
        return ref[1:] == obs[1:]
    if ref[0] == "l":
        return ref[1] == obs[1] and len(ref[2]) == len(obs[2]) and all(matches(a, b) for a, b in zip(ref[2], obs[2]))
    if ref[0] == "d":
        return (
            ref[1] == obs[1]
            and len(ref[2]) == len(obs[2])
            and all(matches(ka, kb) and matches(va, vb) for (ka, va), (kb, vb) in zip(ref[2], obs[2]))
        )
    return ref == obs


# --------------------------------------------------------------------------- alphabets
class Iter:
    """A re-iterable that is nothing but an Iterable (no __len__ / __getitem__ / keys, not a generator)."""

    def __init__(self, *items):
        self._items = items

    def __iter__(self):
        return iter(self._items)

    def __repr__(self):
        return "Iter%r" % (self._items,)


def contexts(marker=""):
    """Context value assignments every case is evaluated against.

    `cm` .. `kv` are the *type alphabet* of spread operands: mappings that are not a plain dict
    (ChainMap, mappingproxy, UserDict, an OrderedDict as the dict-subclass control) and iterables that are
    not a list (tuple, a bare Iterable, a dict-keys view).  Mapping keys are strings (one of them an
    aggregate key); `cm` / `ud` are non-empty in both contexts so that `|default:""` keeps the mapping.
    """
    from collections import ChainMap, OrderedDict, UserDict
    from types import MappingProxyType

    m = marker
    return [
        {
            "x": [1, "b" + m],
            "y": ("p",),
            "d": {"k": "v" + m, "a b": 2},
            "e": {},
            "s": "str" + m,
            "n": 3,
            "o": {"k": [4, 5], "m": {"q": 1}},
            "cm": ChainMap({"k": "v" + m}, {"j": 2, "k": "shadowed"}),
            "mp": MappingProxyType({"k": [4, 5], "at:x": 1}),
            "ud": UserDict({"k": "v" + m, "data-x": None}),
            "od": OrderedDict([("z", 1), ("k", 2)]),
            "tu": (1, "b" + m),
            "it": Iter(1, "b" + m),
            "kv": {"k": 1, "a b": 2}.keys(),
        },
        {
            "x": [],
            "y": ["q", 2.5, None],
            "d": {"j": [0]},
            "e": {"k": True},
            "s": "",
            "n": 0,
            "o": {"k": "zw", "m": {}},
            "missing": 7,
            "cm": ChainMap({}, {"at:x": "q" + m}),
            "mp": MappingProxyType({}),
            "ud": UserDict({"j": [0]}),
            "od": OrderedDict(),
            "tu": (),
            "it": Iter({"k": 1}),
            "kv": {"j": 0}.keys(),
        },
    ]


LIST_VARS = ("x", "y", "o.k", "tu", "it", "kv")  # iterable (non-mapping) in every context
DICT_VARS = ("d", "e", "o.m", "cm", "mp", "ud", "od")  # mapping in every context
TYPE_VARS = ("cm", "mp", "ud", "od", "tu", "it", "kv")  # the type alphabet of spread operands


def atoms_full(marker=""):
    m = marker
    return [
        I(1),
        I(-2),
        ("float", "1.5"),
        ("const", "None"),
        ("const", "True"),
        S("a  b" + m),
        S("],}:=|*/ ...[{(" + m),
        S("it's" + m),
        S(""),
        ("raw", '"a\\"b  c' + m + '"'),
        ("raw", "'it\\'s, " + m + "'"),
        # an escaped backslash right before the closing quote (does not escape it), alone and next to an escaped quote
        ("raw", '"x' + m + '\\\\"'),
        ("raw", "'" + m + "\\\\\\' z\\\\'"),
        V("x"),
        V("d"),
        V("s"),
        V("n"),
        V("o.k"),
        V("x.0"),
        V("missing"),
        T("t" + m),
        T("t, u" + m),
        ("tpl", (("var", leaf(V("s"))),)),
        ("tpl", (("var", leaf(V("x"))),)),
        ("tpl", (("text", "p "), ("var", leaf(V("x.0"))), ("text", " q],"))),
        ("tpl", (("var", leaf(V("d"), ("default", S("z w")))),)),
        # a string that is exactly one `{{ }}` whose lookup fails: stock semantics (string_if_invalid, then the filters)
        ("tpl", (("var", leaf(V("missing"))),)),
        ("tpl", (("var", leaf(V("missing"), ("upper", None))),)),
        ("tpl", (("var", leaf(V("missing"), ("default_if_none", S("anon")))),)),
        ("tpl", (("var", leaf(V("o.nokey"), ("add", S("!")))),)),
        ("tpl", (("tag", "{% lorem 1 w %}", "lorem"),)),
        ("tpl", (("tag", "{% lorem 2 w %}", "lorem ipsum"), ("text", "!"))),
        # a nested tag whose compile function needs the enclosing template's origin (loader tags)
        ("tpl", (("tag", "{% include 'c02inc.html' %}", "INC"),)),
        ("tpl", (("text", "<"), ("tag", "{% include 'c02inc.html' %}", "INC"), ("text", ">"))),
        ("tpl", (("text", "a" + m + " "), ("comment", "c"))),
        # a line break inside the quoted string: it is content, the nested expressions are still evaluated
        ("tpl", (("text", "p\n"), ("var", leaf(V("s"))), ("text", "\n q"))),
    ] + tpl_quote_atoms(m) + [V(n) for n in TYPE_VARS]


def tpl_quote_atoms(marker=""):
    """Nested-template strings whose content starts and / or ends with a quote character.

    For each outer quote kind q: the content is  <start> body <end>  with start / end drawn from
    {nothing, the other quote kind bare, q backslash-escaped} (not both nothing) and body a single
    `{{ x }}` (a list: the single-node pass-through would hand over the raw object) or a single
    `{% lorem 1 w %}`; plus the other quote kind in the middle only (` a '{{ x }}' b`) as control.
    2 x (8 x 2 + 1) = 34 atoms.  The printer keeps the outer quote kind the content requires in
    every layout (swapping it would change the denoted value).
    """
    bodies = [("var", leaf(V("x"))), ("tag", "{% lorem 1 w %}", "lorem")]
    out = []
    for outer in ('"', "'"):
        edges = (None, _other(outer), "\\" + outer)
        for body in bodies:
            for st in edges:
                for en in edges:
                    if st is None and en is None:
                        continue
                    pieces = ([("text", st)] if st else []) + [body] + ([("text", en)] if en else [])
                    out.append(("tpl", tuple(pieces)))
        o = _other(outer)
        out.append(("tpl", (("text", "a" + marker + " " + o), bodies[0], ("text", o + " b"))))
    return out


TYPE_CHAINS = ((), (("default", S("")),))  # filter chains applied to the type-alphabet variables


def filter_chains(marker=""):
    m = marker
    return [
        (),
        (("upper", None),),
        (("length", None),),
        (("add", I(1)),),
        (("add", V("n")),),
        (("default", S("d, e" + m)),),
        (("default", T("t" + m)),),
        (("join", S(", ")),),
        (("upper", None), ("add", S("x"))),
        (("default", V("x")), ("length", None)),
        (("default", S("a:b")), ("upper", None)),
    ]


def leaves_full(marker=""):
    out = []
    for a in atoms_full(marker):
        # the type alphabet is about spreading / passing through, not about filters: own (short) chain list
        for ch in TYPE_CHAINS if (a[0] == "var" and a[1] in TYPE_VARS) else filter_chains(marker):
            if a[0] == "tpl" and ch:
                continue  # excluded corner: filters on nested-template strings
            out.append(leaf(a, *ch))
    return out


KW_KEYS = ("a", "data-x", "@click.native", "#id", "my_key")
AGG_KEYS = ("attrs:class", "attrs:@click.stop", "attrs:my_key:two", "at-2:data-x")


def frames():
    """Contexts a leaf is placed in: name -> (builder(leaf) -> args, requirement).

    requirement: None | 'key' (usable as dict key) | 'list' (iterable operand) | 'dict' (mapping operand)
    """
    one = leaf(I(1))
    z = leaf(S("z"))
    k = leaf(S("k"))
    j = leaf(S("j"))

    def L(*es):
        return ("list", tuple(es))

    def D(*es):
        return ("dict", tuple(es))

    def v(x):
        return ("v", x)

    def kw(x, key="a"):
        return (("kw", key, x),)

    fr = {
        "pos": (lambda h: (("pos", h),), None),
        "kw": (lambda h: kw(h), None),
        "kw-special": (lambda h: kw(h, "@click.native"), None),
        "kw-agg": (lambda h: kw(h, "attrs:data-x"), None),
        "pos+kw": (lambda h: (("pos", h), ("kw", "b", one)), None),
        "kw+flag": (lambda h: (("kw", "a", h), ("flag", "only")), None),
        "pos-list": (lambda h: (("pos", L(v(h))),), None),
        "list1": (lambda h: kw(L(v(h))), None),
        "list-first": (lambda h: kw(L(v(h), v(one))), None),
        "list-last": (lambda h: kw(L(v(one), v(h))), None),
        "list-mid": (lambda h: kw(L(v(one), v(h), v(z))), None),
        "dict-val": (lambda h: kw(D(("kv", k, h))), None),
        "dict-val-first": (lambda h: kw(D(("kv", k, h), ("kv", j, one))), None),
        "dict-val-last": (lambda h: kw(D(("kv", j, one), ("kv", k, h))), None),
        "dict-key": (lambda h: kw(D(("kv", h, one))), "key"),
        "dict-key-last": (lambda h: kw(D(("kv", one, z), ("kv", h, one))), "key"),
        "list-list": (lambda h: kw(L(v(L(v(h))))), None),
        "list-dict": (lambda h: kw(L(v(D(("kv", k, h))))), None),
        "dict-list": (lambda h: kw(D(("kv", k, L(v(h))))), None),
        "dict-dict": (lambda h: kw(D(("kv", k, D(("kv", j, h))))), None),
        "dict-dictkey": (lambda h: kw(D(("kv", k, D(("kv", h, one))))), "key"),
        "list-splist": (lambda h: kw(L(("sp", L(v(h))))), None),
        "dict-spdict": (lambda h: kw(D(("sp", D(("kv", k, h))))), None),
        "spread-litlist": (lambda h: (("spread", L(v(h))),), None),
        "spread-litdict": (lambda h: (("spread", D(("kv", k, h))),), None),
        "list-sp": (lambda h: kw(L(("sp", h))), "list"),
        "list-sp-last": (lambda h: kw(L(v(one), ("sp", h))), "list"),
        "list-sp-first": (lambda h: kw(L(("sp", h), v(one))), "list"),
        "dict-sp": (lambda h: kw(D(("sp", h))), "dict"),
        "dict-sp-last": (lambda h: kw(D(("kv", k, one), ("sp", h))), "dict"),
        "dict-sp-first": (lambda h: kw(D(("sp", h), ("kv", k, one))), "dict"),
        "spread": (lambda h: (("spread", h),), "spreadable"),
        "spread+kw": (lambda h: (("spread", h), ("kw", "zz", one)), "spreadable"),
    }
    return fr


# --------------------------------------------------------------------------- structure enumerator
class StructAlphabet(NamedTuple):
    leaves: tuple  # leaf values usable as entries / dict values
    keys: tuple  # leaves usable as dict keys
    list_spreads: tuple  # leaves that are iterable in every context
    dict_spreads: tuple  # leaves that are mappings in every context


def struct_alphabet(tier, marker=""):
    m = marker
    lv = [
        leaf(I(1)),
        leaf(S("a b" + m)),
        leaf(T("t" + m)),
        leaf(V("n"), ("add", I(1))),
    ]
    keys = [leaf(S("k")), leaf(V("s"), ("upper", None))]
    lsp = [leaf(V("x"))]
    dsp = [leaf(V("d"))]
    if tier == "thorough":
        lv += [leaf(V("x")), leaf(("tpl", (("var", leaf(V("s"))),)))]
        keys += [leaf(T("t" + m))]
        lsp += [leaf(V("y"), ("default", S("")))]
        dsp += [leaf(V("o.m"))]
    return StructAlphabet(tuple(lv), tuple(keys), tuple(lsp), tuple(dsp))


class StructEnum:
    """All values with exactly n nodes and nesting depth <= d.

    Size: a leaf = 1 (filters and dict keys are free), a container = 1 + its entries,
    a spread of a variable = 1, a spread of a literal container = that container.
    """

    def __init__(self, alpha: StructAlphabet, max_depth: int):
        self.a = alpha
        self.d = max_depth
        self._v = {}
        self._seq = {}

    def values(self, n, d=None):
        d = self.d if d is None else d
        key = (n, d)
        if key in self._v:
            return self._v[key]
        out = []
        if n == 1:
            out.extend(self.a.leaves)
        if d > 0 and n >= 1:
            out.extend(self.lists(n, d))
            out.extend(self.dicts(n, d))
        self._v[key] = out
        return out

    def lists(self, n, d):
        return [("list", es) for es in self._entries("l", n - 1, d - 1)]

    def dicts(self, n, d):
        return [("dict", es) for es in self._entries("d", n - 1, d - 1)]

    def _entry(self, kind, n, d):
        """single entries of size n whose values have depth <= d"""
        out = []
        if kind == "l":
            for v in self.values(n, d):
                out.append(("v", v))
            if n == 1:
                for s in self.a.list_spreads:
                    out.append(("sp", s))
            if d > 0:
                for v in self.lists(n, d):
                    out.append(("sp", v))
        else:
            for v in self.values(n, d):
                for k in self.a.keys:
                    out.append(("kv", k, v))
            if n == 1:
                for s in self.a.dict_spreads:
                    out.append(("sp", s))
            if d > 0:
                for v in self.dicts(n, d):
                    out.append(("sp", v))
        return out

    def _entries(self, kind, n, d):
        """all entry sequences of total size n"""
        key = (kind, n, d)
        if key in self._seq:
            return self._seq[key]
        out = []
        if n == 0:
            out.append(())
        else:
            for first in range(1, n + 1):
                heads = self._entry(kind, first, d)
                if not heads:
                    continue
                tails = self._entries(kind, n - first, d)
                for h in heads:
                    for t in tails:
                        out.append((h,) + t)
        self._seq[key] = out
        return out

    def upto(self, n):
        for k in range(1, n + 1):
            yield from self.values(k)

    def count_upto(self, n):
        return sum(len(self.values(k)) for k in range(1, n + 1))


# --------------------------------------------------------------------------- invalid forms
def invalid_sites(marker=""):
    """Documented-invalid productions, each embedded at several container positions / depths."""
    one = leaf(I(1))
    k = leaf(S("k"))
    j = leaf(S("j"))
    x = leaf(V("x"))
    d = leaf(V("d"))
    litl = ("list", (("v", one),))
    litd = ("dict", (("kv", k, one),))

    def L(*es):
        return ("list", tuple(es))

    def D(*es):
        return ("dict", tuple(es))

    def v(z):
        return ("v", z)

    bad_list_entries = [
        ("badsp", "...", x),
        ("badsp", "**", d),
        ("badsp", "...", litl),
        ("badsp", "**", litd),
        ("v", leaf(V("x"), ("@spread", "...", "upper"))),
        ("v", leaf(V("x"), ("@spread", "*", "upper"))),
    ]
    bad_dict_entries = [
        ("badsp", "...", d),
        ("badsp", "*", x),
        ("badsp", "...", litd),
        ("badsp", "*", litl),
        ("spkey", d, one),
        ("spkey", litd, one),
        ("spval", k, "**", d),
        ("spval", k, "*", x),
        ("spval", k, "...", d),
        ("spval", k, "**", litd),
        ("kv", k, leaf(V("x"), ("@spread", "...", "upper"))),
        ("kv", k, leaf(V("x"), ("@spread", "**", "upper"))),
        ("kv", leaf(V("s"), ("@spread", "**", "upper")), one),
    ]
    list_ctx = [
        lambda e: L(e),
        lambda e: L(v(one), e),
        lambda e: L(e, v(one)),
        lambda e: L(v(L(e))),
        lambda e: D(("kv", k, L(e))),
        lambda e: L(("sp", L(e))),
        lambda e: D(("kv", k, one), ("kv", j, L(v(one), e))),
    ]
    dict_ctx = [
        lambda e: D(e),
        lambda e: D(("kv", j, one), e),
        lambda e: D(e, ("kv", j, one)),
        lambda e: L(v(D(e))),
        lambda e: D(("kv", k, D(e))),
        lambda e: D(("sp", D(e))),
        lambda e: L(v(one), v(D(("kv", j, one), e))),
    ]
    top_ctx = [
        lambda val: (("kw", "a", val),),
        lambda val: (("pos", val),),
        lambda val: (("pos", one), ("kw", "a", val), ("kw", "b", one)),
        lambda val: (("spread", val),),
    ]
    out = []
    for e in bad_list_entries:
        for c in list_ctx:
            for t in top_ctx:
                val = c(e)
                if t is top_ctx[3] and val[0] != "list":
                    continue
                out.append(t(val))
    for e in bad_dict_entries:
        for c in dict_ctx:
            for t in top_ctx:
                val = c(e)
                if t is top_ctx[3] and val[0] != "dict":
                    continue
                out.append(t(val))
    # top-level forms
    for val in (x, d, litl, litd):
        out.append((("kwspread", "a", "...", val),))
        out.append((("pos", one), ("kwspread", "a", "...", val), ("kw", "b", one)))
    for tok, val in (("*", x), ("**", d), ("*", litl), ("**", litd)):
        out.append((("badtop", tok, val),))
        out.append((("kwspread", "a", tok, val),))
        out.append((("kw", "b", one), ("badtop", tok, val)))
    out.append((("pos", leaf(V("x"), ("@spread", "...", "upper"))),))
    out.append((("kw", "a", leaf(V("x"), ("@spread", "...", "upper"))),))
    out.append((("kw", "a", leaf(V("x"), ("upper", None), ("@spread", "...", "lower"))),))
    # aggregate + plain clash (both orders, different inner keys, via spread)
    out.append((("kw", "attrs", one), ("kw", "attrs:class", one)))
    out.append((("kw", "attrs:class", one), ("kw", "attrs", one)))
    out.append((("kw", "attrs:class", one), ("kw", "b", one), ("kw", "attrs", litd)))
    out.append((("kw", "attrs", litd), ("kw", "attrs:@click.stop", leaf(S("f()")))))
    out.append((("spread", ("dict", (("kv", leaf(S("attrs")), one),))), ("kw", "attrs:class", one)))
    out.append((("kw", "attrs:class", one), ("spread", ("dict", (("kv", leaf(S("attrs")), one),)))))
    return out
