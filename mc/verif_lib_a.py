"""{% load verif_a %}: defines the filter `money` one way (C02 part E)."""
from django import template

register = template.Library()


@register.filter
def money(value):
    return "A$%s" % value


@register.filter
def wrap(value, arg="-"):
    return "%s%s%s" % (arg, value, arg)
