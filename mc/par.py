"""Deterministic sharded parallelism: worker w of W takes indices i = w (mod W).

Counts are summed, so evidence is identical for any W (DESIGN 1.1).
"""
from __future__ import annotations

import multiprocessing as mp
import os
import traceback
from collections import Counter

NWORKERS = int(os.environ.get("VERIF_WORKERS", "0")) or min(16, os.cpu_count() or 1)
MAX_FAIL_PER_WORKER = 400


class Agg:
    """Per-worker (and merged) accumulator."""

    def __init__(self):
        self.states = 0
        self.transitions = 0
        self.validated = 0
        self.nontrivial = 0
        self.observed = set()  # short hashes of distinct observations
        self.expected = Counter()
        self.failures = []  # (identity, what, case)
        self.failures_dropped = 0
        self.samples = []
        self.extra = Counter()
        self.caps = []

    def fail(self, identity: str, what: str, case) -> None:
        if len(self.failures) < MAX_FAIL_PER_WORKER:
            self.failures.append((identity, what, case))
        else:
            self.failures_dropped += 1

    def observe(self, obj) -> None:
        self.observed.add(hash(obj) & 0xFFFFFFFFFFFF)

    def sample(self, s, limit: int = 3) -> None:
        if len(self.samples) < limit:
            self.samples.append(s)

    def merge(self, o: "Agg") -> None:
        self.states += o.states
        self.transitions += o.transitions
        self.validated += o.validated
        self.nontrivial += o.nontrivial
        self.observed |= o.observed
        self.expected.update(o.expected)
        self.failures.extend(o.failures)
        self.failures_dropped += o.failures_dropped
        for s in o.samples:
            if len(self.samples) < 6:
                self.samples.append(s)
        self.extra.update(o.extra)
        self.caps.extend(o.caps)


def _call(args):
    fn, w, W, payload = args
    try:
        return ("ok", fn(w, W, payload))
    except BaseException:  # noqa
        return ("err", traceback.format_exc())


class HarnessError(Exception):
    pass


def run_sharded(fn, payload=None, workers: int | None = None) -> Agg:
    """fn(w, W, payload) -> Agg, run in W forked workers (fork keeps Django configured)."""
    W = workers or NWORKERS
    if W <= 1:
        return fn(0, 1, payload)
    ctx = mp.get_context("fork")
    with ctx.Pool(W) as pool:
        results = pool.map(_call, [(fn, w, W, payload) for w in range(W)], chunksize=1)
    total = Agg()
    for status, r in results:
        if status == "err":
            raise HarnessError("worker crashed:\n" + r)
        total.merge(r)
    return total


def run_tasks(fn, tasks, workers: int | None = None):
    """Generic map over a task list (order preserved), forked workers."""
    W = min(workers or NWORKERS, max(1, len(tasks)))
    if W <= 1:
        return [fn(t) for t in tasks]
    ctx = mp.get_context("fork")
    with ctx.Pool(W) as pool:
        return pool.map(fn, tasks, chunksize=1)
