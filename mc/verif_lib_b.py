"""{% load verif_b %}: defines the filter `money` another way (C02 part E)."""
from django import template

register = template.Library()


@register.filter
def money(value):
    return "%s EUR(B)" % value


@register.filter
def wrap(value, arg="-"):
    return "(%s|%s)" % (value, arg)
