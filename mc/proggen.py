"""Bounded-exhaustive enumerator of component programs (DESIGN 2.1).

`Gen(profile)` enumerates every program whose total node count (page + templates of all
reachable components) is <= N, with only sound symmetry reductions:
  * adjacent text nodes are never generated (they equal one text node),
  * the first component referenced by the page is `a`,
  * the first literal slot/fill name used (page, then a, then b, pre-order) is `x`
    (x and y are interchangeable everywhere, also as loop items "xy" <-> "yx" is NOT
    generated, so this reduction is applied only when no loop over the names exists).
"""
from __future__ import annotations

from functools import lru_cache

from .prog import CompSpec, Program, comps_used, label


class Profile:
    def __init__(self, **kw):
        self.slot_names = ("x", "y")
        self.fill_names = ("x", "y", "default")
        self.slot_flags = ("", "d", "r")
        self.conds = ("t", "f")
        self.use_if = True
        self.use_for = True
        self.use_alias = True
        self.use_ws_body = True
        self.use_dyn_names = True
        self.comps = ("a", "b")
        self.nested_for = False
        self.fill_text_mix = True
        self.elems = ()  # element tags (C14)
        self.provide_keys = ()  # C05
        self.fixed_comps = ()  # components with a fixed template (not generated, cost 0)
        self.empty_provide = False
        self.__dict__.update(kw)


class Gen:
    def __init__(self, profile: Profile):
        self.pf = profile
        self._content = lru_cache(maxsize=None)(self._content_impl)
        self._node = lru_cache(maxsize=None)(self._node_impl)
        self._fillitems = lru_cache(maxsize=None)(self._fillitems_impl)

    # ctx = (in_tpl, loopvar, comps_allowed(tuple))
    def _content_impl(self, n, ctx, first_may_be_text=True):
        """all nodelists of total size exactly n (no two adjacent text nodes)."""
        if n == 0:
            return ((),)
        out = []
        for k in range(1, n + 1):
            for head in self._node(k, ctx):
                if head[0] == "T" and not first_may_be_text:
                    continue
                for tail in self._content(n - k, ctx, head[0] != "T"):
                    out.append((head,) + tail)
        return tuple(out)

    def _node_impl(self, n, ctx):
        pf = self.pf
        in_tpl, loopvar, allowed = ctx
        out = []
        if n == 1:
            out.append(("T", None))
        if pf.use_if and n >= 2:
            for c in pf.conds:
                for body in self._content(n - 1, ctx):
                    out.append(("If", c, body))
        if pf.use_for and n >= 2 and (pf.nested_for or not loopvar):
            for body in self._content(n - 1, (in_tpl, True, allowed)):
                out.append(("For", "n", "xy", body))
        for tag in pf.elems:
            for body in self._content(n - 1, ctx):
                out.append(("El", tag, None, body))
        if in_tpl:
            names = list(pf.slot_names) + (["$n"] if (loopvar and pf.use_dyn_names) else [])
            for nm in names:
                for fl in pf.slot_flags:
                    for body in self._content(n - 1, ctx):
                        out.append(("Slot", nm, fl, (), body))
        for c in allowed:
            if n == 1:
                out.append(("Comp", c, (), False, None))
            elif c not in pf.fixed_comps:
                for body in self._bodies(n - 1, ctx):
                    out.append(("Comp", c, (), False, body))
        if n >= 2 or pf.empty_provide:
            for key in pf.provide_keys:
                for body in self._content(n - 1, ctx):
                    out.append(("Prov", key, None, body))
        return tuple(out)

    def _bodies(self, m, ctx):
        """component bodies of size exactly m >= 1: implicit content or fill lists."""
        out = list(self._content(m, ctx))
        if m == 1 and self.pf.use_ws_body:
            out.append((("T", True),))
        for items in self._fillitems(m, ctx, True):
            if _has_fill(items):
                out.append(items)
        return out

    def _fillitems_impl(self, n, ctx, first_may_be_text=True):
        """lists over Fill | If(fill-list) | For(fill-list) | T, total size exactly n."""
        if n == 0:
            return ((),)
        pf = self.pf
        in_tpl, loopvar, allowed = ctx
        out = []
        for k in range(1, n + 1):
            heads = []
            if k == 1 and pf.fill_text_mix and first_may_be_text:
                heads.append(("T", None))
            # Fill
            names = list(pf.fill_names) + (["$n"] if (loopvar and pf.use_dyn_names) else [])
            for nm in names:
                for body in self._content(k - 1, ctx):
                    heads.append(("Fill", nm, None, None, body))
                if pf.use_alias and k >= 2:
                    for body in self._content(k - 2, ctx, True):
                        heads.append(("Fill", nm, None, "d", (("D", "d"),) + body))
            if pf.use_if and k >= 2:
                for c in pf.conds:
                    for body in self._fillitems(k - 1, ctx, True):
                        if _has_fill(body):
                            heads.append(("If", c, body))
            if pf.use_for and k >= 2 and not loopvar:
                for body in self._fillitems(k - 1, (in_tpl, True, allowed), True):
                    if _has_fill(body):
                        heads.append(("For", "n", "xy", body))
            for head in heads:
                for tail in self._fillitems(n - k, ctx, head[0] != "T"):
                    out.append((head,) + tail)
        return tuple(out)

    # ------------------------------------------------------------------ programs
    def programs(self, N, make_spec, page_ctx):
        """Yields Program objects with total size <= N (deterministic order, smallest page first)."""
        pf = self.pf
        for p in range(1, N + 1):
            for page in self._content(p, (False, False, pf.comps + pf.fixed_comps)):
                used = comps_used(page)
                if not used:
                    continue
                gen_used = [c for c in used if c not in pf.fixed_comps]
                if not gen_used:
                    prog = self._mk(page, {}, make_spec, page_ctx)
                    if prog is not None:
                        yield prog
                    continue
                if gen_used[0] != "a":
                    continue
                rem = N - p
                for sa in range(0, rem + 1):
                    a_allowed = tuple(c for c in pf.comps if c != "a") + pf.fixed_comps
                    for ta in self._content(sa, (True, False, a_allowed)):
                        a_uses_b = "b" in comps_used(ta)
                        need_b = ("b" in used) or a_uses_b
                        if not need_b:
                            prog = self._mk(page, {"a": ta}, make_spec, page_ctx)
                            if prog is not None:
                                yield prog
                            continue
                        b_allowed = (() if a_uses_b else ("a",)) + pf.fixed_comps
                        for sb in range(0, rem - sa + 1):
                            for tb in self._content(sb, (True, False, b_allowed)):
                                prog = self._mk(page, {"a": ta, "b": tb}, make_spec, page_ctx)
                                if prog is not None:
                                    yield prog

    def _mk(self, page, templates, make_spec, page_ctx):
        if not _names_canonical((page,) + tuple(templates[k] for k in sorted(templates))):
            return None
        comps = {}
        for name, t in templates.items():
            comps[name] = make_spec(name, label(t, name.upper()))
        for name in self.pf.fixed_comps:
            comps[name] = make_spec(name, None)
        return Program(label(page, "P"), comps, dict(page_ctx))


def _has_fill(items):
    for n in items:
        if n[0] == "Fill":
            return True
        if n[0] == "If" and _has_fill(n[2]):
            return True
        if n[0] == "For" and _has_fill(n[3]):
            return True
    return False


def _first_name(nodes):
    """first literal x/y name in pre-order (None if there is none)."""
    for n in nodes:
        k = n[0]
        r = None
        if k in ("Slot", "Fill"):
            if n[1] in ("x", "y"):
                return n[1]
            r = _first_name(n[4])
        elif k == "If":
            r = _first_name(n[2])
        elif k in ("For", "With", "Prov", "El"):
            r = _first_name(n[3])
        elif k == "Comp" and n[4]:
            r = _first_name(n[4])
        if r:
            return r
    return None


def _has_for(nodes):
    for n in nodes:
        k = n[0]
        if k == "For":
            return True
        if k in ("Slot", "Fill") and _has_for(n[4]):
            return True
        if k == "If" and _has_for(n[2]):
            return True
        if k in ("With", "Prov", "El") and _has_for(n[3]):
            return True
        if k == "Comp" and n[4] and _has_for(n[4]):
            return True
    return False


def _names_canonical(nodelists):
    # a loop iterates the names in the fixed order "xy": renaming x<->y would change
    # the program, so the reduction is applied only to loop-free programs
    if any(_has_for(nl) for nl in nodelists):
        return True
    for nl in nodelists:
        r = _first_name(nl)
        if r:
            return r == "x"
    return True
