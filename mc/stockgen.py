"""Deterministic enumerator of *stock Django* template families (C10a).

Imported by both the patched process (django_components installed) and the truly unpatched
twin process; it must not import django_components.

A family is {name: source}; "main" is rendered.  Families:
  single   main
  extends  main = {% extends "base" %} + blocks,  base = content with block(s)
  include  main uses {% include "inc" ... %},     inc  = content
Total node budget N over all templates of the family.
"""
from __future__ import annotations

from functools import lru_cache

LEAVES = [
    "t",
    "{{ v }}",
    "{{ h }}",
    '{% echo_tag v "a b" %}',
    "{% incl_tag v %}",
    '{% firstof u v "z" %}',
    '{% firstof u "5\\" n" %}',  # balanced quotes with a backslash-escaped quote inside the string literal
    '{% firstof u "C:\\\\" %}',  # string literal ending in an escaped backslash
    "\n",  # line structure: every token's lineno and the "on line N" of error messages are compared
    '\n{% echo_tag v "a b" %}',  # a quoted tag that does not sit on line 1
]
LEAVES_ERR = ["{% bogus %}", "{{ v|nofilter }}", "{% endif %}"]
INCLUDES = ['{% include "inc" %}', '{% include "inc" with a=v only %}']
CONTAINERS = [
    ("{% if v %}", "{% endif %}"),
    ("{% if u %}", "{% else %}e{% endif %}"),
    ('{% for i in lst %}{{ i }}{{ forloop.counter }}{% cycle "a" "b" %}', "{% empty %}E{% endfor %}"),
    ("{% with a=v %}{{ a }}", "{% endwith %}"),
    ("{% filter upper %}", "{% endfilter %}"),
    ("{% autoescape off %}", "{% endautoescape %}"),
]
UNCLOSED = ["{% if v %}", "{% for i in lst %}"]


class StockGen:
    def __init__(self, with_errors=True):
        self.with_errors = with_errors
        self._content = lru_cache(maxsize=None)(self._content_impl)

    def _content_impl(self, n, flags, first_may_be_text=True):
        """all content strings of size exactly n.  flags = (allow_include, allow_block, in_block_child)"""
        if n == 0:
            return ("",)
        allow_include, allow_block, in_child_block = flags
        out = []
        for k in range(1, n + 1):
            heads = []
            if k == 1:
                heads += [(l, l == "t") for l in LEAVES]
                if self.with_errors:
                    heads += [(l, False) for l in LEAVES_ERR]
                if allow_include:
                    heads += [(l, False) for l in INCLUDES]
                if in_child_block:
                    heads.append(("{{ block.super }}", False))
            if k >= 2 or True:
                for op, cl in CONTAINERS:
                    for body in self._content(k - 1, flags):
                        heads.append((op + body + cl, False))
                if allow_block:
                    for body in self._content(k - 1, (allow_include, False, in_child_block)):
                        heads.append(("{% block b %}" + body + "{% endblock %}", False))
            for head, is_text in heads:
                if is_text and not first_may_be_text:
                    continue
                for tail in self._content(n - k, flags, not is_text):
                    out.append(head + tail)
        return tuple(out)

    def families(self, N):
        """yields (kind, {name: source}) in a deterministic order, smallest first"""
        for n in range(1, N + 1):
            # single
            for c in self._content(n, (False, True, False)):
                yield "single", {"main": c}
            if self.with_errors and n >= 1:
                for u in UNCLOSED:
                    for c in self._content(n - 1, (False, False, False)):
                        yield "single", {"main": u + c}
            # include: main has at least one include; inc gets the rest of the budget
            for m in range(1, n):
                for c in self._content(m, (True, False, False)):
                    if '{% include "inc"' not in c:
                        continue
                    for inc in self._content(n - m, (False, False, False)):
                        yield "include", {"main": c, "inc": inc}
            # extends: child = extends + one block override (optionally a second, unknown block); base has blocks
            for m in range(1, n):
                for child_body in self._content(m - 1, (False, False, True)):
                    child = '{% extends "base" %}{% block b %}' + child_body + "{% endblock %}"
                    for base in self._content(n - m, (False, True, False)):
                        if "{% block b %}" not in base:
                            continue
                        yield "extends", {"main": child, "base": base}
                        yield "extends", {"main": "junk" + child + "{% block other %}o{% endblock %}", "base": base}


CONTEXTS = [
    {"v": "V", "u": "", "h": "<b>&", "lst": ["p", "q"]},
    {"v": "", "u": "U", "h": "x", "lst": []},
    {"h": None},
]


def observe_family(fam, engines, lexer_fn):
    """Runs one family under every engine x context.  -> JSON-able observation"""
    from django.template import Context

    obs = {"tokens": {}, "runs": []}
    for name, src in fam.items():
        try:
            obs["tokens"][name] = [(int(t.token_type.value), t.contents, t.lineno, list(t.position) if t.position else None) for t in lexer_fn(src)]
        except Exception as e:  # noqa
            obs["tokens"][name] = ["EXC", type(e).__name__, str(e)]
    for ei, (engine, templates) in enumerate(engines):
        templates.clear()
        templates.update(fam)
        templates["verif_incl.html"] = "<{{ iv }}>"
        for ci, cdict in enumerate(CONTEXTS):
            ctx = Context(dict(cdict))
            rec = {"engine_debug": engine.debug, "ctx": ci}
            try:
                t = engine.get_template("main")
                out = t.render(ctx)
                rec["out"] = out
            except Exception as e:  # noqa
                rec["exc"] = [type(e).__name__, str(e)]
                td = getattr(e, "template_debug", None)
                if td:
                    rec["debug"] = [td.get("line"), td.get("during"), td.get("name"), td.get("start"), td.get("end")]
            rec["ctx_after"] = [len(ctx.dicts), sorted((k, repr(v)) for k, v in ctx.flatten().items()), len(ctx.render_context.dicts),
                                str(getattr(ctx, "template_name", None)), ctx.template is None]
            obs["runs"].append(rec)
    return obs


def make_engines(extra_builtins=()):
    from django.template.engine import Engine

    engines = []
    for debug in (False, True):
        templates = {}
        e = Engine(debug=debug, loaders=[("django.template.loaders.locmem.Loader", templates)],
                   builtins=["mc.verif_tags"] + list(extra_builtins))
        engines.append((e, templates))
    return engines
