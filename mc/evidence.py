"""Evidence writer (DESIGN 1.1). Every count is measured by the run that writes it."""
from __future__ import annotations

import json
import os
import subprocess
import time
from collections import Counter

from .boot import VERIF_DIR

SCHEMA = "/root/.vp/EVIDENCE.schema.json"
LOCAL_SCHEMA = os.path.join(VERIF_DIR, "mc", "EVIDENCE.schema.json")


class Evidence:
    def __init__(self, pid: str, tier: str, seed: int, level: str = "model_checking"):
        self.pid = pid
        self.tier = tier
        self.seed = seed
        self.level = level
        self.t0 = time.time()
        self.states = 0  # distinct cases / states after symmetry reduction
        self.transitions = 0  # implementation executions
        self.validated = 0  # executions compared against the reference
        self.nontrivial = 0  # distinct cases that exercise the property (rule below)
        self.rule = ""
        self.samples: list = []
        self.bound: dict = {}
        self.caps_hit: list = []
        self.expected_classes: Counter = Counter()
        self.observed_distinct = 0
        self.assumptions: list = []
        self.extra: dict = {}
        self.parts: dict = {}  # per sub-check counts
        self.exhaustive = True

    # -- merging of per-part / per-worker counters --------------------------------
    def add_part(self, name: str, *, states: int, transitions: int, validated: int, nontrivial: int,
                 observed_distinct: int = 0, expected: dict | None = None, bound=None, samples=None,
                 extra: dict | None = None) -> None:
        self.states += states
        self.transitions += transitions
        self.validated += validated
        self.nontrivial += nontrivial
        self.observed_distinct += observed_distinct
        if expected:
            self.expected_classes.update(expected)
        self.parts[name] = {
            "states": states,
            "transitions": transitions,
            "validated": validated,
            "nontrivial": nontrivial,
            "observed_distinct": observed_distinct,
            "expected_classes": dict(expected or {}),
        }
        if bound is not None:
            self.bound[name] = bound
        if extra:
            self.parts[name].update(extra)
        for s in samples or []:
            if len(self.samples) < 12:
                self.samples.append(s)

    def vacuity_problem(self) -> str | None:
        """DESIGN 1.1: a run where nothing collided is a harness defect, not a verdict."""
        if self.states < 2 or self.transitions < 2:
            return "fewer than 2 cases explored"
        if self.nontrivial < 2:
            return "fewer than 2 non-trivial cases"
        if self.observed_distinct and self.observed_distinct < 2:
            return "all cases produced the same observation"
        return None

    def write(self, violations: int, known: int = 0) -> str:
        wall = time.time() - self.t0
        cov = {
            "states": int(self.states),
            "transitions": int(self.transitions),
            "traces_validated_against_impl": int(self.validated),
            "evaluations": int(self.transitions),
            "distinct_nontrivial": int(self.nontrivial),
            "rule": self.rule,
            "samples": self.samples[:12] or ["<none>"],
            "exhaustive": bool(self.exhaustive and not self.caps_hit),
            "bound": self.bound,
            "caps_hit": self.caps_hit,
            "outcome_classes": {
                "expected": dict(self.expected_classes),
                "observed_distinct": int(self.observed_distinct),
            },
            "parts": self.parts,
            "known_findings_matched": known,
        }
        cov.update(self.extra)
        doc = {
            "property_id": self.pid,
            "tier": self.tier,
            "seed": int(self.seed),
            "level": self.level,
            "coverage": cov,
            "assumptions": self.assumptions,
            "wall_s": round(wall, 3),
            "violations": int(violations),
        }
        path = os.path.join(VERIF_DIR, "evidence", f"{self.pid}.json")
        os.makedirs(os.path.dirname(path), exist_ok=True)
        tmp = path + ".tmp"
        with open(tmp, "w") as f:
            json.dump(doc, f, indent=1, sort_keys=False, default=str, ensure_ascii=False)
            f.write("\n")
        os.replace(tmp, path)
        return path


def validate(path: str) -> str | None:
    """Validate an evidence file with jsonschema (lives in the tooling venv). None = ok."""
    schema = SCHEMA if os.path.exists(SCHEMA) else LOCAL_SCHEMA
    code = (
        "import json,sys,jsonschema;"
        "s=json.load(open(sys.argv[1]));d=json.load(open(sys.argv[2]));"
        "jsonschema.Draft202012Validator(s).validate(d)"
    )
    for py in ("python3-vt", "/opt/veriftools/pyvenv/bin/python"):
        try:
            r = subprocess.run([py, "-c", code, schema, path], capture_output=True, text=True, timeout=60)
        except FileNotFoundError:
            continue
        if r.returncode == 0:
            return None
        return (r.stderr or r.stdout)[-2000:]
    return None  # validator unavailable: do not turn that into a verdict
