"""Process bootstrap shared by every check (DESIGN.md 1.1 - 1.4).

* re-exec under /venv/bin/python with a fixed hash seed and /repo/src first on
  the path, so that every check runs the *current working tree* of /repo;
* programmatic Django configuration (no settings module);
* deterministic id seam (django_components.util.misc.generate);
* cooperative-lock wrapper installed *before* django_components is imported;
* reset of the library's process-global state between cases.
"""
from __future__ import annotations

import os
import sys
import tempfile
import threading

VENV_PY = "/venv/bin/python"
REPO_SRC = os.environ.get("VERIF_REPO_SRC", "/repo/src")
VERIF_DIR = os.path.dirname(os.path.dirname(os.path.abspath(__file__)))

LOCMEM_TEMPLATES: dict = {}  # name -> source, live view used by the locmem loader


def reexec_if_needed() -> None:
    """Run under the repo's interpreter with PYTHONHASHSEED=0 and /repo/src first."""
    want_env = {
        "PYTHONHASHSEED": "0",
        "VERIF_BOOTED": "1",
        "PYTHONDONTWRITEBYTECODE": "1",
    }
    if os.environ.get("VERIF_BOOTED") == "1" and os.path.realpath(sys.executable) == os.path.realpath(VENV_PY):
        return
    env = dict(os.environ)
    env.update(want_env)
    env.pop("DJANGO_SETTINGS_MODULE", None)
    pp = [REPO_SRC, VERIF_DIR]
    if env.get("PYTHONPATH"):
        pp.append(env["PYTHONPATH"])
    env["PYTHONPATH"] = os.pathsep.join(pp)
    os.execve(VENV_PY, [VENV_PY] + sys.argv, env)


# --------------------------------------------------------------------------
# Cooperative locks (DESIGN 1.2): a lock created from a django_components frame
# becomes a scheduler-aware lock when a scheduler is active; otherwise it
# behaves like the real lock it wraps.
# --------------------------------------------------------------------------
_real_Lock = threading.Lock
_real_RLock = threading.RLock
ACTIVE_SCHEDULER = None  # set by mc.sched while an exploration runs


class CoopLock:
    """Lock known to the SCHED engine. Outside an exploration it is a real lock."""

    def __init__(self, reentrant: bool):
        self._reentrant = reentrant
        self._real = _real_RLock() if reentrant else _real_Lock()
        self._owner = None
        self._count = 0

    def acquire(self, blocking: bool = True, timeout: float = -1) -> bool:
        sch = ACTIVE_SCHEDULER
        if sch is None or not sch.owns_current_thread():
            return self._real.acquire(blocking, timeout)
        me = sch.current_tid()
        if self._reentrant and self._owner == me:
            self._count += 1
            return True
        sch.lock_point(self)
        while self._owner is not None:
            if not blocking:
                return False
            sch.block_on(self)
        self._owner = me
        self._count = 1
        return True

    def release(self) -> None:
        sch = ACTIVE_SCHEDULER
        if sch is None or not sch.owns_current_thread():
            return self._real.release()
        if self._owner != sch.current_tid():
            raise RuntimeError("release of un-acquired cooperative lock")
        self._count -= 1
        if self._count == 0:
            self._owner = None
            sch.lock_released(self)

    def locked(self) -> bool:
        if ACTIVE_SCHEDULER is None:
            if self._reentrant:
                if self._real.acquire(False):
                    self._real.release()
                    return False
                return True
            return self._real.locked()
        return self._owner is not None

    def __enter__(self):
        self.acquire()
        return self

    def __exit__(self, *a):
        self.release()

    # RLock internals used by threading.Condition
    def _is_owned(self):
        sch = ACTIVE_SCHEDULER
        if sch is None:
            return self._real._is_owned() if hasattr(self._real, "_is_owned") else self._real.locked()
        return self._owner == sch.current_tid()


def _creator_is_library() -> bool:
    f = sys._getframe(2)
    mod = f.f_globals.get("__name__", "")
    return mod.startswith("django_components")


def _Lock_factory(*a, **k):
    if _creator_is_library():
        return CoopLock(False)
    return _real_Lock(*a, **k)


def _RLock_factory(*a, **k):
    if _creator_is_library():
        return CoopLock(True)
    return _real_RLock(*a, **k)


def install_lock_wrapper() -> None:
    if "django_components" in sys.modules:
        raise RuntimeError("lock wrapper must be installed before django_components is imported")
    threading.Lock = _Lock_factory  # type: ignore
    threading.RLock = _RLock_factory  # type: ignore


# --------------------------------------------------------------------------
# Django configuration
# --------------------------------------------------------------------------
_BASE_DIR = None


def setup_django(components: dict | None = None, extra: dict | None = None, with_components: bool = True,
                 extra_builtins: tuple = ()) -> None:
    """Configure Django in-process. `with_components=False` gives a truly stock Django."""
    global _BASE_DIR
    import django
    from django.conf import settings

    if settings.configured:
        raise RuntimeError("Django already configured")
    _BASE_DIR = tempfile.mkdtemp(prefix="verif-base-")
    os.makedirs(os.path.join(_BASE_DIR, "components"), exist_ok=True)
    loaders = [("django.template.loaders.locmem.Loader", LOCMEM_TEMPLATES)]
    builtins = []
    apps = []
    middleware = []
    if with_components:
        loaders.append("django_components.template_loader.Loader")
        builtins.append("django_components.templatetags.component_tags")
        apps.append("django_components")
        middleware.append("django_components.middleware.ComponentDependencyMiddleware")
    builtins.extend(extra_builtins)
    cfg = {
        "BASE_DIR": _BASE_DIR,
        "INSTALLED_APPS": tuple(apps),
        "TEMPLATES": [
            {
                "BACKEND": "django.template.backends.django.DjangoTemplates",
                "DIRS": [],
                "OPTIONS": {"builtins": builtins, "loaders": loaders,
                            "libraries": {"verif_a": "mc.verif_lib_a", "verif_b": "mc.verif_lib_b"}},
            }
        ],
        "MIDDLEWARE": middleware,
        "DATABASES": {},
        "SECRET_KEY": "verif",
        "ALLOWED_HOSTS": ["*"],
        "USE_TZ": True,
        "STATIC_URL": "static/",
    }
    if with_components:
        cfg["ROOT_URLCONF"] = "django_components.urls"
        cfg["COMPONENTS"] = {
            "autodiscover": False,
            "dirs": [os.path.join(_BASE_DIR, "components")],
            "app_dirs": [],
            "template_cache_size": 128,
            "context_behavior": "django",
            **(components or {}),
        }
    cfg.update(extra or {})
    settings.configure(**cfg)
    django.setup()


def base_dir() -> str:
    assert _BASE_DIR
    return _BASE_DIR


def cleanup_base_dir() -> None:
    import shutil

    if _BASE_DIR and os.path.isdir(_BASE_DIR):
        shutil.rmtree(_BASE_DIR, ignore_errors=True)


def set_components_setting(**kw) -> None:
    """Change COMPONENTS settings live (app_settings reads them on every access)."""
    from django.conf import settings

    d = dict(settings.COMPONENTS)
    d.update(kw)
    settings.COMPONENTS = d


# --------------------------------------------------------------------------
# Deterministic ids
# --------------------------------------------------------------------------
class IdSeam:
    """Replaces django_components.util.misc.generate with a counter (per thread prefix)."""

    B62 = "0123456789abcdefghijklmnopqrstuvwxyzABCDEFGHIJKLMNOPQRSTUVWXYZ"

    def __init__(self):
        self.count = 0
        self.prefix_by_thread: dict = {}
        self.count_by_thread: dict = {}
        # ids over the library's real alphabet [0-9a-zA-Z] (upper case and non-hex letters included), still a
        # deterministic counter: "Zq" + 4 base-62 digits in the main thread, <prefix> + "Q" + 4 digits in scheduled threads
        # (ID_PATTERN matches both).  "hex" (a00001 ...) is the old, easier-to-read style.
        self.style = "mixed"

    def reset(self, start: int = 0) -> None:
        self.count = start
        self.count_by_thread.clear()

    def __call__(self, *a, **k) -> str:
        tid = threading.get_ident()
        pfx = self.prefix_by_thread.get(tid)
        if pfx is None:
            self.count += 1
            if self.style == "mixed":
                return "Zq" + self._b62(self.count)
            return "%06x" % (0xA00000 + self.count)
        n = self.count_by_thread.get(tid, 0) + 1
        self.count_by_thread[tid] = n
        if self.style == "mixed":
            return pfx + "Q" + self._b62(n)
        return "%s%05x" % (pfx, n)

    def _b62(self, n: int) -> str:
        n, out = n * 7919, ""
        for _ in range(4):
            n, r = divmod(n, 62)
            out = self.B62[r] + out
        return out


ID_SEAM = IdSeam()
ID_PATTERN = r"(?:Zq|[b-p]Q)[0-9a-zA-Z]{4}"  # every id the seam hands out in "mixed" style


def install_id_seam() -> IdSeam:
    import django_components.util.misc as misc

    misc.generate = ID_SEAM
    return ID_SEAM


# --------------------------------------------------------------------------
# Reset of library-global state between cases (DESIGN 1.4)
# --------------------------------------------------------------------------
def registries_snapshot() -> dict:
    """Sizes of every per-render registry of the library (for residue oracles)."""
    from django_components.perfutil import component as pc
    from django_components.perfutil import provide as pp

    out = {}
    for mod, names in (
        (pc, ("component_context_cache", "component_renderer_cache", "child_component_attrs")),
        (pp, ("provide_cache", "provide_references", "all_reference_ids")),
    ):
        for n in names:
            if hasattr(mod, n):
                out[n] = len(getattr(mod, n))
    return out


def clear_render_registries() -> None:
    from django_components.perfutil import component as pc
    from django_components.perfutil import provide as pp

    for mod, names in (
        (pc, ("component_context_cache", "component_renderer_cache", "child_component_attrs")),
        (pp, ("provide_cache", "provide_references", "all_reference_ids")),
    ):
        for n in names:
            if hasattr(mod, n):
                getattr(mod, n).clear()


def reset_library(keep=("dynamic",)) -> None:
    """Unregister every component except `keep`, clear caches and registries."""
    from django_components import cache as djc_cache
    from django_components.component_registry import registry

    for name in list(registry.all().keys()):
        if name not in keep:
            registry.unregister(name)
    clear_render_registries()
    if djc_cache.template_cache is not None:
        djc_cache.template_cache.clear()
    if djc_cache.component_media_cache is not None:
        djc_cache.component_media_cache.clear()
    try:
        from django_components.component import component_node_subclasses_by_name

        for k in list(component_node_subclasses_by_name.keys()):
            if k not in keep:
                del component_node_subclasses_by_name[k]
    except Exception:
        pass
    LOCMEM_TEMPLATES.clear()


def drop_template_cache() -> None:
    """Forget the lazily created LRU so that a new template_cache_size takes effect."""
    from django_components import cache as djc_cache

    djc_cache.template_cache = None
