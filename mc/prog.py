"""PROG engine (DESIGN 2.1): component-program AST, printer, reference interpreter, real-code harness.

A *program* is (page nodelist, {component name: ComponentSpec}, page context, mode).
Nodes are plain tuples so that programs hash, pickle and print cheaply:

    ("T", marker)                              text (marker unique per template, e.g. "P1 ")
    ("V", name)                                {{ name }}
    ("If", cond_var, body)                     {% if cond_var %}body{% endif %}
    ("For", var, items, body)                  {% for var in "<items>" %}  (items: string, iterated by character)
    ("With", name, expr, body)                 {% with name=expr %}
    ("Slot", nameexpr, flags, data, body)      nameexpr: "x" literal | "$n" variable;  flags: subset string of "dr"
    ("Comp", cname, kwargs, only, body)        body: None | nodelist (may contain Fill nodes)
    ("Fill", nameexpr, data_var, default_var, body)
    ("D", var)                                 {{ var }} where var is a fill's default= alias
    ("Prov", key, kwargs, body)                {% provide "key" k=expr %}
    ("El", tag, n, body)                       <tag data-n="n">body</tag>
    ("Boom", kind)                             harness fault tag (C06)

expr: "'lit'" (quoted literal) or a variable name.
"""
from __future__ import annotations

import re
import signal

# ---------------------------------------------------------------------------
# labelling and printing
# ---------------------------------------------------------------------------


def label(nodes, prefix, counter=None):
    """Give every text node a unique marker ('P1 ', 'A2 ', ...) and every element a unique number."""
    if counter is None:
        counter = [0]
    out = []
    for n in nodes:
        k = n[0]
        if k == "T":
            if n[1] is True:  # whitespace-only text
                out.append(("T", " "))
            elif n[1] is None or n[1] is False:
                counter[0] += 1
                out.append(("T", f"{prefix}{counter[0]} "))
            else:
                out.append(n)
        elif k == "If":
            out.append(("If", n[1], label(n[2], prefix, counter)))
        elif k == "For":
            out.append(("For", n[1], n[2], label(n[3], prefix, counter)))
        elif k == "With":
            out.append(("With", n[1], n[2], label(n[3], prefix, counter)))
        elif k == "Slot":
            out.append(("Slot", n[1], n[2], n[3], label(n[4], prefix, counter)))
        elif k == "Comp":
            out.append(("Comp", n[1], n[2], n[3], None if n[4] is None else label(n[4], prefix, counter)))
        elif k == "Fill":
            out.append(("Fill", n[1], n[2], n[3], label(n[4], prefix, counter)))
        elif k == "Prov":
            kwargs = n[2]
            if kwargs is None:  # unique provided value per provide tag
                counter[0] += 1
                kwargs = (("v", "'%s%s%d'" % (n[1], prefix, counter[0])),)
                if n[1] == "m":
                    kwargs += (("w", "'w'"),)
            out.append(("Prov", n[1], kwargs, label(n[3], prefix, counter)))
        elif k == "El":
            counter[0] += 1
            out.append(("El", n[1], f"{prefix}{counter[0]}", label(n[3], prefix, counter)))
        else:
            out.append(n)
    return tuple(out)


def _kw(kwargs):
    return "".join(f" {k}={v}" for k, v in kwargs)


def _nameexpr(ne, as_kwarg=False):
    if ne.startswith("$"):
        return f"name={ne[1:]}"
    return f'"{ne}"'


def print_nodes(nodes, dynamic=False):
    out = []
    for n in nodes:
        k = n[0]
        if k == "T":
            out.append(n[1])
        elif k == "V":
            out.append("{{ %s }}" % n[1])
        elif k == "D":
            out.append("{{ %s }}" % n[1])
        elif k == "If":
            out.append("{%% if %s %%}%s{%% endif %%}" % (n[1], print_nodes(n[2], dynamic)))
        elif k == "For":
            out.append('{%% for %s in "%s" %%}%s{%% endfor %%}' % (n[1], n[2], print_nodes(n[3], dynamic)))
        elif k == "With":
            out.append("{%% with %s=%s %%}%s{%% endwith %%}" % (n[1], n[2], print_nodes(n[3], dynamic)))
        elif k == "Slot":
            flags = ("" if "d" not in n[2] else " default") + ("" if "r" not in n[2] else " required")
            out.append("{%% slot %s%s%s %%}%s{%% endslot %%}" % (_nameexpr(n[1]), flags, _kw(n[3]), print_nodes(n[4], dynamic)))
        elif k == "Comp":
            head = ('component "dynamic" is="%s"' % n[1]) if dynamic else ('component "%s"' % n[1])
            only = " only" if n[3] else ""
            if n[4] is None:
                out.append("{%% %s%s%s / %%}" % (head, _kw(n[2]), only))
            else:
                out.append("{%% %s%s%s %%}%s{%% endcomponent %%}" % (head, _kw(n[2]), only, print_nodes(n[4], dynamic)))
        elif k == "Fill":
            extra = ""
            if n[2]:
                extra += ' data="%s"' % n[2]
            if n[3]:
                extra += ' default="%s"' % n[3]
            out.append("{%% fill %s%s %%}%s{%% endfill %%}" % (_nameexpr(n[1]), extra, print_nodes(n[4], dynamic)))
        elif k == "Prov":
            out.append('{%% provide "%s"%s %%}%s{%% endprovide %%}' % (n[1], _kw(n[2]), print_nodes(n[3], dynamic)))
        elif k == "El":
            out.append('<%s data-n="%s">%s</%s>' % (n[1], n[2], print_nodes(n[3], dynamic), n[1]))
        elif k == "Raw":
            out.append(n[1])
        elif k == "Tick":
            out.append("{% tick %}")
        elif k == "Boom":
            out.append("{% boom %}" if n[1] == "tag" else "{{ 1|boom }}")
        else:
            raise ValueError(n)
    return "".join(out)


def size(nodes):
    s = 0
    for n in nodes:
        s += 1
        for part in n[1:]:
            if isinstance(part, tuple) and part and isinstance(part[0], tuple) and part[0] and isinstance(part[0][0], str) and part[0][0] in _KINDS:
                s += size(part)
    return s


_KINDS = {"T", "V", "D", "If", "For", "With", "Slot", "Comp", "Fill", "Prov", "El", "Boom", "Tick", "Raw"}


def comps_used(nodes, acc=None):
    if acc is None:
        acc = []
    for n in nodes:
        k = n[0]
        if k == "Comp":
            if n[1] not in acc:
                acc.append(n[1])
            if n[4]:
                comps_used(n[4], acc)
        elif k in ("If",):
            comps_used(n[2], acc)
        elif k in ("For", "With", "Prov", "El"):
            comps_used(n[3], acc)
        elif k in ("Slot", "Fill"):
            comps_used(n[4], acc)
    return acc


# ---------------------------------------------------------------------------
# component specs
# ---------------------------------------------------------------------------


class CompSpec:
    """What a generated component class looks like.

    template : labelled nodelist
    data     : dict name -> ("const", value) | ("kwarg", kwname, default) | ("inject", key, field, default) | ("id",)
    probes   : slot names whose component_vars.is_filled value is echoed at the end of the template
    """

    def __init__(self, name, template, data=None, probes=(), assets=None, hooks=None):
        self.name = name
        self.template = template
        self.data = data or {}
        self.probes = tuple(probes)
        self.assets = assets or {}
        self.hooks = hooks or {}

    def source(self, dynamic=False):
        src = print_nodes(self.template, dynamic)
        if self.probes:
            src += "[" + "".join("{{ component_vars.is_filled.%s }}," % p for p in self.probes) + "]"
        return src

    def to_json(self):
        return {"name": self.name, "template": self.source(), "data": {k: list(v) for k, v in self.data.items()},
                "probes": list(self.probes)}


class Program:
    def __init__(self, page, comps, ctx=None):
        self.page = page  # labelled nodelist
        self.comps = comps  # dict name -> CompSpec
        self.ctx = ctx or {}

    def page_source(self, dynamic=False):
        return print_nodes(self.page, dynamic)

    def to_json(self, mode=None, dynamic=False):
        return {
            "mode": mode,
            "page": self.page_source(dynamic),
            "components": {n: c.to_json() for n, c in self.comps.items()},
            "context": self.ctx,
        }


# ---------------------------------------------------------------------------
# reference interpreter
# ---------------------------------------------------------------------------


class ModelError(Exception):
    """An error the property statement / docs require (all surface as TemplateSyntaxError)."""

    def __init__(self, cause):
        super().__init__(cause)
        self.cause = cause


class ModelKeyError(Exception):
    """inject() outside any provider without default -> KeyError."""


MISSING = ""  # Django renders unknown variables as the empty string


class Inst:
    """One component instance of the model."""

    __slots__ = ("spec", "fills", "default_slot", "idx", "data_env", "dynamic")

    def __init__(self, spec, fills, idx):
        self.spec = spec
        self.fills = fills  # name -> FillClosure
        self.default_slot = None
        self.idx = idx


class FillClosure:
    __slots__ = ("nodes", "inst", "env", "between", "data_var", "default_var", "providers")

    def __init__(self, nodes, inst, env, between, data_var, default_var):
        self.nodes = nodes
        self.inst = inst  # writer's instance (None at page level)
        self.env = env  # env at the component tag (tuple of dict layers)
        self.between = between  # layers bound between the tag and the fill
        self.data_var = data_var
        self.default_var = default_var


class SlotRefModel:
    __slots__ = ("nodes", "env", "inst", "providers")

    def __init__(self, nodes, env, inst, providers):
        self.nodes, self.env, self.inst, self.providers = nodes, env, inst, providers


def lookup(env, name):
    if "." in name:
        head, attr = name.split(".", 1)
        v = lookup(env, head)
        if isinstance(v, dict):
            return v.get(attr, MISSING)
        return MISSING
    for layer in reversed(env):
        if name in layer:
            return layer[name]
    return MISSING


def eval_expr(env, expr):
    if expr.startswith("'") or expr.startswith('"'):
        return expr[1:-1]
    return lookup(env, expr)


def truthy(v):
    return bool(v) and v != MISSING


class Interp:
    """Denotational evaluator; `mode` in {'django','isolated'}.

    Records every instance in creation (= document pre-order) order in self.instances,
    brackets each instance's output with U+E000 <idx> U+E001 ... U+E002 when mark=True.
    """

    def __init__(self, program, mode, mark=False):
        self.p = program
        self.mode = mode
        self.mark = mark
        self.instances = []
        self.depth = 0
        self.comp_stack = []  # names of the component instances whose output is being produced
        self.nested_pairs = set()  # (enclosing component name, nested component name)

    # -- entry
    def render_page(self):
        env = ({"True": True, "False": False, "None": None}, dict(self.p.ctx))
        return self.render(self.p.page, env, None, {})

    def render(self, nodes, env, inst, prov, extracting=None):
        out = []
        for n in nodes:
            k = n[0]
            if k == "T":
                out.append(n[1])
            elif k == "V":
                v = lookup(env, n[1])
                out.append(self.fmt(v))
            elif k == "D":
                v = lookup(env, n[1])
                if isinstance(v, SlotRefModel):
                    out.append(self.render(v.nodes, v.env, v.inst, v.providers))
                else:
                    out.append(self.fmt(v))
            elif k == "If":
                if truthy(lookup(env, n[1])):
                    out.append(self.render(n[2], env, inst, prov, extracting))
            elif k == "For":
                items = n[2]
                for i, ch in enumerate(items):
                    layer = {n[1]: ch, "forloop": {"counter": i + 1}}
                    out.append(self.render(n[3], env + (layer,), inst, prov, extracting))
            elif k == "With":
                layer = {n[1]: eval_expr(env, n[2])}
                out.append(self.render(n[3], env + (layer,), inst, prov, extracting))
            elif k == "El":
                out.append('<%s data-n="%s">%s</%s>' % (n[1], n[2], self.render(n[3], env, inst, prov, extracting), n[1]))
            elif k == "Prov":
                if extracting is not None:
                    # provide between tag and fill is outside every profile
                    out.append(self.render(n[3], env, inst, prov, extracting))
                else:
                    data = {kk: eval_expr(env, vv) for kk, vv in n[2]}
                    prov2 = dict(prov)
                    prov2[n[1]] = data
                    out.append(self.render(n[3], env, inst, prov2))
            elif k == "Slot":
                if extracting is not None:
                    continue
                out.append(self.render_slot(n, env, inst, prov))
            elif k == "Comp":
                if extracting is not None:
                    continue
                out.append(self.render_comp(n, env, inst, prov))
            elif k == "Fill":
                if extracting is None:
                    raise ModelError("fill-outside-component-body")
                name = n[1]
                if name.startswith("$"):
                    name = lookup(env, name[1:])
                    if not isinstance(name, str) or name == MISSING and False:
                        raise ModelError("fill-name-not-string")
                extracting.append((name, n, env))
            elif k == "Tick":
                pass
            elif k == "Boom":
                raise ModelError("boom")
            else:
                raise ValueError(n)
        return "".join(out)

    def fmt(self, v):
        if v is True:
            return "True"
        if v is False:
            return "False"
        if v is None:
            return "None"
        if isinstance(v, dict):
            return "<dict>"
        return str(v)

    # -- components
    def collect_fills(self, body, env, inst):
        """Mirror of the documented body rule: explicit fills, else the whole body is the default fill."""
        if not body:
            return {}
        captured = []
        content = self.render(body, env, inst, {}, extracting=captured)
        if not captured:
            if all(n[0] == "T" and not n[1].strip() for n in body):
                return {}
            return {"default": FillClosure(body, inst, env, (), None, None)}
        if content.strip():
            raise ModelError("fill-and-text-mixed")
        fills = {}
        for name, node, fenv in captured:
            if name in fills:
                raise ModelError("duplicate-fill")
            between = fenv[len(env):]
            fills[name] = FillClosure(node[4], inst, env, between, node[2], node[3])
        return fills

    def comp_data(self, spec, kwargs, prov, inst_idx):
        data = {}
        for name, d in spec.data.items():
            if d[0] == "const":
                data[name] = d[1]
            elif d[0] == "kwarg":
                data[name] = kwargs.get(d[1], d[2])
            elif d[0] == "inject":
                _, key, field, default = d
                if key in prov:
                    data[name] = prov[key].get(field, MISSING) if field else ",".join(sorted(prov[key].keys()))
                elif default is not None:
                    data[name] = default
                else:
                    raise ModelKeyError(key)
            elif d[0] == "id":
                data[name] = "%d" % inst_idx
        return data

    def render_comp(self, n, env, inst, prov):
        _, cname, kwargs, only, body = n
        spec = self.p.comps[cname]
        kw = {k: eval_expr(env, v) for k, v in kwargs}
        fills = self.collect_fills(body, env, inst)
        idx = len(self.instances)
        child = Inst(spec, fills, idx)
        self.instances.append(child)
        data = self.comp_data(spec, kw, prov, idx)
        if self.mode == "isolated" or only:
            cenv = ({"True": True, "False": False, "None": None}, data)
        else:
            cenv = env + (data,)
        self.depth += 1
        if self.depth > 60:
            raise RecursionError("model recursion")
        for anc in self.comp_stack:
            self.nested_pairs.add((anc, cname))
        self.comp_stack.append(cname)
        try:
            out = self.render(spec.template, cenv, child, prov)
        finally:
            self.depth -= 1
            self.comp_stack.pop()
        if spec.probes:
            out += "[" + "".join(("True" if p in fills else "False") + "," for p in spec.probes) + "]"
        if self.mark:
            return "\ue000%d\ue001%s\ue002" % (idx, out)
        return out

    # -- slots
    def render_slot(self, n, env, inst, prov):
        _, nameexpr, flags, data, body = n
        if inst is None:
            raise ModelError("slot-outside-component")
        name = nameexpr
        if name.startswith("$"):
            name = lookup(env, name[1:])
        fills = inst.fills
        is_default = "d" in flags
        is_required = "r" in flags
        if is_default:
            if inst.default_slot is not None and inst.default_slot != name:
                raise ModelError("two-default-slots")
            if inst.default_slot is None:
                inst.default_slot = name
            if name != "default" and name in fills and "default" in fills:
                raise ModelError("slot-filled-twice")
        fill_name = "default" if (is_default and "default" in fills) else name
        fc = fills.get(fill_name)
        if fc is None:
            if is_required:
                raise ModelError("required-slot-unfilled")
            return self.render(body, env, inst, prov)
        slot_data = {k: eval_expr(env, v) for k, v in data}
        aliases = {}
        if fc.data_var:
            aliases[fc.data_var] = slot_data
        if fc.default_var:
            aliases[fc.default_var] = SlotRefModel(body, env, inst, prov)
        if self.mode == "isolated":
            fenv = fc.env + fc.between + (aliases,)
        else:
            # django: aliases > inner-component scope > between-bindings > variables at the tag
            inner = env[len(fc.env):] if env[: len(fc.env)] == fc.env else env
            fenv = fc.env + fc.between + tuple(inner) + (aliases,)
        return self.render(fc.nodes, fenv, fc.inst, prov)


# ---------------------------------------------------------------------------
# real-code harness
# ---------------------------------------------------------------------------

_RENDERED_RE = re.compile(r"<!-- _RENDERED [^>]*?-->")
_DJC_ID_RE = re.compile(r' data-djc-id-\w+(="")?')


def strip_markers(html):
    return _DJC_ID_RE.sub("", _RENDERED_RE.sub("", html))


class HangTimeout(BaseException):
    pass


def _alarm(signum, frame):
    raise HangTimeout()


def with_alarm(seconds, fn):
    """Runs fn(); raises HangTimeout after `seconds` of *CPU time* of this process (ITIMER_VIRTUAL,
    so that a loaded machine cannot fake a hang)."""
    old = signal.signal(signal.SIGVTALRM, _alarm)
    signal.setitimer(signal.ITIMER_VIRTUAL, seconds)
    try:
        return fn()
    finally:
        signal.setitimer(signal.ITIMER_VIRTUAL, 0)
        signal.signal(signal.SIGVTALRM, old)


_SENTINEL = object()


def build_component_class(spec, dynamic=False, extra_attrs=None, module="verif_prog"):
    from django_components import Component

    data_spec = dict(spec.data)

    def get_context_data(self, **kwargs):
        data = {}
        for name, d in data_spec.items():
            if d[0] == "const":
                data[name] = d[1]
            elif d[0] == "kwarg":
                data[name] = kwargs.get(d[1], d[2])
            elif d[0] == "inject":
                _, key, field, default = d
                if default is not None:
                    # the spec's default itself goes to inject() (falsy defaults such as 0 included)
                    v = self.inject(key, default)
                    if not (isinstance(v, tuple) and hasattr(v, "_fields")):
                        data[name] = v
                        continue
                else:
                    v = self.inject(key)
                data[name] = getattr(v, field, "") if field else ",".join(sorted(v._fields))
            elif d[0] == "id":
                data[name] = "%s" % self.id
        return data

    attrs = {"template": spec.source(dynamic), "get_context_data": get_context_data, "__module__": module}
    attrs.update(extra_attrs or {})
    return type("P_" + spec.name, (Component,), attrs)


# ---------------------------------------------------------------- unrelated side renders (interference dimension)
# While the page render is in flight, every component of the program performs - from its on_render_before hook
# (during its own render) or its on_render_after hook (inside the deferred queue) - an independent Python-API render
# of an unrelated component and discards the result; the unrelated render succeeds, fails in get_context_data, fails
# in its on_render_after, or fails in a nested child (the application catches the error).  Nothing observable about
# the page render may change.
SIDE_KINDS = ("ok", "fail", "fail_late", "fail_child")
SIDE_POS = ("before", "after")
_SIDE = {}


def side_classes():
    from django_components import Component
    from django_components.component_registry import registry

    def boom(self, *a, **kw):
        raise ValueError("side render fails")

    if not _SIDE:
        tpl = "{% provide 'verif_side' v=1 %}<i>s</i>{% component 'verif_sidechild' / %}<i>t</i>{% endprovide %}"
        _SIDE["child"] = type("VerifSideChild", (Component,), {"template": "<u>child</u>", "__module__": "verif_side"})
        _SIDE["child_bad"] = type("VerifSideChildBad", (Component,), {"template": "<u>child</u>", "get_context_data": boom, "__module__": "verif_side"})
        _SIDE["ok"] = type("VerifSideOk", (Component,), {"template": tpl, "__module__": "verif_side"})
        _SIDE["fail"] = type("VerifSideFail", (Component,), {"template": tpl, "get_context_data": boom, "__module__": "verif_side"})
        _SIDE["fail_late"] = type("VerifSideFailLate", (Component,), {"template": tpl, "on_render_after": boom, "__module__": "verif_side"})
        _SIDE["fail_child"] = type("VerifSideFailChild", (Component,), {"template": tpl.replace("verif_sidechild", "verif_sidechild_bad"), "__module__": "verif_side"})
    for name, key in (("verif_sidechild", "child"), ("verif_sidechild_bad", "child_bad")):
        if name not in registry.all():
            registry.register(name, _SIDE[key])
    return _SIDE


def side_attrs(program, pos, kind):
    """extra_attrs for Harness.install(): every component of the program gets the side render in on_render_<pos>"""
    cls = side_classes()[kind]

    def side(self, *a, **kw):
        try:
            cls.render(render_dependencies=False)
        except ValueError:
            pass

    return {name: {"on_render_" + pos: side} for name in program.comps}


class Harness:
    """Registers a program's components on the real registry and renders the page."""

    def __init__(self):
        self.registered = []

    def install(self, program, dynamic=False, extra_attrs=None):
        from django_components.component_registry import registry

        self.uninstall()
        classes = {}
        for name, spec in program.comps.items():
            cls = build_component_class(spec, dynamic, (extra_attrs or {}).get(name))
            registry.register(name, cls)
            self.registered.append(name)
            classes[name] = cls
        return classes

    def uninstall(self):
        from django_components.component_registry import registry

        for name in self.registered:
            try:
                registry.unregister(name)
            except Exception:
                pass
        self.registered = []

    def render_page(self, program, dynamic=False, timeout=2.0):
        """-> ('ok', html) | ('err', ExceptionClassName, message) | ('hang',)"""
        from django.template import Context, Template

        src = program.page_source(dynamic)

        def go():
            t = Template(src)
            return t.render(Context(dict(program.ctx)))

        try:
            html = with_alarm(timeout, go)
            return ("ok", html)
        except HangTimeout:
            return ("hang",)
        except RecursionError:
            return ("err", "RecursionError", "")
        except Exception as e:  # noqa
            return ("err", type(e).__name__, str(e)[:300])


def set_mode(mode):
    from . import boot

    boot.set_components_setting(context_behavior=mode)
