"""SEQ engine (DESIGN 2.3): explicit-state search over operation histories.

A state is the *history* that reaches it; live objects are rebuilt by replaying
the history on fresh real objects.  States are merged by a canonical observation
of the real object.  Every transition applies the same operation to the
implementation and to the reference model and compares the observations; every
state is checked against the structural invariant.
"""
from __future__ import annotations

from collections import deque


class SeqResult:
    def __init__(self):
        self.states = 0
        self.transitions = 0
        self.failures = []  # (identity, what, case)
        self.fixpoint = False
        self.max_depth = 0
        self.sample_histories = []
        self.outcomes = set()


def bfs(make, ops, step, canon, max_depth=None, max_states=200000, fail_limit=20, label=""):
    """Breadth-first search to a fixpoint (or max_depth).

    make()                       -> fresh world (implementation + model bundled by the caller)
    ops                          -> list of operation descriptors (JSON-able)
    step(world, op)              -> (observation, problem|None)   applies op to impl and model,
                                    compares them and checks the invariant; problem is a string
    canon(world)                 -> hashable canonical state of the *implementation*
    Returns SeqResult.
    """
    res = SeqResult()

    def build(hist):
        w = make()
        for i in hist:
            step(w, ops[i])
        return w

    w0 = make()
    seen = {canon(w0): ()}
    frontier = deque([()])
    res.states = 1
    capped = False
    while frontier:
        hist = frontier.popleft()
        if max_depth is not None and len(hist) >= max_depth:
            capped = True
            continue
        for oi, op in enumerate(ops):
            w = build(hist)
            obs, problem = step(w, op)
            res.transitions += 1
            res.outcomes.add(repr(obs))
            nh = hist + (oi,)
            if problem:
                if len(res.failures) < fail_limit:
                    res.failures.append((problem, [ops[i] for i in nh]))
                continue
            k = canon(w)
            if k not in seen:
                seen[k] = nh
                res.states += 1
                res.max_depth = max(res.max_depth, len(nh))
                if len(res.sample_histories) < 3 and len(nh) >= 3:
                    res.sample_histories.append([ops[i] for i in nh])
                if res.states >= max_states:
                    capped = True
                    frontier.clear()
                    break
                frontier.append(nh)
    res.fixpoint = not capped
    res.seen = seen
    return res


def all_sequences(make, ops, step, depth, first_ops=None, canon=None, fail_limit=20):
    """Unmerged DFS over every operation sequence of length <= depth (cross-check of canon).

    Implemented by replay (live objects rarely copy).  first_ops restricts the first
    operation (used to shard the search across workers).
    Returns (n_sequences, n_transitions, failures, outcomes, canon_states)
    """
    n_seq = 0
    n_tr = 0
    failures = []
    outcomes = set()
    canon_states = set()
    nops = len(ops)

    def rec(hist):
        nonlocal n_seq, n_tr
        # replay prefix, then try each op as the last step
        rng = range(nops) if (hist or first_ops is None) else first_ops
        for oi in rng:
            w = make()
            bad = False
            for i in hist:
                step(w, ops[i])
            obs, problem = step(w, ops[oi])
            n_tr += 1
            n_seq += 1
            outcomes.add(repr(obs))
            if problem:
                bad = True
                if len(failures) < fail_limit:
                    failures.append((problem, [ops[i] for i in hist + (oi,)]))
            elif canon is not None:
                canon_states.add(canon(w))
            if not bad and len(hist) + 1 < depth:
                rec(hist + (oi,))

    rec(())
    return n_seq, n_tr, failures, outcomes, canon_states
