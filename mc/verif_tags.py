"""Harness template tags / filters: user-code fault points for C06 (and stock custom tags for C10)."""
from django import template

register = template.Library()


class Boom(Exception):
    pass


class FaultPlan:
    """Numbers the invocations of user-code callbacks of one render; invocation `target` raises."""

    def __init__(self):
        self.n = 0
        self.target = -1
        self.make_exc = lambda: Boom("boom")
        self.raised = None
        self.sites = []

    def arm(self, target, make_exc=None):
        self.n = 0
        self.target = target
        self.raised = None
        self.sites = []
        if make_exc is not None:
            self.make_exc = make_exc

    def tick(self, site):
        self.n += 1
        self.sites.append(site)
        if self.n == self.target:
            self.raised = self.make_exc()
            raise self.raised


PLAN = FaultPlan()


@register.simple_tag
def tick():
    PLAN.tick("tag")
    return ""


@register.filter
def tickf(value):
    PLAN.tick("filter")
    return value


@register.simple_tag
def echo_tag(value="", extra=""):
    return f"<{value}|{extra}>"


@register.inclusion_tag("verif_incl.html")
def incl_tag(value=""):
    return {"iv": value}
