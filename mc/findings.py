"""Violations, known findings and replay artefacts (DESIGN 1.6)."""
from __future__ import annotations

import hashlib
import json
import os

from .boot import VERIF_DIR

KNOWN_PATH = os.path.join(VERIF_DIR, "known_findings.json")
REPLAY_DIR = os.path.join(VERIF_DIR, "replay")
MAX_REPLAYS = 8


def sha(obj) -> str:
    return hashlib.sha1(json.dumps(obj, sort_keys=True, default=str).encode()).hexdigest()[:12]


class Findings:
    """Collects failures of one check run and sorts them into KNOWN-FINDING / VIOLATION.

    identity: a stable string that names the *specific* failing input core, call site
    or history class (never just the property).  An open entry of known_findings.json
    lists the identities it covers; anything else is a violation.
    """

    def __init__(self, pid: str):
        self.pid = pid
        self.open_entries = []
        if os.path.exists(KNOWN_PATH):
            with open(KNOWN_PATH) as f:
                for e in json.load(f).get("findings", []):
                    if e.get("property") == pid and e.get("status") == "open":
                        self.open_entries.append(e)
        self.violations: dict = {}  # identity -> (what, case, count)
        self.known_hits: dict = {}  # entry index -> count
        self.total_failures = 0

    def _match(self, identity: str):
        for i, e in enumerate(self.open_entries):
            if identity in e.get("identity", []):
                return i
        return None

    def report(self, identity: str, what: str, case: dict) -> bool:
        """Returns True when the failure is a *new* violation."""
        self.total_failures += 1
        i = self._match(identity)
        if i is not None:
            self.known_hits[i] = self.known_hits.get(i, 0) + 1
            return False
        if identity in self.violations:
            w, c, n = self.violations[identity]
            self.violations[identity] = (w, c, n + 1)
        else:
            self.violations[identity] = (what, case, 1)
        return True

    def merge_reports(self, reports) -> None:
        """reports: iterable of (identity, what, case) coming back from workers."""
        for identity, what, case in reports:
            self.report(identity, what, case)

    def finish(self) -> tuple:
        for i, n in sorted(self.known_hits.items()):
            e = self.open_entries[i]
            print(f"KNOWN-FINDING: property={self.pid} {e.get('what', '')} (matched {n} case(s))")
        os.makedirs(REPLAY_DIR, exist_ok=True)
        shown = 0
        for identity, (what, case, n) in sorted(self.violations.items(), key=lambda kv: (len(json.dumps(kv[1][1], default=str)), kv[0])):
            if shown >= MAX_REPLAYS:
                break
            path = os.path.join(REPLAY_DIR, f"{self.pid}-{sha(identity)}.json")
            with open(path, "w") as f:
                json.dump({"property": self.pid, "identity": identity, "what": what, "occurrences": n, "case": case},
                          f, indent=1, default=str, ensure_ascii=False)
                f.write("\n")
            print(f"VIOLATION property={self.pid} replay={path}")
            print(f"  identity: {identity}")
            print(f"  what: {what[:600]}")
            shown += 1
        if os.environ.get("VERIF_LIST_IDENTITIES"):
            # maintenance aid: the complete identity list of this run (for a human to review and commit)
            for identity in sorted(self.violations):
                print("IDENTITY " + json.dumps(identity))
        if len(self.violations) > shown:
            print(f"  ... {len(self.violations) - shown} further distinct violation identities not written")
        return len(self.violations), sum(self.known_hits.values())
