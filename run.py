#!/usr/bin/env python3
"""Entry point: python3 run.py <ID> --tier quick|thorough [--replay file]

exit 0  property held on everything explored (KNOWN-FINDING lines allowed)
exit 1  VIOLATION property=<id> replay=<path>
exit 2  harness error (never dressed up as a violation)
"""
from __future__ import annotations

import argparse
import importlib
import json
import os
import sys
import time
import traceback

sys.path.insert(0, os.path.dirname(os.path.abspath(__file__)))

from mc import boot  # noqa: E402

boot.reexec_if_needed()


def main() -> int:
    ap = argparse.ArgumentParser()
    ap.add_argument("pid")
    ap.add_argument("--tier", default=os.environ.get("VERIF_TIER", "quick"), choices=["quick", "thorough"])
    ap.add_argument("--replay")
    ap.add_argument("--no-evidence", action="store_true")
    args = ap.parse_args()
    pid = args.pid.upper()
    seed = int(os.environ.get("VERIF_SEED", "0") or 0)

    from mc.evidence import Evidence, validate
    from mc.findings import Findings
    from mc.par import HarnessError

    boot.install_lock_wrapper()
    mod = importlib.import_module(f"checks.{pid.lower()}")
    dj = getattr(mod, "DJANGO", {})
    if dj is not None:
        boot.setup_django(**dj)
        if dj.get("with_components", True):
            boot.install_id_seam()

    ev = Evidence(pid, args.tier, seed, getattr(mod, "LEVEL", "model_checking"))
    fnd = Findings(pid)

    class Ctx:
        pass

    ctx = Ctx()
    ctx.tier, ctx.seed, ctx.ev, ctx.fnd, ctx.pid = args.tier, seed, ev, fnd, pid
    try:
        if args.replay:
            with open(args.replay) as f:
                doc = json.load(f)
            ok = mod.replay(ctx, doc["case"])
            print("REPLAY:", "property holds on this case" if ok else "violation reproduced")
            return 0 if ok else 1
        mod.run(ctx)
    except HarnessError as e:
        print(f"HARNESS-ERROR property={pid}: {e}")
        return 2
    except Exception:
        print(f"HARNESS-ERROR property={pid}:")
        traceback.print_exc()
        return 2
    finally:
        boot.cleanup_base_dir()

    nviol, nknown = fnd.finish()
    vac = ev.vacuity_problem()
    if not args.no_evidence:
        path = ev.write(nviol, nknown)
        err = validate(path)
        if err:
            print(f"HARNESS-ERROR property={pid}: evidence does not validate: {err}")
            return 2
    print(
        f"{pid} tier={args.tier} seed={seed} states={ev.states} transitions={ev.transitions} "
        f"validated={ev.validated} nontrivial={ev.nontrivial} observed_distinct={ev.observed_distinct} "
        f"violations={nviol} known={nknown} exhaustive={ev.exhaustive and not ev.caps_hit} "
        f"wall={time.time() - ev.t0:.1f}s"
    )
    if nviol:
        return 1
    if vac:
        print(f"HARNESS-ERROR property={pid}: vacuous exploration: {vac}")
        return 2
    return 0


if __name__ == "__main__":
    sys.exit(main())
